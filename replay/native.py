"""Native replay of a refuted obligation on the REAL rex code (run with /venv/bin/python, PYTHONPATH=/repo, JAX_PLATFORMS=cpu).
usage: native.py <replay.json>     exit 1 = the violation reproduces on the real code, 0 = it does not, 2 = no recipe / error.
Handlers are replayed in isolation on stub wrappers built with object.__new__ (real deques, real methods); the callees a handler
reaches through self.push_*() are replaced on the stub instance by recorders - the caller sees the callee's contract, not its body."""
import json, os, sys, warnings
from collections import deque
from fractions import Fraction

warnings.filterwarnings("ignore")
sys.path.insert(0, os.environ.get("REX_REPO", "/repo"))


def num(s, default=0.0):
    if s is None:
        return default
    s = str(s).replace("?", "")
    try:
        if "/" in s:
            return float(Fraction(s))
        return float(s)
    except Exception:
        return default


def parse_label(label):
    return label.split(",")


# ------------------------------------------------------------------------------------------------ stubs
def stub_conn(blocking=False, skip=False, jitter="LATEST", clock="SIMULATED", state="RUNNING", window=1, rate_out=10.0, phase=0.0):
    from rex import asynchronous as A
    from rex.constants import Async, Clock, Jitter

    class N:  # minimal node / connection facades with exactly the attributes the handlers read
        pass

    conn = N(); conn.blocking = blocking; conn.skip = skip; conn.jitter = getattr(Jitter, jitter); conn.window = window
    conn.output_node = N(); conn.output_node.rate = rate_out; conn.output_node.name = "src"; conn.output_node.phase = 0.0
    conn.input_node = N(); conn.input_node.name = "dst"; conn.input_node.rate = rate_out; conn.input_node.phase = 0.0; conn.input_node.log_level = 100
    conn.input_name = "in0"
    w = object.__new__(A._AsyncConnectionWrapper)
    w.connection = conn
    w._state = getattr(Async, state)
    inode = N(); inode._clock = getattr(Clock, clock); inode.eps = 0; inode.calls = []
    inode.throttle = lambda ts: None
    inode.now = lambda: 0.0
    inode._submit = lambda fn, *a, **k: inode.calls.append(getattr(fn, "__name__", str(fn)))
    inode.push_step = lambda: None
    inode.push_phase_shift = lambda: None
    w.input_node = inode
    w.output_node = N()
    w._tick = 0; w._phase = phase; w._prev_recv_sc = 0.0; w._dist_state = None; w._num_buffer = 50
    w._record_messages = []
    for q in ("q_msgs", "q_ts_input", "q_ts_max", "q_zip_delay", "q_zip_msgs", "q_expected_select", "q_expected_ts_max", "q_grouped", "q_ts_next_step", "q_sample"):
        setattr(w, q, deque())
    w.log = lambda *a, **k: None
    w.calls = []
    for callee in ("push_zip", "push_ts_max", "push_expected_nonblocking", "push_selection"):
        setattr(w, "_real_" + callee, getattr(w, callee))
    return w


def isolate(w, callees):
    for c in callees:
        setattr(w, c, (lambda name: (lambda *a, **k: w.calls.append(name)))(c))


# ------------------------------------------------------------------------------------------------ recipes
def r_push_ts_input(spec, data):
    from rex import base
    p = spec["probes"]
    lab = parse_label(spec["label"])
    blocking = lab[1] == "B"
    sent0, delay0, prev0 = num(p.get("sent")), max(0.0, num(p.get("delay"))), round(num(p.get("prev_recv")), 6)
    clause = data["obligation"]
    import math
    grid = math.floor(sent0 * 1e6) / 1e6
    # the solver's R6 is an abstraction of round(.,6): try the model's input first, then inputs in its 1e-6 cell
    cands = [(sent0, delay0, prev0)] + [(grid + d, dl, min(prev0, grid)) for d in (4e-7, 4.9e-7, 1e-7) for dl in (delay0, 0.0)]
    for sent, delay, prev in cands:
        w = stub_conn(blocking=blocking, clock="SIMULATED" if lab[0] == "SIM" else "WALL_CLOCK", state=lab[2])
        isolate(w, ["push_zip", "push_ts_max", "push_expected_nonblocking"])
        w._prev_recv_sc = prev
        w.q_sample.append(delay)
        w.push_ts_input(sent, base.Header(eps=0, seq=0, ts=sent))
        if not w.q_ts_input:
            print("message rejected; nothing to observe")
            return False
        recv = w.q_ts_input[-1][1]
        print(f"real push_ts_input: sent={sent!r} delay={delay!r} prev_recv={prev!r} -> recv={recv!r}")
        if _ts_input_bad(clause, sent, delay, prev, recv):
            return True
    return False


def _ts_input_bad(clause, sent, delay, prev, recv):
    if "literal causality" in clause:
        bad = not (recv >= sent)
        print(f"required recv >= sent: {'VIOLATED' if bad else 'holds'} (recv - sent = {recv - sent!r})")
        return bad
    if "recv >= sent - 5e-7" in clause:
        return not (recv >= sent - 5e-7 - 1e-12)
    if "FIFO" in clause:
        return not (recv >= prev)
    if "receive time" in clause:
        return abs(recv - round(max(sent + delay, prev), 6)) > 1e-12
    return False


def r_set_delay(spec, data):
    import distrax
    from rex import base
    from rex.node import BaseNode, Connection

    class Nd(BaseNode):
        pass

    a, b = Nd("a", rate=10.0), Nd("b", rate=10.0)
    b.connect(a, window=1)
    obj = b.inputs["a"] if spec["cls"] == "Connection" else a
    old_dd, old_delay = obj.delay_dist, obj.delay
    kw = {}
    given = None
    if spec["dist_given"]:
        given = distrax.Normal(loc=0.02, scale=0.001) if spec["given_is_distrax"] else base.StaticDist.create(distrax.Normal(loc=0.02, scale=0.001))
        kw["delay_dist"] = given
    if spec["delay_given"]:
        kw["delay"] = 0.123
    try:
        obj.set_delay(**kw)
    except Exception as e:
        print("set_delay raised", type(e).__name__, e)
        return True
    new = obj.delay_dist
    bad = False
    if spec["dist_given"]:
        ok = (new is given) or (isinstance(new, base.StaticDist) and new.dist is given)
        print("delay_dist replaced by the given one:", ok, "| still the old object:", new is old_dd)
        bad |= not ok
    else:
        bad |= new is not old_dd
    if spec["delay_given"]:
        bad |= obj.delay != 0.123
    else:
        bad |= obj.delay != old_delay
    bad |= not isinstance(new, base.DelayDistribution)
    return bad


def r_push_expected_nonblocking(spec, data):
    model = data.get("model", {})
    lab = parse_label(spec["label"])
    w = stub_conn(blocking=False, jitter=lab[1], clock="SIMULATED" if lab[0] == "SIM" else "WALL_CLOCK")
    isolate(w, ["push_selection"])
    # the model is not decoded entry by entry: probe with the canonical tie / order cases around t
    t = 1.0
    bad = False
    for skip in (False, True):
        for stream in ([(0, 0.5), (1, 1.0), (2, 1.5)], [(0, 1.0), (1, 1.0), (2, 2.0)], [(0, 0.2), (1, 0.4), (2, 0.6), (3, 3.0)], [(0, 2.0)]):
            w = stub_conn(blocking=False, skip=skip, jitter=lab[1], rate_out=1.0)
            isolate(w, ["push_selection"])
            w.q_ts_input.extend(stream)
            w.q_ts_next_step.append((0, t))
            w.push_expected_nonblocking()
            if not w.q_expected_select:
                continue
            k = w.q_expected_select[-1][1]
            if lab[1] == "LATEST":
                want = 0
                for _, ts in stream:
                    if ts > t or (skip and ts == t):
                        break
                    want += 1
            else:
                want = 0
                for seq, ts in stream:
                    if seq / 1.0 + 0.0 > t or ts > t:
                        break
                    want += 1
            print(f"skip={skip} stream={stream} t={t}: took {k}, rule says {want}")
            bad |= k != want
    return bad


def r_policy_vs_actor(spec, data):
    import jax, jax.numpy as jnp
    from rex.actor_critic import Actor
    from rex.ppo import Policy
    n_out, n_obs = 2, 3
    actor = Actor(num_output_units=n_out, num_hidden_units=5, num_hidden_layers=spec["depth"], hidden_activation=spec["act"], output_activation="gaussian", state_independent_std=spec["sis"])
    obs = jnp.array([0.3, -1.2, 2.5])
    params = actor.init(jax.random.PRNGKey(1), obs)["params"]
    pi = actor.apply({"params": params}, obs)
    pol = Policy(act_scaling=None, obs_scaling=None, model={"actor": params}, hidden_activation=spec["act"], output_activation="gaussian", state_independent_std=spec["sis"])
    try:
        a = pol.apply_actor(obs, rng=jax.random.PRNGKey(7) if spec["rng"] else None)
    except Exception as e:
        print("exported policy raised", type(e).__name__, e)
        return True
    if spec["rng"]:
        want = pi.sample(seed=jax.random.PRNGKey(7))
    else:
        want = pi.loc if hasattr(pi, "loc") else pi.mean()
    print("actor :", want)
    print("policy:", a)
    return a.shape != want.shape or not bool(jnp.allclose(a, want, atol=1e-6))


RECIPES = {"policy_vs_actor": r_policy_vs_actor, "push_ts_input": r_push_ts_input, "set_delay": r_set_delay, "push_expected_nonblocking": r_push_expected_nonblocking}


def main():
    data = json.load(open(sys.argv[1]))
    spec = data.get("replay_spec")
    if not spec or spec.get("kind") not in RECIPES:
        print("no native recipe for this obligation")
        sys.exit(2)
    try:
        bad = RECIPES[spec["kind"]](spec, data)
    except Exception as e:
        import traceback
        traceback.print_exc()
        print("replay error:", type(e).__name__, e)
        sys.exit(2)
    print("REPRODUCED on the real code" if bad else "not reproduced")
    sys.exit(1 if bad else 0)


if __name__ == "__main__":
    main()
