"""Native replay of a refuted obligation on the REAL rex code (run with /venv/bin/python, PYTHONPATH=/repo, JAX_PLATFORMS=cpu).
usage: native.py <replay.json>     exit 1 = the violation reproduces on the real code, 0 = it does not, 2 = no recipe / error.
Handlers are replayed in isolation on stub wrappers built with object.__new__ (real deques, real methods); the callees a handler
reaches through self.push_*() are replaced on the stub instance by recorders - the caller sees the callee's contract, not its body."""
import json, os, sys, warnings
from collections import deque
from fractions import Fraction

warnings.filterwarnings("ignore")
sys.path.insert(0, os.environ.get("REX_REPO", "/repo"))


def num(s, default=0.0):
    if s is None:
        return default
    s = str(s).replace("?", "")
    try:
        if "/" in s:
            return float(Fraction(s))
        return float(s)
    except Exception:
        return default


def parse_label(label):
    return label.split(",")


# ------------------------------------------------------------------------------------------------ stubs
def stub_conn(blocking=False, skip=False, jitter="LATEST", clock="SIMULATED", state="RUNNING", window=1, rate_out=10.0, phase=0.0):
    from rex import asynchronous as A
    from rex.constants import Async, Clock, Jitter

    class N:  # minimal node / connection facades with exactly the attributes the handlers read
        pass

    conn = N(); conn.blocking = blocking; conn.skip = skip; conn.jitter = getattr(Jitter, jitter); conn.window = window
    conn.output_node = N(); conn.output_node.rate = rate_out; conn.output_node.name = "src"; conn.output_node.phase = 0.0
    conn.input_node = N(); conn.input_node.name = "dst"; conn.input_node.rate = rate_out; conn.input_node.phase = 0.0; conn.input_node.log_level = 100
    conn.input_name = "in0"
    w = object.__new__(A._AsyncConnectionWrapper)
    w.connection = conn
    w._state = getattr(Async, state)
    inode = N(); inode._clock = getattr(Clock, clock); inode.eps = 0; inode.calls = []
    inode.throttle = lambda ts: None
    inode.now = lambda: 0.0
    inode._submit = lambda fn, *a, **k: inode.calls.append(getattr(fn, "__name__", str(fn)))
    inode.push_step = lambda: None
    inode.push_phase_shift = lambda: None
    w.input_node = inode
    w.output_node = N()
    w._tick = 0; w._phase = phase; w._prev_recv_sc = 0.0; w._dist_state = None; w._num_buffer = 50
    w._record_messages = []
    for q in ("q_msgs", "q_ts_input", "q_ts_max", "q_zip_delay", "q_zip_msgs", "q_expected_select", "q_expected_ts_max", "q_grouped", "q_ts_next_step", "q_sample"):
        setattr(w, q, deque())
    w.log = lambda *a, **k: None
    w.calls = []
    for callee in ("push_zip", "push_ts_max", "push_expected_nonblocking", "push_selection"):
        setattr(w, "_real_" + callee, getattr(w, callee))
    return w


def isolate(w, callees):
    for c in callees:
        setattr(w, c, (lambda name: (lambda *a, **k: w.calls.append(name)))(c))


# ------------------------------------------------------------------------------------------------ recipes
def r_push_ts_input(spec, data):
    from rex import base
    p = spec["probes"]
    lab = parse_label(spec["label"])
    blocking = lab[1] == "B"
    sent0, delay0, prev0 = num(p.get("sent")), max(0.0, num(p.get("delay"))), round(num(p.get("prev_recv")), 6)
    clause = data["obligation"]
    import math
    grid = math.floor(sent0 * 1e6) / 1e6
    # the solver's R6 is an abstraction of round(.,6): try the model's input first, then inputs in its 1e-6 cell
    cands = [(sent0, delay0, prev0)] + [(grid + d, dl, min(prev0, grid)) for d in (4e-7, 4.9e-7, 1e-7) for dl in (delay0, 0.0)]
    for sent, delay, prev in cands:
        w = stub_conn(blocking=blocking, clock="SIMULATED" if lab[0] == "SIM" else "WALL_CLOCK", state=lab[2])
        isolate(w, ["push_zip", "push_ts_max", "push_expected_nonblocking"])
        w._prev_recv_sc = prev
        w.q_sample.append(delay)
        w.push_ts_input(sent, base.Header(eps=0, seq=0, ts=sent))
        if not w.q_ts_input:
            print("message rejected; nothing to observe")
            return False
        recv = w.q_ts_input[-1][1]
        print(f"real push_ts_input: sent={sent!r} delay={delay!r} prev_recv={prev!r} -> recv={recv!r}")
        if _ts_input_bad(clause, sent, delay, prev, recv):
            return True
    return False


def _ts_input_bad(clause, sent, delay, prev, recv):
    if "literal causality" in clause:
        bad = not (recv >= sent)
        print(f"required recv >= sent: {'VIOLATED' if bad else 'holds'} (recv - sent = {recv - sent!r})")
        return bad
    if "recv >= sent - 5e-7" in clause:
        return not (recv >= sent - 5e-7 - 1e-12)
    if "FIFO" in clause:
        return not (recv >= prev)
    if "receive time" in clause:
        return abs(recv - round(max(sent + delay, prev), 6)) > 1e-12
    return False


def r_set_delay(spec, data):
    import distrax
    from rex import base
    from rex.node import BaseNode, Connection

    class Nd(BaseNode):
        pass

    a, b = Nd("a", rate=10.0), Nd("b", rate=10.0)
    b.connect(a, window=1)
    obj = b.inputs["a"] if spec["cls"] == "Connection" else a
    old_dd, old_delay = obj.delay_dist, obj.delay
    kw = {}
    given = None
    if spec["dist_given"]:
        given = distrax.Normal(loc=0.02, scale=0.001) if spec["given_is_distrax"] else base.StaticDist.create(distrax.Normal(loc=0.02, scale=0.001))
        kw["delay_dist"] = given
    if spec["delay_given"]:
        kw["delay"] = 0.123
    try:
        obj.set_delay(**kw)
    except Exception as e:
        print("set_delay raised", type(e).__name__, e)
        return True
    new = obj.delay_dist
    bad = False
    if spec["dist_given"]:
        ok = (new is given) or (isinstance(new, base.StaticDist) and new.dist is given)
        print("delay_dist replaced by the given one:", ok, "| still the old object:", new is old_dd)
        bad |= not ok
    else:
        bad |= new is not old_dd
    if spec["delay_given"]:
        bad |= obj.delay != 0.123
    else:
        bad |= obj.delay != old_delay
    bad |= not isinstance(new, base.DelayDistribution)
    return bad


def r_push_expected_nonblocking(spec, data):
    model = data.get("model", {})
    lab = parse_label(spec["label"])
    w = stub_conn(blocking=False, jitter=lab[1], clock="SIMULATED" if lab[0] == "SIM" else "WALL_CLOCK")
    isolate(w, ["push_selection"])
    # the model is not decoded entry by entry: probe with the canonical tie / order cases around t
    t = 1.0
    bad = False
    for skip in (False, True):
        for stream in ([(0, 0.5), (1, 1.0), (2, 1.5)], [(0, 1.0), (1, 1.0), (2, 2.0)], [(0, 0.2), (1, 0.4), (2, 0.6), (3, 3.0)], [(0, 2.0)]):
            w = stub_conn(blocking=False, skip=skip, jitter=lab[1], rate_out=1.0)
            isolate(w, ["push_selection"])
            w.q_ts_input.extend(stream)
            w.q_ts_next_step.append((0, t))
            w.push_expected_nonblocking()
            if not w.q_expected_select:
                continue
            k = w.q_expected_select[-1][1]
            if lab[1] == "LATEST":
                want = 0
                for _, ts in stream:
                    if ts > t or (skip and ts == t):
                        break
                    want += 1
            else:
                want = 0
                for seq, ts in stream:
                    if seq / 1.0 + 0.0 > t or ts > t:
                        break
                    want += 1
            print(f"skip={skip} stream={stream} t={t}: took {k}, rule says {want}")
            bad |= k != want
    return bad


def r_policy_vs_actor(spec, data):
    import jax, jax.numpy as jnp
    from rex.actor_critic import Actor
    from rex.ppo import Policy
    n_out, n_obs = 2, 3
    actor = Actor(num_output_units=n_out, num_hidden_units=5, num_hidden_layers=spec["depth"], hidden_activation=spec["act"], output_activation="gaussian", state_independent_std=spec["sis"])
    obs = jnp.array([0.3, -1.2, 2.5])
    params = actor.init(jax.random.PRNGKey(1), obs)["params"]
    pi = actor.apply({"params": params}, obs)
    pol = Policy(act_scaling=None, obs_scaling=None, model={"actor": params}, hidden_activation=spec["act"], output_activation="gaussian", state_independent_std=spec["sis"])
    try:
        a = pol.apply_actor(obs, rng=jax.random.PRNGKey(7) if spec["rng"] else None)
    except Exception as e:
        print("exported policy raised", type(e).__name__, e)
        return True
    if spec["rng"]:
        want = pi.sample(seed=jax.random.PRNGKey(7))
    else:
        want = pi.loc if hasattr(pi, "loc") else pi.mean()
    print("actor :", want)
    print("policy:", a)
    return a.shape != want.shape or not bool(jnp.allclose(a, want, atol=1e-6))


def stub_node(scheduling="FREQUENCY", advance=False, clock="SIMULATED", state="RUNNING", rate=10.0, blocking=()):
    from rex import asynchronous as A
    from rex.constants import Async, Clock, Scheduling

    class N:
        pass
    w = object.__new__(A._AsyncNodeWrapper)
    node = N(); node.name = "n"; node.rate = rate; node.advance = advance; node.scheduling = getattr(Scheduling, scheduling); node.log = lambda *a, **k: None
    w.node = node
    w._state = getattr(Async, state); w._clock = getattr(Clock, clock); w._eps = 0; w._tick = 0; w._phase = 0.0; w._phase_scheduled = 0.0
    w._real_time_factor = 0; w._num_buffer = 50; w._dist_state = None; w._discarded = 0; w._max_records = 1000
    w._record_setting = dict(params=False, rng=False, inputs=False, state=False, output=False); w._record_steps = []
    for q in ("q_tick", "q_ts_scheduled", "q_ts_end_prev", "q_ts_start", "q_sample"):
        setattr(w, q, deque())
    w.inputs, w.outputs = {}, {}
    for i, b in enumerate(blocking):
        c = N(); c.connection = N(); c.connection.blocking = b; c.q_ts_max = deque(); c.q_ts_next_step = deque(); c.q_grouped = deque(); c.calls = []
        c._submit = (lambda cc: (lambda fn, *a, **k: cc.calls.append(getattr(fn, "__name__", str(fn)))))(c)
        c.push_expected_nonblocking = lambda: None
        c.push_expected_blocking = lambda: None
        w.inputs[f"in{i}"] = c
    w.calls = []
    w.log = lambda *a, **k: None
    w.throttle = lambda ts: None
    w._submit = lambda fn, *a, **k: w.calls.append(getattr(fn, "__name__", str(fn)))
    return w


def r_push_phase_shift(spec, data):
    lab = spec["label"].split(",")
    clock = "SIMULATED" if lab[0] == "SIM" else "WALL_CLOCK"
    sched = "FREQUENCY" if lab[1] == "FREQ" else "PHASE"
    adv = lab[2] == "adv=1"
    fan = lab[3].split("=")[1]
    blocking = tuple(ch == "B" for ch in fan if ch in "BN")
    p = spec["probes"]
    base = dict(ts_sched=num(p.get("ts_sched"), 1.0), ts_end_prev=num(p.get("ts_end_prev"), 0.9), ts_max=num(p.get("ts_max"), 0.0), ps=max(0.0, num(p.get("phase_scheduled"), 0.0)), delay=max(0.0, num(p.get("delay"), 0.01)))
    cands = [base, dict(base, ts_end_prev=base["ts_sched"] + 0.07, ps=0.05), dict(base, ts_end_prev=base["ts_sched"] + 0.02, ps=0.05), dict(base, ts_max=base["ts_sched"] + 0.3), dict(base, ps=0.2, ts_end_prev=base["ts_sched"] - 0.5)]
    bad = False
    for c in cands:
        w = stub_node(sched, adv, clock, lab[4] if len(lab) > 4 else "RUNNING", blocking=blocking)
        w.push_step = lambda: w.calls.append("push_step")
        w.q_ts_scheduled.append((3, c["ts_sched"])); w.q_ts_end_prev.append(c["ts_end_prev"]); w._phase_scheduled = c["ps"]; w.q_sample.append(c["delay"])
        nb = 0
        for i in w.inputs.values():
            if i.connection.blocking:
                i.q_ts_max.append(c["ts_max"]); nb += 1
        w.push_phase_shift()
        if not w.q_ts_start:
            continue
        tick, ts_start, delay, rec = w.q_ts_start[-1]
        tmax = c["ts_max"] if nb else 0.0
        only_blocking = adv and all(i.connection.blocking for i in w.inputs.values())
        want = max(c["ts_end_prev"], tmax) if only_blocking else max(c["ts_sched"] + c["ps"], c["ts_end_prev"], tmax)
        want_ps = max(c["ps"], c["ts_end_prev"] - c["ts_sched"]) if sched == "FREQUENCY" else 0.0
        ok = abs(ts_start - want) < 1e-9 and abs(w._phase_scheduled - want_ps) < 1e-9
        if clock == "SIMULATED":
            ok = ok and abs(w.q_ts_end_prev[-1] - (ts_start + c["delay"])) < 1e-9
        print(f"real push_phase_shift: scheduled={c['ts_sched']} drift={c['ps']} end_prev={c['ts_end_prev']} ts_max={tmax} -> ts_start={ts_start} (law: {want}), drift'={w._phase_scheduled} (law: {want_ps}) {'ok' if ok else 'VIOLATED'}")
        bad |= not ok
    return bad


def r_pure(spec, data):
    """pure functions: concrete inputs derived from the model, oracle written independently"""
    import numpy as np
    which = spec["which"]
    p = spec.get("probes", {})
    if which == "replace_eps":
        import jax.numpy as jnp
        from rex.base import GraphState, Timings, SlotVertex
        bad = False
        for E in (1, 3):
            run = jnp.zeros((E, 4), dtype=bool)
            t = Timings(slots={"s": SlotVertex(seq=jnp.zeros((E, 4), dtype=int), ts_start=jnp.zeros((E, 4)), ts_end=jnp.zeros((E, 4)), windows={}, run=run, kind="n", generation=0)})
            for v in (-2, 0, E - 1, E, E + 5):
                gs = GraphState().replace_eps(t, v)
                want = min(max(v, 0), E - 1)
                ok = int(gs.eps) == want and gs.timings_eps.slots["s"].run.shape == (4,)
                print(f"replace_eps(max_eps={E}, eps={v}) -> {int(gs.eps)} (clip: {want}) {'ok' if ok else 'VIOLATED'}")
                bad |= not ok
            for v in (-1, 0, 3, 4, 9):
                gs = GraphState().replace_step(t, v)
                bad |= int(gs.step) != min(max(v, 0), 3)
        return bad
    if which == "denormalize":
        import jax.numpy as jnp
        from rex.base import Denormalize
        bad = False
        for lo, hi in ((1.0, 3.0), (1e-7, 5e-7), (-2.0, 2.0), (0.0, 1e-9)):
            T = Denormalize.init({"a": jnp.array(lo), "b": None}, {"a": jnp.array(hi), "b": None})
            for x in (-1.0, -0.5, 0.0, 0.3, 1.0):
                y = T.apply({"a": jnp.array(x), "b": None})
                back = float(T.inv(y)["a"])
                ok = abs(back - x) < 1e-4 and (x != -1.0 or abs(float(y["a"]) - lo) <= 1e-6 * max(1, abs(lo))) and (x != 1.0 or abs(float(y["a"]) - hi) <= 1e-6 * max(1, abs(hi)))
                if not ok:
                    print(f"Denormalize[{lo},{hi}]: inv(apply({x})) = {back}, apply = {float(y['a'])} VIOLATED")
                bad |= not ok
        return bad
    if which == "exponential":
        import jax.numpy as jnp
        from rex.base import Exponential, Chain, Denormalize
        bad = False
        T = Exponential.init()
        for x in (-20.0, -12.0, -6.0, -1.0, 0.0, 2.5):
            back = float(T.inv(T.apply({"a": jnp.array(x), "b": None}))["a"])
            ok = abs(back - x) <= 1e-4 * max(1.0, abs(x))
            print(f"Exponential: inv(apply({x})) = {back} {'ok' if ok else 'VIOLATED'}")
            bad |= not ok
        C = Chain.init(Denormalize.init({"a": jnp.array(-20.0), "b": None}, {"a": jnp.array(-2.0), "b": None}), T)
        for x in (-1.0, -0.3, 0.4, 1.0):
            back = float(C.inv(C.apply({"a": jnp.array(x), "b": None}))["a"])
            ok = abs(back - x) <= 1e-3
            print(f"Chain(Denormalize[-20,-2], Exponential): inv(apply({x})) = {back} {'ok' if ok else 'VIOLATED'}")
            bad |= not ok
        return bad
    if which == "cem_update":
        import jax.numpy as jnp
        from rex.cem import CEMSolver, CEMState, cem_update_mean_stdev
        bad = False
        cases = [([3.0, float("nan"), 1.0, 2.0], float("inf")), ([float("nan"), 5.0, float("nan"), 4.0], float("inf")), ([2.0, 3.0, 4.0, 5.0], 1.0), ([float("nan")] * 4, 7.0), ([float("nan"), 0.5, 0.7, 0.9], 0.6)]
        for losses, old in cases:
            solver = CEMSolver(u_min={"p": jnp.array(-9.0)}, u_max={"p": jnp.array(9.0)}, evolution_smoothing=0.1, num_samples=4, elite_portion=0.5)
            state = CEMState(mean={"p": jnp.array(0.0)}, stdev={"p": jnp.array(1.0)}, bestsofar={"p": jnp.array(-5.0)}, bestsofar_loss=jnp.array(old))
            samples = {"p": jnp.array([10.0, 11.0, 12.0, 13.0])}
            new = cem_update_mean_stdev(solver, state, samples, jnp.array(losses))
            fin = [(l, s) for l, s in zip(losses, [10.0, 11.0, 12.0, 13.0]) if l == l]
            best = min(fin)[0] if fin else float("inf")
            want = min(old, best)
            got = float(new.bestsofar_loss)
            wantp = -5.0 if not (best < old) else min(fin)[1]
            ok = (got == want) and (abs(float(new.bestsofar["p"]) - wantp) < 1e-6 or not fin)
            print(f"cem_update losses={losses} old={old}: bestsofar_loss={got} (want {want}) best={float(new.bestsofar['p'])} (want {wantp}) {'ok' if ok else 'VIOLATED'}")
            bad |= not ok
        return bad
    if which == "trainable_dist":
        from rex.base import TrainableDist
        bad = False
        for (d, lo, hi) in ((0.03, 0.02, 0.04), (0.0, 0.0, 0.1), (0.1, 0.0, 0.1), (0.05, 0.01, 0.2)):
            D = TrainableDist.create(delay=d, min=lo, max=hi)
            s = float(D.sample()[1]); q = float(D.quantile(0.99)); m = float(D.mean())
            ok = abs(s - d) < 1e-6 and abs(q - d) < 1e-6 and abs(m - d) < 1e-6
            print(f"TrainableDist(delay={d}, [{lo},{hi}]): sample={s} quantile={q} mean={m} {'ok' if ok else 'VIOLATED'}")
            bad |= not ok
            for dd in (lo - 1.0, hi + 1.0):
                a = float(D.get_alpha(dd)); eff = lo + a * (hi - lo)
                bad |= abs(eff - min(max(dd, lo), hi)) > 1e-6
        return bad
    if which == "init_inputs":
        # real nodes wired as in the config (input name, connected node's name, trainable?, window); init_delays returns an entry for the listed keys
        import distrax
        from rex.base import TrainableDist, StaticDist
        from rex.node import BaseNode
        cfg = spec["cfg"]
        vals = {k: 0.031 + 0.017 * i for i, k in enumerate(cfg["delays"])}

        class Me(BaseNode):
            def init_delays(self, rng=None, graph_state=None):
                return dict(vals)
        me = Me("me", rate=10.0)
        for (iname, oname, trainable, window) in cfg["inputs"]:
            o = BaseNode.__new__(Me); BaseNode.__init__(o, oname, rate=20.0)
            dd = TrainableDist.create(delay=0.005, min=0.0, max=0.1) if trainable else StaticDist.create(distrax.Deterministic(loc=0.005))
            me.connect(o, name=iname, window=window, blocking=False, delay_dist=dd)
        got = me.init_inputs()
        bad = False
        for (iname, oname, trainable, window) in cfg["inputs"]:
            dd = got[iname].delay_dist
            if trainable:
                want = vals.get(iname, 0.005)
                eff = float(dd.min + dd.alpha * (dd.max - dd.min))
                ok = abs(eff - want) < 1e-6
                print(f"input {iname!r} (from node {oname!r}): init_delays = {vals}; effective delay after init_inputs = {eff}, want {want} {'ok' if ok else 'VIOLATED'}")
                bad |= not ok
            ok = list(int(v) for v in got[iname].seq) == list(range(-window, 0))
            bad |= not ok
        return bad
    if which == "cycle_repaired":
        # real nodes in an un-skipped cycle: the loop is reported; after one connection is skipped the phases must be computed again
        from rex.node import BaseNode
        L = int(spec.get("L", 3))
        ns = [BaseNode(f"n{i}", rate=10.0, delay=0.01 * (i + 1)) for i in range(L)]
        for i in range(L):
            ns[(i + 1) % L].connect(ns[i], name=f"from_n{i}", delay=0.001 * (i + 1), blocking=False)
        reported = 0
        for q in range(2 if spec.get("twice") else 1):
            try:
                ns[q].phase
            except RecursionError:
                reported += 1
        print(f"cycle of {L}: reported {reported} time(s)")
        ns[0].inputs[f"from_n{L - 1}"].skip = True
        try:
            ph = [float(n.phase) for n in ns]
        except RecursionError as e:
            print("after skipping n%d -> n0 the phase query STILL raises:" % (L - 1), str(e).splitlines()[0])
            return True
        want, acc = [0.0], 0.0
        for i in range(1, L):
            acc += 0.01 * i + 0.001 * i
            want.append(acc)
        ok = all(abs(a - b) < 1e-9 for a, b in zip(ph, want))
        print("phases after the repair:", ph, "expected", want, "ok" if ok else "VIOLATED")
        return not ok
    if which == "denormalize_bounds":
        # -1 -> min and +1 -> max for float, python-int and integer-array bounds
        import jax.numpy as jnp
        from rex.base import Denormalize
        bad = False
        for lo, hi in ((0.0, 5.0), (0, 5), (jnp.array(1), jnp.array(4)), (-2, 1)):
            try:
                T = Denormalize.init({"p": lo}, {"p": hi})
            except Exception as e:
                print(f"bounds [{lo}, {hi}]: init raised {type(e).__name__}: {e}")
                bad = True
                continue
            a, b = float(T.apply({"p": -1.0})["p"]), float(T.apply({"p": 1.0})["p"])
            ok = abs(a - float(lo)) < 1e-6 and abs(b - float(hi)) < 1e-6
            print(f"bounds [{lo}, {hi}]: apply(-1) = {a}, apply(+1) = {b} {'ok' if ok else 'VIOLATED'}")
            bad |= not ok
        return bad
    if which == "reward_norm":
        import jax.numpy as jnp
        from rex.rl import NormalizeVecReward, NormalizeVec
        from rex.base import GraphState

        class Inner:
            def __init__(self, term, trunc):
                self.term, self.trunc = term, trunc

            def step(self, gs, a):
                return gs, jnp.zeros((2, 1)), jnp.array([1.0, 2.0]), jnp.array(self.term), jnp.array(self.trunc), {}
        bad = False
        for term, trunc in (([False, False], [False, False]), ([True, False], [False, False]), ([False, False], [True, False]), ([True, True], [True, False])):
            w = NormalizeVecReward(Inner(term, trunc), gamma=0.9)
            ns = NormalizeVec(mean=0.0, var=1.0, count=1e-4, return_val=jnp.array([10.0, 20.0]), clip=10.0)
            gs = GraphState().replace_aux({"norm_reward": ns})
            out = w.step(gs, None)
            rv = out[0].aux["norm_reward"].return_val
            want = [10.0 * 0.9 * (0.0 if (term[0] or trunc[0]) else 1.0) + 1.0, 20.0 * 0.9 * (0.0 if (term[1] or trunc[1]) else 1.0) + 2.0]
            ok = abs(float(rv[0]) - want[0]) < 1e-5 and abs(float(rv[1]) - want[1]) < 1e-5
            print(f"NormalizeVecReward terminated={term} truncated={trunc}: return_val={[float(x) for x in rv]} (want {want}) {'ok' if ok else 'VIOLATED'}")
            bad |= not ok
        return bad
    print("no oracle for", which)
    return False


def r_bounded_case(spec, data):
    """replays a counter-model as a case of one of the bounded scripts (bounded/<script>: run_case(case) -> (list of wrong things, n))"""
    import importlib.util
    path = os.path.join(os.path.dirname(os.path.dirname(os.path.abspath(__file__))), "bounded", spec["script"])
    sp = importlib.util.spec_from_file_location("bounded_script", path)
    m = importlib.util.module_from_spec(sp)
    sp.loader.exec_module(m)
    print("case:", json.dumps(spec["case"]))
    bad, _ = m.run_case(spec["case"])
    for b in bad[:6]:
        print(b)
    return bool(bad)


RECIPES = {"bounded_case": r_bounded_case, "push_phase_shift": r_push_phase_shift, "pure": r_pure, "policy_vs_actor": r_policy_vs_actor, "push_ts_input": r_push_ts_input, "set_delay": r_set_delay, "push_expected_nonblocking": r_push_expected_nonblocking}


def main():
    data = json.load(open(sys.argv[1]))
    if data.get("replay_cmd") and "case" in data and not data.get("replay_spec"):
        # a case of one of the bounded scripts (bounded/<script> --replay <file>): run it in this interpreter
        import re, runpy
        m = re.search(r"bounded/(\S+\.py)", data["replay_cmd"])
        if m:
            script = os.path.join(os.path.dirname(os.path.dirname(os.path.abspath(__file__))), "bounded", m.group(1))
            sys.argv = [script, "--replay", os.path.abspath(sys.argv[1])]
            runpy.run_path(script, run_name="__main__")
            return
    spec = data.get("replay_spec")
    if not spec or spec.get("kind") not in RECIPES:
        print("no native recipe for this obligation")
        sys.exit(2)
    try:
        bad = RECIPES[spec["kind"]](spec, data)
    except Exception as e:
        import traceback
        traceback.print_exc()
        print("replay error:", type(e).__name__, e)
        sys.exit(2)
    print("REPRODUCED on the real code" if bad else "not reproduced")
    sys.exit(1 if bad else 0)


if __name__ == "__main__":
    main()
