#!/bin/sh
# runs every claimed check (quick tier) and summarises; used before committing evidence
cd "$(dirname "$0")/.."
for p in $(python3 -c "import json; print(' '.join(c['property_id'] for c in json.load(open('MANIFEST.json'))['checks']))"); do
  s=$(date +%s); out=$(timeout 2400 ./check $p 2>&1); code=$?; e=$(date +%s)
  echo "$p exit=$code $((e-s))s :: $(echo "$out" | grep "^\[$p\]" | tail -1)"
  echo "$out" | grep -E "^(VIOLATION|UNDECIDED|ERROR)" | head -3
done
