#!/usr/bin/env python3-vt
"""CPython cross-check of the VC generator itself (engine soundness guard, not a property check).

Every function of selftest/snippets.py is executed (a) symbolically by the PyVC executor - all paths, symbolic Int/Real/Bool arguments - and
(b) natively by CPython on random concrete arguments. For each sample exactly one symbolic path must be satisfiable together with the concrete
arguments, and the path's result term, evaluated in that model, must equal CPython's result (exceptions included).
usage: tools/engine_selftest.py [--n SAMPLES] [--seed S] [--json OUT]      exit 0 all agree / 1 disagreement / 3 crash"""
import sys, os, ast, json, random, argparse, importlib.util, inspect, time, traceback
from fractions import Fraction
HERE = os.path.dirname(os.path.abspath(__file__))
ROOT = os.path.dirname(HERE)
sys.path.insert(0, ROOT)
import z3
from pyvc import source
source.REPO = ROOT            # the corpus lives in /verif/selftest, not in the repository
from pyvc.source import Repo
from pyvc.models import Library
from pyvc.driver import Unit, run_unit
from pyvc.interp import RaiseEx
from pyvc.values import *
from pyvc import smt

REL = "selftest/snippets.py"


def load_native():
    spec = importlib.util.spec_from_file_location("snippets_native", os.path.join(ROOT, REL))
    m = importlib.util.module_from_spec(spec)
    spec.loader.exec_module(m)
    return m


class Snip(Unit):
    props = ("engine",)

    def __init__(self, fname, params):
        self.name, self.target, self.params = fname, f"{REL}::{fname}", params
        self.paths = []

    def run(self, ctx):
        args = []
        for p, ann in self.params:
            args.append({"int": z3.Int, "float": z3.Real, "bool": z3.Bool}[ann](p))
        try:
            r = ctx.call(args=args)
            out = ("ok", r)
        except RaiseEx as e:
            out = ("raise", e.exc)
        # code asserts and safety conditions (division by non-zero, index in range, ...) are proof obligations of the engine, not control flow:
        # a sample that falsifies one of them is "the engine reports that this call may raise"
        obl = [(o.name, list(o.hyps), o.goal) for o in ctx.ex.obligations]
        self.paths.append((list(ctx.ex.pc), out, obl))


def syms(v):
    if isinstance(v, (tuple, list)):
        return [t for x in v for t in syms(x)]
    if isinstance(v, dict):
        return [t for x in v.values() for t in syms(x)]
    return [v] if is_sym(v) else []


def lib_axioms(fs):
    """library axioms for the ground applications that occur; round(x, 6) is pinned exactly (the proof-side axioms only bound it by 5e-7)"""
    out = list(smt.ground_library(fs))
    for e in smt._collect(fs, lambda e: e.decl().kind() == z3.Z3_OP_UNINTERPRETED and e.decl().name() == "R6"):
        t = e.arg(0)
        out.append(R6(t) == z3.ToReal(z3.ToInt(t * 1000000 + z3.RealVal("1/2"))) / 1000000)
    return out


def flatten(v, model=None):
    """symbolic or native value -> comparable python structure (Fractions for numbers)"""
    if isinstance(v, (tuple, list)):
        return [flatten(x, model) for x in v]
    if isinstance(v, dict):
        return {str(k): flatten(x, model) for k, x in v.items()}
    if v is None or isinstance(v, str):
        return v
    if isinstance(v, bool):
        return v
    if isinstance(v, int):
        return Fraction(v)
    if isinstance(v, float):
        return Fraction(v)
    if isinstance(v, Fraction):
        return v
    if is_sym(v):
        e = model.eval(v, model_completion=True)
        if z3.is_true(e):
            return True
        if z3.is_false(e):
            return False
        if z3.is_int_value(e):
            return Fraction(e.as_long())
        if z3.is_rational_value(e):
            return Fraction(e.numerator_as_long(), e.denominator_as_long())
        if z3.is_algebraic_value(e):
            return Fraction(e.approx(20).as_fraction())
        raise ValueError(f"cannot evaluate {v} -> {e}")
    if hasattr(v, "items_list"):
        return flatten(v.items_list(), model)
    raise ValueError(f"unsupported result value {type(v).__name__}")


def same(a, b, tol):
    if isinstance(a, bool) or isinstance(b, bool):
        # python: True == 1; the engine may return a Bool where python returns a bool and vice versa
        return (isinstance(a, bool) and isinstance(b, bool) and a == b) or (not (isinstance(a, bool) and isinstance(b, bool)) and Fraction(int(a) if isinstance(a, bool) else a) == Fraction(int(b) if isinstance(b, bool) else b))
    if isinstance(a, Fraction) and isinstance(b, Fraction):
        return abs(a - b) <= tol * max(1, abs(a), abs(b))
    if isinstance(a, list) and isinstance(b, list):
        return len(a) == len(b) and all(same(x, y, tol) for x, y in zip(a, b))
    if isinstance(a, dict) and isinstance(b, dict):
        return set(a) == set(b) and all(same(a[k], b[k], tol) for k in a)
    return a == b


def sample(ann, rng):
    if ann == "int":
        return rng.choice([-7, -3, -2, -1, 0, 1, 2, 3, 4, 5, 6, 9, 12, rng.randint(-40, 40)])
    if ann == "bool":
        return rng.random() < 0.5
    return rng.choice([Fraction(k, 8) for k in range(-40, 41)] + [Fraction(rng.randint(-4000, 4000), 1000)])


def main():
    ap = argparse.ArgumentParser()
    ap.add_argument("--n", type=int, default=25)
    ap.add_argument("--seed", type=int, default=0)
    ap.add_argument("--json")
    ap.add_argument("--only")
    a = ap.parse_args()
    rng = random.Random(1234 + a.seed)
    native = load_native()
    tree = ast.parse(open(os.path.join(ROOT, REL)).read())
    repo, lib = Repo(), Library()
    res = dict(functions=0, samples=0, agree=0, disagree=[], unsupported=[], paths=0, wall_s=0)
    t0 = time.time()
    for fn in [n for n in tree.body if isinstance(n, ast.FunctionDef)]:
        if a.only and fn.name != a.only:
            continue
        params = [(p.arg, p.annotation.id) for p in fn.args.args]
        u = Snip(fn.name, params)
        r = run_unit(u, repo, lib)
        if r.undecided or r.errors:
            res["unsupported"].append(dict(function=fn.name, why=(r.undecided + r.errors)[0][:300]))
            continue
        res["functions"] += 1
        res["paths"] += len(u.paths)
        uses_round = "round" in ast.dump(fn)
        tol = Fraction(1, 10**6) if uses_round else Fraction(1, 10**9)
        f_native = getattr(native, fn.name)
        for _ in range(a.n):
            vals = [sample(ann, rng) for _, ann in params]
            try:
                want = ("ok", f_native(*[float(v) if isinstance(v, Fraction) else v for v in vals]))
            except Exception as e:
                want = ("raise", type(e).__name__)
            bind = [({"int": z3.Int, "float": z3.Real, "bool": z3.Bool}[ann](p) == (z3.RealVal(str(v)) if isinstance(v, Fraction) else v)) for (p, ann), v in zip(params, vals)]
            hits = []
            flagged = None
            for pc, out, obl in u.paths:
                for (oname, hyps, goal) in obl:      # does the engine flag this call?
                    s = z3.Solver()
                    s.set("timeout", 5000)
                    fs = list(hyps) + bind + [z3.Not(goal)]
                    s.add(*fs)
                    s.add(*lib_axioms(fs))
                    if s.check() == z3.sat:
                        flagged = oname
                s = z3.Solver()
                s.set("timeout", 5000)
                fs = list(pc) + bind
                s.add(*fs)
                s.add(*lib_axioms(fs + (syms(out[1]) if out[0] == "ok" else [])))
                c = s.check()
                if c == z3.sat:
                    hits.append((out, s.model()))
                elif c == z3.unknown:
                    hits.append((("unknown", None), None))
            if flagged is not None:
                res["samples"] += 1
                if want[0] == "raise":
                    res["agree"] += 1
                    res["flagged"] = res.get("flagged", 0) + 1
                else:
                    res["disagree"].append(dict(function=fn.name, args=[str(v) for v in vals], cpython=repr(want)[:200], problem=f"engine obligation {flagged} fails but CPython returns normally"))
                continue
            res["samples"] += 1
            rec = dict(function=fn.name, args=[str(v) for v in vals], cpython=repr(want)[:200])
            if len(hits) != 1 or hits[0][0][0] == "unknown":
                rec["problem"] = f"{len(hits)} symbolic paths are satisfiable with these arguments (want exactly 1)"
                res["disagree"].append(rec)
                continue
            out, model = hits[0]
            try:
                got = (out[0], flatten(out[1], model) if out[0] == "ok" else out[1])
                exp = (want[0], flatten(want[1]) if want[0] == "ok" else want[1])
            except ValueError as e:
                rec["problem"] = str(e)
                res["disagree"].append(rec)
                continue
            if got[0] == exp[0] and (same(got[1], exp[1], tol) if got[0] == "ok" else got[1] == exp[1]):
                res["agree"] += 1
            else:
                rec["problem"] = f"engine: {got!r}"[:300]
                res["disagree"].append(rec)
    res["wall_s"] = round(time.time() - t0, 1)
    if a.json:
        json.dump(res, open(a.json, "w"), indent=1, default=str)
    print(f"engine self-test: {res['functions']} functions, {res['paths']} symbolic paths, {res['samples']} samples, {res['agree']} agree, {len(res['disagree'])} disagree, {len(res['unsupported'])} unsupported, {res['wall_s']}s")
    for d in res["unsupported"]:
        print("  UNSUPPORTED", d["function"], "::", d["why"][:160])
    seen = set()
    for d in res["disagree"]:
        if d["function"] in seen:
            continue
        seen.add(d["function"])
        print("  DISAGREE", d["function"], d["args"], "cpython", d["cpython"], "::", d["problem"][:200])
    return 1 if res["disagree"] else 0


if __name__ == "__main__":
    try:
        sys.exit(main())
    except Exception:
        traceback.print_exc()
        sys.exit(3)
