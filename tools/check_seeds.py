#!/usr/bin/env python3
"""Regression over the kept seeded changes: each /verif/seeded/<name>/patch.diff is applied to a scratch copy of /repo/rex (outside /repo and /verif),
the property's check is run against it (REX_REPO), and a VIOLATION is expected.  The scratch copy is removed afterwards.
usage: tools/check_seeds.py [-j 4] [name-substring]"""
import concurrent.futures as cf, json, os, shutil, subprocess, sys, tempfile
VERIF = os.path.dirname(os.path.dirname(os.path.abspath(__file__)))


def one(name):
    d = tempfile.mkdtemp(prefix="rexseed_")
    try:
        shutil.copytree("/repo/rex", os.path.join(d, "rex"))
        shutil.copytree("/repo/tests", os.path.join(d, "tests"))
        p = subprocess.run(["patch", "-p1", "-s", "-i", os.path.join(VERIF, "seeded", name, "patch.diff")], cwd=d, capture_output=True, text=True)
        if p.returncode != 0:
            return name, "PATCH-FAILED", p.stdout[-200:]
        pid = name.split("-")[0]
        env = dict(os.environ, REX_REPO=d, VERIF_EVIDENCE_DIR=os.path.join(d, "ev"), VERIF_REPLAY_DIR=os.path.join(d, "rp"))
        try:
            r = subprocess.run([os.path.join(VERIF, "check"), pid], capture_output=True, text=True, env=env, timeout=6000)
        except subprocess.TimeoutExpired:
            return name, "TIMEOUT", "check did not finish within 6000 s (machine overloaded?)"
        viol = [l for l in r.stdout.splitlines() if l.startswith("VIOLATION")]
        noinput = sum(1 for l in viol if l.endswith("no-failing-input-found"))
        status = "DETECTED" if r.returncode == 1 and viol else f"MISSED(exit={r.returncode})"
        return name, status, f"{len(viol)} violation lines, {len(viol) - noinput} with a replayed input; first: {viol[0][:160] if viol else r.stdout.strip().splitlines()[-1][:160] if r.stdout.strip() else ''}"
    finally:
        shutil.rmtree(d, ignore_errors=True)


def main():
    args = [a for a in sys.argv[1:]]
    j = 4
    if "-j" in args:
        j = int(args[args.index("-j") + 1]); del args[args.index("-j"):args.index("-j") + 2]
    names = sorted(n for n in os.listdir(os.path.join(VERIF, "seeded")) if os.path.exists(os.path.join(VERIF, "seeded", n, "patch.diff")) and (not args or args[0] in n))
    ok = True
    with cf.ThreadPoolExecutor(j) as ex:
        for name, status, info in ex.map(one, names):
            print(f"{name:45s} {status:16s} {info}", flush=True)
            ok &= status == "DETECTED"
    sys.exit(0 if ok else 1)


if __name__ == "__main__":
    main()
