#!/bin/sh
# tools/try_seed.sh <worktree-or-copy-with-the-change> <property id>...   : run checks against a changed tree without touching /verif/evidence
d=$1; shift
for p in "$@"; do
  REX_REPO=$d VERIF_EVIDENCE_DIR=/tmp/seed_ev VERIF_REPLAY_DIR=/tmp/seed_rp timeout 3000 "$(dirname "$0")/../check" $p 2>&1 | grep -v "^KNOWN-FINDING" | cut -c1-260 | tail -6
done
