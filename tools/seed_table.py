#!/usr/bin/env python3
"""Prints a markdown table of the seeded changes kept under /verif/seeded (from their meta.json): seed, site, what caught it."""
import json, os, re, sys
V = os.path.dirname(os.path.dirname(os.path.abspath(__file__)))
rows = []
for name in sorted(os.listdir(os.path.join(V, "seeded"))):
    p = os.path.join(V, "seeded", name, "meta.json")
    if not os.path.exists(p):
        rows.append((name, "(meta.json missing)", ""))
        continue
    m = json.load(open(p))
    res = m.get("check_result", "")
    obs = re.findall(r"obligation=([^\n]*)", res)
    caught = "; ".join(sorted({re.sub(r"\s+no-failing-input-found$", "", o)[:90] for o in obs})[:2]) or "MISSED"
    summ = (m.get("summary") or "").replace("\n", " ").replace("|", "/")
    rows.append((name, ", ".join(m.get("files_changed") or []), summ[:150] + ("..." if len(summ) > 150 else ""), caught.replace("|", "/")))
print("| seed | files | change (sub-agent's summary, truncated) | first violated obligations |")
print("|---|---|---|---|")
for r in rows:
    print("| " + " | ".join(r) + " |")

if "--design" in sys.argv:
    p = os.path.join(V, "DESIGN.md")
    s = open(p).read()
    a, b = s.index("<!-- SEED-TABLE-BEGIN -->"), s.index("<!-- SEED-TABLE-END -->")
    tbl = ["| seed | files | change (sub-agent's summary, truncated) | first violated obligations |", "|---|---|---|---|"] + ["| " + " | ".join(r) + " |" for r in rows]
    open(p, "w").write(s[:a] + "<!-- SEED-TABLE-BEGIN -->\n" + "\n".join(tbl) + "\n" + s[b:])
