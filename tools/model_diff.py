#!/usr/bin/env python3-vt
"""Library-model differential: the assumed contracts of pyvc/libmodels.py are evaluated on random concrete inputs and compared with the real
numpy / jax functions (reference computed by bounded/lib_reference.py under /venv/bin/python).  Spot check of the trusted base, not a proof.
usage: tools/model_diff.py [--n 300] [--seed 0]   exit 0 = all agree."""
import argparse, json, os, random, subprocess, sys, tempfile
VERIF = os.path.dirname(os.path.dirname(os.path.abspath(__file__)))
sys.path.insert(0, VERIF)
import z3
from pyvc.values import *
from pyvc.models import Library, AtIdx
from pyvc.interp import Exec
from pyvc.source import Repo
from pyvc import smt


def conc(t):
    """evaluate a closed term (possibly over axiomatised fresh symbols: solve for them)"""
    t = z3.simplify(toz(t))
    if z3.is_int_value(t):
        return t.as_long()
    if z3.is_rational_value(t):
        return float(t.as_fraction())
    if z3.is_true(t) or z3.is_false(t):
        return z3.is_true(t)
    return None


def solve_for(ex, terms):
    s = z3.Solver()
    s.set(timeout=4000)
    # the inputs are concrete: quantified model axioms are instantiated over the (small) concrete index range
    hyps = []
    for h in ex.pc:
        hyps += smt._flatten_and(h)
    for h in hyps:
        if z3.is_quantifier(h) and h.is_forall() and h.num_vars() == 1 and h.var_sort(0) == z3.IntSort():
            for i in range(-1, 8):
                s.add(z3.substitute_vars(h.body(), z3.IntVal(i)))
        else:
            s.add(h)
    s.add(smt.ground_library(list(s.assertions()) + [toz(t) for t in terms]))
    if s.check() != z3.sat:
        return None
    m = s.model()
    out = []
    for t in terms:
        v = m.eval(toz(t), model_completion=True)
        out.append(v.as_long() if z3.is_int_value(v) else float(v.as_fraction()) if z3.is_rational_value(v) else None)
    return out


def arr(lib, ex, xs):
    return lib.ns["numpy"].entries["array"](ex, list(xs))


def model_result(lib, op, a):
    ex = Exec(Repo(), lib)
    jnp, lax = lib.ns["jax.numpy"].entries, lib.ns["jax.lax"].entries
    el = lambda A, n: [z3.Select(A.a, i) for i in range(n)]
    if op == "clip":
        return solve_for(ex, [jnp["clip"](ex, toz(a["x"]), a["lo"], a["hi"])])[0]
    if op == "where":
        r = jnp["where"](ex, arr(lib, ex, [bool(c) for c in a["c"]]) if False else Arr(z3.Lambda([z3.Int("j")], z3.Or([z3.And(z3.Int("j") == i, z3.BoolVal(bool(c))) for i, c in enumerate(a["c"])])), len(a["c"])), arr(lib, ex, a["x"]), arr(lib, ex, a["y"]))
        return solve_for(ex, el(r, len(a["x"])))
    if op == "roll":
        return solve_for(ex, el(jnp["roll"](ex, arr(lib, ex, a["x"]), -1, axis=0), len(a["x"])))
    if op == "take":
        X = arr(lib, ex, a["x"])
        return solve_for(ex, [jnp["take"](ex, X, i) for i in a["idx"]])
    if op == "take_arr":
        r = jnp["take"](ex, arr(lib, ex, a["x"]), arr(lib, ex, a["idx"]))
        return solve_for(ex, el(r, len(a["idx"])))
    if op == "dynamic_slice":
        r = lax["dynamic_slice"](ex, arr(lib, ex, a["x"]), [a["start"]], [a["size"]])
        return solve_for(ex, el(r, a["size"]))
    if op == "argwhere":
        X = arr(lib, ex, a["x"])
        c = lib.compare(ex, __import__("ast").Gt(), X, a["t"], None)
        return solve_for(ex, [jnp["argwhere"](ex, c, size=1, fill_value=a["fill"]).pyvc_getitem(ex, (0, 0))])[0]
    if op == "searchsorted":
        return solve_for(ex, [jnp["searchsorted"](ex, arr(lib, ex, sorted(a["x"])), a["v"], side=a["side"])])[0]
    if op == "flip":
        return solve_for(ex, el(jnp["flip"](ex, arr(lib, ex, a["x"])), len(a["x"])))
    if op == "at_set":
        r = lib.at_set(ex, AtIdx(arr(lib, ex, a["x"]), a["i"]), a["v"], "set", None)
        return solve_for(ex, el(r, len(a["x"])))
    if op == "pymod":
        import ast
        return solve_for(ex, [lib.binop(ex, ast.Mod(), toz(a["a"]), toz(a["b"]), None), lib.binop(ex, ast.FloorDiv(), toz(a["a"]), toz(a["b"]), None)])
    if op == "floordiv_real":
        import ast
        return solve_for(ex, [lib.binop(ex, ast.FloorDiv(), toz(a["a"]), toz(a["b"]), None)])[0]
    if op == "round6":
        return ("r6", a["x"])
    if op == "interp":
        r = jnp["interp"](ex, arr(lib, ex, a["x"]), arr(lib, ex, sorted(a["xp"])), arr(lib, ex, a["fp"]))
        return solve_for(ex, el(r, len(a["x"])))
    if op == "max_min":
        return solve_for(ex, [lib.builtins["max"](ex, [toz(v) for v in a["x"]]), lib.builtins["min"](ex, [toz(v) for v in a["x"]])])
    if op == "int_trunc":
        return solve_for(ex, [lib.builtins["int"](ex, toz(a["x"]))])[0]
    if op == "ceil":
        return solve_for(ex, [jnp["ceil"](ex, toz(a["x"]))])[0]
    if op == "pad":
        return "skip"
    if op == "arange3":
        A = jnp["arange"](ex, a["lo"], a["hi"], a["step"])
        n = solve_for(ex, [A.n])[0]
        return [n] + solve_for(ex, el(A, n)) if n else [0]
    if op == "stack":
        A = jnp["stack"](ex, [toz(v) for v in a["x"]], axis=0)
        return [solve_for(ex, [A.n])[0]] + solve_for(ex, el(A, len(a["x"])))
    if op in ("argmin_nan", "argsort", "nanmax"):
        return ("axioms", op)           # axiomatic models (contracts/c18.py): the real result must satisfy the assumed axioms
    if op == "tree_leaves":
        import json as _j
        return [int(v) for v in lib.ns["jax.tree_util"].entries["tree_leaves"](ex, _j.loads(a["tree"]))]
    if op == "tree_map_none":
        import json as _j
        r = lib.ns["jax.tree_util"].entries["tree_map"](ex, (lambda ex_, v: v + 100), _j.loads(a["tree"]))
        return ("json", _j.dumps(r, sort_keys=True))
    raise ValueError(op)


def gen(rng):
    n = rng.randint(1, 5)
    f = lambda: round(rng.uniform(-3, 3), 3)
    ints = lambda k, lo=-4, hi=9: [rng.randint(lo, hi) for _ in range(k)]
    op = rng.choice(["clip", "where", "roll", "take", "take_arr", "dynamic_slice", "argwhere", "searchsorted", "flip", "at_set", "pymod", "floordiv_real", "round6", "interp", "max_min", "int_trunc", "ceil", "argmin_nan", "argsort", "nanmax", "tree_leaves", "tree_map_none", "arange3", "stack"])
    if op == "arange3":
        return op, dict(lo=rng.randint(-5, 6), hi=rng.randint(-5, 6), step=rng.choice([-3, -2, -1, -1, 1, 2, 3]))
    if op == "stack":
        return op, dict(x=[f() for _ in range(n)])
    if op == "clip":
        lo = f()
        return op, dict(x=f(), lo=lo, hi=lo + abs(f()))
    if op == "where":
        return op, dict(c=[rng.random() < 0.5 for _ in range(n)], x=[f() for _ in range(n)], y=[f() for _ in range(n)])
    if op in ("roll", "flip"):
        return op, dict(x=[f() for _ in range(n)])
    if op == "take":
        return op, dict(x=ints(n), idx=[rng.randint(-n, n - 1) for _ in range(3)])
    if op == "take_arr":
        return op, dict(x=ints(n), idx=[rng.randint(-n, n - 1) for _ in range(3)])
    if op == "dynamic_slice":
        size = rng.randint(1, n)
        return op, dict(x=[f() for _ in range(n)], start=rng.randint(-3, n + 2), size=size)
    if op == "argwhere":
        return op, dict(x=[f() for _ in range(n)], t=f(), fill=n)
    if op == "searchsorted":
        xs = [rng.choice([0.0, 0.5, 1.0, 1.5, 2.0]) for _ in range(n)]
        return op, dict(x=xs, v=rng.choice([0.0, 0.5, 0.75, 1.0, 2.0, 3.0]), side=rng.choice(["left", "right"]))
    if op == "at_set":
        return op, dict(x=[f() for _ in range(n)], i=rng.randint(-n, n - 1), v=f())
    if op == "pymod":
        return op, dict(a=rng.randint(-20, 20), b=rng.choice([-7, -3, -1, 1, 2, 3, 5, 8]))
    if op == "floordiv_real":
        return op, dict(a=f(), b=rng.choice([0.25, 0.5, 0.3, 1.5]))
    if op == "round6":
        return op, dict(x=rng.uniform(-5, 5))
    if op == "interp":
        xp = sorted(set(round(rng.uniform(0, 4), 2) for _ in range(rng.randint(2, 5))))
        if len(xp) < 2:
            xp = [0.0, 1.0]
        return op, dict(x=[round(rng.uniform(-1, 5), 2) for _ in range(3)], xp=xp, fp=[f() for _ in xp])
    if op == "max_min":
        return op, dict(x=[f() for _ in range(n)])
    if op == "int_trunc":
        return op, dict(x=f())
    if op == "ceil":
        return op, dict(x=f())
    if op in ("argmin_nan", "argsort", "nanmax"):
        xs = [rng.choice([0.5, 1.0, 1.0, 2.5, -1.0, 3.0]) for _ in range(rng.randint(1, 6))]
        if op != "argsort":
            xs = [float("nan") if rng.random() < 0.3 else v for v in xs]
            if op == "nanmax" and all(v != v for v in xs):
                xs[0] = 1.0
        return op, dict(x=xs)
    if op in ("tree_leaves", "tree_map_none"):
        import json as _j
        k = iter(range(100))
        def mk(d):
            if d == 0 or rng.random() < 0.3:
                return None if (op == "tree_map_none" and rng.random() < 0.3) else next(k)
            if rng.random() < 0.5:
                return {rng.choice(["b", "a", "z", "m", "Dense_10", "Dense_2"]) + str(i): mk(d - 1) for i in range(rng.randint(1, 3))}
            return [mk(d - 1) for _ in range(rng.randint(1, 3))]
        return op, dict(tree=_j.dumps({"root": mk(3), "alpha": mk(2)}))


def close(a, b):
    if isinstance(a, list):
        return isinstance(b, list) and len(a) == len(b) and all(close(x, y) for x, y in zip(a, b))
    if a is None or b is None:
        return False
    return abs(float(a) - float(b)) <= 1e-5 * max(1.0, abs(float(b)))


def main():
    ap = argparse.ArgumentParser()
    ap.add_argument("--n", type=int, default=300)
    ap.add_argument("--seed", type=int, default=0)
    ap.add_argument("--out")
    a = ap.parse_args()
    rng = random.Random(a.seed)
    cases = [dict(zip(("op", "args"), gen(rng))) for _ in range(a.n)]
    fi, fo = tempfile.mktemp(suffix=".json"), tempfile.mktemp(suffix=".json")
    json.dump(cases, open(fi, "w"))
    env = dict(os.environ, JAX_PLATFORMS="cpu", PYTHONWARNINGS="ignore")
    subprocess.run(["/venv/bin/python", "-W", "ignore", os.path.join(VERIF, "bounded", "lib_reference.py"), fi, fo], check=True, env=env, capture_output=True)
    ref = json.load(open(fo))
    os.unlink(fi); os.unlink(fo)
    lib = Library()
    bad, per_op = [], {}
    for c, r in zip(cases, ref):
        per_op.setdefault(c["op"], [0, 0])
        if isinstance(r, dict):
            continue
        try:
            m = model_result(lib, c["op"], c["args"])
        except Exception as e:
            bad.append((c, r, f"model raised {type(e).__name__}: {e}"))
            per_op[c["op"]][1] += 1
            continue
        if m == "skip":
            continue
        per_op[c["op"]][0] += 1
        if isinstance(m, tuple) and m[0] == "axioms":
            x = c["args"]["x"]
            nan = [v != v for v in x]
            if m[1] == "argmin_nan":       # assumed: with a NaN present the FIRST NaN index, otherwise the first index of a minimal entry
                ok = (r == nan.index(True)) if any(nan) else (x[r] == min(x) and r == x.index(min(x)))
            elif m[1] == "argsort":        # assumed: a permutation that sorts ascending
                ok = sorted(r) == list(range(len(x))) and all(x[r[i]] <= x[r[i + 1]] for i in range(len(x) - 1))
            else:                          # assumed: extreme over the non-NaN entries, attained by one of them
                fin = [v for v in x if v == v]
                ok = abs(r[0] - max(fin)) < 1e-6 and abs(r[1] - min(fin)) < 1e-6
        elif isinstance(m, tuple) and m[0] == "json":
            ok = m[1] == r
        elif c["op"] == "tree_leaves":
            ok = m == r
        elif isinstance(m, tuple) and m[0] == "r6":
            ok = abs(r - m[1]) <= 5e-7 + 1e-12     # the axiom: |R6(x) - x| <= 5e-7
        elif c["op"] == "take" or c["op"] == "take_arr":
            n = len(c["args"]["x"])
            ok = all((not (-n <= i < n)) or close(mm, rr) for i, mm, rr in zip(c["args"]["idx"], m, r))   # out-of-range: unspecified fill
        else:
            ok = close(m, r)
        if not ok:
            bad.append((c, r, m))
            per_op[c["op"]][1] += 1
    res = dict(cases=len(cases), per_op={k: dict(checked=v[0], disagree=v[1]) for k, v in per_op.items()}, disagreements=[dict(case=b[0], real=b[1], model=b[2]) for b in bad[:10]])
    print(json.dumps(res, indent=1, default=str)[:3000])
    if a.out:
        json.dump(res, open(a.out, "w"), indent=1, default=str)
    sys.exit(1 if bad else 0)


if __name__ == "__main__":
    main()
