#!/usr/bin/env python3
"""Mutant sanity run: applies each committed mutant (a one-line replacement of real source text) to a scratch copy of
/repo/rex outside /repo and /verif, runs the named check against it (REX_REPO=<copy>) and reports whether the expected
property raises a VIOLATION.  The scratch copy is removed afterwards.
usage: tools/mutate.py [--only ID] [--props C04,C03]"""
import json, os, shutil, subprocess, sys, tempfile, argparse

VERIF = os.path.dirname(os.path.dirname(os.path.abspath(__file__)))


def main():
    ap = argparse.ArgumentParser()
    ap.add_argument("--only")
    ap.add_argument("--props")
    a = ap.parse_args()
    muts = json.load(open(os.path.join(VERIF, "mutants", "mutants.json")))
    ok = True
    for m in muts:
        if a.only and m["id"] != a.only:
            continue
        if a.props and not set(a.props.split(",")) & set(m["props"]):
            continue
        d = tempfile.mkdtemp(prefix="rexmut_")
        try:
            shutil.copytree("/repo/rex", os.path.join(d, "rex"))
            p = os.path.join(d, m["file"])
            s = open(p).read()
            if s.count(m["old"]) != 1:
                print(f"{m['id']}: SKIP (pattern occurs {s.count(m['old'])} times)")
                ok = False
                continue
            open(p, "w").write(s.replace(m["old"], m["new"]))
            for pid in m["props"]:
                r = subprocess.run([os.path.join(VERIF, "check"), pid], capture_output=True, text=True, env=dict(os.environ, REX_REPO=d, VERIF_EVIDENCE_DIR=os.path.join(d, "ev"), VERIF_REPLAY_DIR=os.path.join(d, "rp")), timeout=3000)
                viol = [l for l in r.stdout.splitlines() if l.startswith("VIOLATION")]
                status = "KILLED" if r.returncode == 1 and viol else f"SURVIVED(exit={r.returncode})"
                if status != "KILLED":
                    ok = False
                print(f"{m['id']} [{pid}]: {status}  {viol[0][:200] if viol else r.stdout.strip().splitlines()[-1][:200] if r.stdout.strip() else r.stderr[-200:]}")
        finally:
            shutil.rmtree(d, ignore_errors=True)
    sys.exit(0 if ok else 1)


if __name__ == "__main__":
    main()
