#!/bin/bash
# tools/stress_bounded.sh [seeds...]   : runs every randomised bounded stand-in on the UNCHANGED tree over several seeds (default 1 2 3 4) with a larger
# sample than the quick tier and lists every case that is not a listed known finding - such a case is a false alarm of the script (or a defect to triage).
cd "$(dirname "$0")/.."
seeds=${@:-1 2 3 4}
declare -A N=( [c01_replay.py]=6 [c03_async_episodes.py]=48 [c07_schedule.py]=6 [c08_buffers.py]=8 [c09_compiled_api.py]=24 [c10_zoh.py]=400 [c11_interp.py]=40 [c12_generate.py]=60 [c14_convert.py]=30 [c15_quantiles.py]=20 [c16_phases.py]=300 )
for s in "${!N[@]}"; do for sd in $seeds; do
  out=$(mktemp /tmp/stress.XXXX.json)
  JAX_PLATFORMS=cpu PYTHONPATH=/repo REX_REPO=/repo timeout 3000 /venv/bin/python -W ignore bounded/$s --n ${N[$s]} --seed $sd --out $out >/dev/null 2>&1
  python3 - "$s" "$sd" "$out" <<'PY'
import json, sys, os
s, sd, out = sys.argv[1:4]
V = os.path.dirname(os.path.dirname(os.path.abspath("tools/x")))
try:
    d = json.load(open(out))
except Exception as e:
    print(f"{s:26s} seed {sd}: NO RESULT ({e})"); sys.exit(0)
known = {f["kind"] for f in json.load(open("KNOWN_FINDINGS.json"))["findings"] if f.get("bounded") == s}
new = [b for b in d.get("bad_cases", []) if b.get("kinds") is None or any(k not in known for k in b["kinds"])]
print(f"{s:26s} seed {sd}: cases {d.get('cases')} errors {len(d.get('errors', []))} only-known {len(d.get('bad_cases', [])) - len(new)} NEW {len(new)}")
for b in new[:3]:
    print("      ", b.get("kinds"), (b.get("wrong") or b.get("wrong_reads") or "")[:2] if not isinstance(b.get("wrong"), list) else b["wrong"][:2], json.dumps(b.get("case"))[:300])
PY
  rm -f $out
done; done
