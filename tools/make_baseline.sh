#!/bin/sh
# records, per property, the obligations that discharge on the unchanged tree (used to tell "an obligation that passed and now fails" from "undischarged")
cd "$(dirname "$0")/.."
for p in "$@"; do VERIF_WRITE_BASELINE=1 ./check $p | tail -1; done
