#!/bin/bash
# tools/keep_seed.sh <worktree> <property id> <seed name> [more property ids to check]
# Confirms a sub-agent's seeded change (demo fails with it / passes without it, unit tests pass with it), stores it under
# /verif/seeded/<name>/ and runs the property's check against the changed tree (never against /repo).
set -u
wt=$1; pid=$2; name=$3; shift 3
V=$(cd "$(dirname "$0")/.." && pwd)
out=$V/seeded/$name; mkdir -p $out
cd $wt || exit 2
demo=$(ls seed_out/demo.py seed_out/test_demo.py 2>/dev/null | head -1)
run_demo() { if [[ $demo == *test_demo.py ]]; then PYTHONPATH=$wt JAX_PLATFORMS=cpu timeout 900 /venv/bin/python -W ignore -m pytest -q -p no:cacheprovider $demo >/tmp/demo_$name.log 2>&1; else PYTHONPATH=$wt JAX_PLATFORMS=cpu timeout 900 /venv/bin/python -W ignore $demo >/tmp/demo_$name.log 2>&1; fi; }
git diff -- rex > /tmp/patch_$name.diff
[ -s /tmp/patch_$name.diff ] || cp seed_out/patch.diff /tmp/patch_$name.diff
git checkout -q -- rex; git apply /tmp/patch_$name.diff || { echo "patch does not apply"; exit 2; }
run_demo; with=$?
git apply -R /tmp/patch_$name.diff; run_demo; without=$?
git apply /tmp/patch_$name.diff
PYTHONPATH=$wt JAX_PLATFORMS=cpu timeout 3000 /venv/bin/python -W ignore -m pytest -q -p no:cacheprovider --timeout=900 tests -q 2>&1 | tail -8 > /tmp/tests_$name.log
fails=$(grep -c "^FAILED" /tmp/tests_$name.log)
newfail=$(grep "^FAILED" /tmp/tests_$name.log | grep -v -e test_sim2real -e test_same_structure -e test_chain -e test_extend | wc -l)
echo "demo with change exit=$with, without=$without; test failures with change=$fails (new: $newfail)"
cp /tmp/patch_$name.diff $out/patch.diff; cp $demo $out/; cp seed_out/meta.json $out/meta.agent.json 2>/dev/null
res=""
for p in $pid "$@"; do
  r=$(REX_REPO=$wt VERIF_EVIDENCE_DIR=/tmp/seed_ev_$name VERIF_REPLAY_DIR=/tmp/seed_rp_$name timeout 3000 $V/check $p 2>&1 | grep -v "^KNOWN-FINDING")
  code=$(echo "$r" | grep -c "^VIOLATION")
  first=$(echo "$r" | grep "^VIOLATION" | head -3 | cut -c1-300)
  summary=$(echo "$r" | grep "^\[$p\]" | tail -1)
  echo "check $p: violations=$code :: $summary"; echo "$first"
  res="$res$p: violations=$code; $summary\n$first\n"
done
python3 - "$out" "$pid" "$with" "$without" "$newfail" "$res" <<'PY'
import json,sys,os
out,pid,w,wo,nf,res=sys.argv[1:7]
try: agent=json.load(open(os.path.join(out,'meta.agent.json')))
except Exception: agent={}
meta={"property":pid,"summary":agent.get("summary"),"needs":agent.get("needs"),"files_changed":agent.get("files_changed"),
 "confirmed":{"demo_exit_with_change":int(w),"demo_exit_without_change":int(wo),"new_test_failures_with_change":int(nf),
   "ran":"demo with/without the patch in a scratch worktree; full pytest suite with the patch (4 baseline always-fail tests ignored)"},
 "check_result":res.replace("\\n","\n")}
json.dump(meta,open(os.path.join(out,'meta.json'),'w'),indent=1)
PY
rm -rf /tmp/seed_ev_$name /tmp/seed_rp_$name
