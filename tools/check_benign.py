#!/usr/bin/env python3
"""False-alarm regression: applies every behaviour-preserving refactoring under /verif/benign/*.diff to a scratch copy of /repo/rex (never to /repo)
and runs the listed checks against it: every check must exit 0; where index.json says so (a refactoring that introduces a NEW loop needs a new sidecar
invariant) exit 2 / UNDECIDED is accepted, a VIOLATION or a checker error never is.
usage: tools/check_benign.py [-j N]"""
import json, os, shutil, subprocess, sys, tempfile, re
V = os.path.dirname(os.path.dirname(os.path.abspath(__file__)))
META = json.load(open(os.path.join(V, "benign", "index.json")))


def run(entry):
    d = tempfile.mkdtemp(prefix="rexbenign_")
    try:
        shutil.copytree("/repo/rex", os.path.join(d, "rex"))
        p = subprocess.run(["patch", "-p1", "-s", "-i", os.path.join(V, "benign", entry["patch"])], cwd=d, capture_output=True, text=True)
        if p.returncode != 0:
            return [(entry["patch"], "-", "patch does not apply: " + (p.stdout + p.stderr)[-200:])]
        out = []
        for pid in entry["checks"]:
            env = dict(os.environ, REX_REPO=d, VERIF_EVIDENCE_DIR=os.path.join(d, "ev"), VERIF_REPLAY_DIR=os.path.join(d, "rp"))
            r = subprocess.run([os.path.join(V, "check"), pid], capture_output=True, text=True, env=env, timeout=3000)
            lines = [l for l in r.stdout.splitlines() if re.match(r"^(VIOLATION|UNDECIDED|ERROR)", l)]
            if r.returncode == 0 and not lines:
                res = "ok"
            elif r.returncode == 2 and pid in entry.get("undecided_ok", {}) and not any(l.startswith(("VIOLATION", "ERROR")) for l in lines):
                res = "ok (undecided as expected: " + entry["undecided_ok"][pid][:90] + ")"
            else:
                res = f"exit {r.returncode}: " + "; ".join(lines[:2])[:300]
            out.append((entry["patch"], pid, res))
        return out
    finally:
        shutil.rmtree(d, ignore_errors=True)


def main():
    bad = 0
    for e in META:
        for patch, pid, res in run(e):
            print(f"{patch:28s} {pid:4s} {res}")
            bad += not res.startswith("ok")
    print("all benign refactorings pass" if not bad else f"{bad} FALSE ALARM(S) / undecided")
    return 1 if bad else 0


if __name__ == "__main__":
    sys.exit(main())
