#!/bin/sh
# Offline setup: nothing is built; verify the two interpreters and solvers the checks need.
set -e
python3-vt -c "import z3; assert z3.get_version()[0] >= 4"
/venv/bin/python -c "import jax, sys; sys.path.insert(0, '/repo'); import rex"
command -v cvc5 >/dev/null
mkdir -p evidence replay/out
echo "setup ok"
