"""BOUNDED stand-in for C07: the compiled schedule produced by the real pipeline (apply_window, to_networkx_graph, to_connected_graph,
supergraph, to_timings) is checked against the executable contract of the property on random small systems.
usage: c07_schedule.py --n N --seed S --out f.json | --replay case.json"""
import argparse, json, os, sys, time, warnings
warnings.filterwarnings("ignore")
sys.path.insert(0, os.path.dirname(os.path.abspath(__file__)))
import numpy as np
from c08_buffers import make_case, N   # same generator of systems (also sets sys.path to the repo under test)


def check_case(case):
    import jax, networkx as nx
    from distrax import Deterministic, Normal
    from rex.artificial import generate_graphs
    from rex.base import TrainableDist
    from rex.graph import Graph
    import rex.constants as const
    r = case["rates"]
    dd = lambda i, base: TrainableDist.create(0.0, 0.0, case["tmax"][i]) if case["trainable"][i] else (Normal(base, base / 3) if case["jitter"] and base > 0 else Deterministic(base))
    a = N(name="a", rate=r[0], delay_dist=Normal(0.4 / r[0], 0.1 / r[0]) if case["jitter"] else Deterministic(0.4 / r[0]))
    b = N(name="b", rate=r[1], delay_dist=Deterministic(0.3 / r[1]))
    c = N(name="c", rate=r[2], delay_dist=Deterministic(0.1 / r[2]))
    b.connect(a, window=case["win"][0], blocking=False, delay_dist=dd(0, 0.02))
    c.connect(b, window=case["win"][1], blocking=False, delay_dist=dd(1, 0.01))
    c.connect(a, window=case["win"][2], blocking=False, delay_dist=dd(2, 0.0))
    a.connect(c, window=case["win"][3], blocking=False, skip=True, delay_dist=dd(3, 0.005))
    nodes = {"a": a, "b": b, "c": c}
    # sink nodes (never ancestors of a supervisor step): a slow one and a fast one, so that start order and end order of non-ancestors differ
    if case.get("sinks", True):
        slow = N(name="slow", rate=2.0, delay_dist=Deterministic(0.4))
        fast = N(name="fast", rate=20.0, delay_dist=Deterministic(0.005))
        slow.connect(a, window=1, blocking=False, delay_dist=Deterministic(0.001))
        fast.connect(a, window=1, blocking=False, delay_dist=Deterministic(0.001))
        nodes.update(slow=slow, fast=fast)
    g_raw = generate_graphs(nodes, case["ts_max"], num_episodes=case["eps"], rng=jax.random.PRNGKey(case["key"]))
    graph = Graph(nodes=nodes, supervisor=c, graphs_raw=g_raw, supergraph=getattr(const.Supergraph, case["mode"]), prune=case["prune"], progress_bar=False)
    T = jax.tree_util.tree_map(np.array, graph.timings)
    WG = jax.tree_util.tree_map(np.array, graph._windowed_graphs)
    RAW = jax.tree_util.tree_map(np.array, graph._graphs_raw)
    S = graph._S
    gens = T.to_generation()
    gen_of = {s: gi for gi, gen in enumerate(gens) for s in gen}
    n_eps, P = next(iter(T.slots.values())).run.shape
    bad, checks = [], 0
    sup = "c"

    def err(msg):
        if len(bad) < 12:
            bad.append(msg)
    from rex import utils as rutils
    for e in range(n_eps):
        G = graph._Gs[e]
        mono = graph._Gs_monomorphism[e]
        # ---- to_connected_graph's own contract (prune off), checked directly on the real function for every case:
        # every vertex that is not an ancestor of the last supervisor step but ends no later than some supervisor step starts
        # gets an edge to the FIRST supervisor step starting at or after its end; nothing else is added
        Gc = rutils.to_connected_graph(G, c, nodes)
        sups = sorted([n for n, d in G.nodes(data=True) if d["kind"] == sup], key=lambda n: G.nodes[n]["ts_start"])
        if sups:
            anc = nx.ancestors(G, sups[-1]) | {sups[-1]}
            for v, d in G.nodes(data=True):
                if v in anc:
                    continue
                checks += 1
                target = next((sn for sn in sups if G.nodes[sn]["ts_start"] >= d["ts_end"]), None)
                new_edges = [w for w in Gc.successors(v) if not G.has_edge(v, w)]
                if target is None:
                    if new_edges:
                        err(f"eps {e}: to_connected_graph attaches {v} (ends {d['ts_end']:.3f}) although no supervisor step starts after it")
                elif new_edges != [target]:
                    err(f"eps {e}: to_connected_graph attaches non-ancestor {v} (ends {d['ts_end']:.3f}) to {new_edges}, expected [{target}] (starts {G.nodes[target]['ts_start']:.3f})")
            extra = [(u, w) for u, w in Gc.edges if not G.has_edge(u, w) and u in anc]
            if extra:
                err(f"eps {e}: to_connected_graph adds edges from ancestors: {extra[:3]}")
        used = {}
        exec_pos = {}
        for n2, (p, slot) in mono.items():
            kind, seq = G.nodes[n2]["kind"], int(G.nodes[n2]["seq"])
            checks += 1
            if S.nodes[slot]["kind"] != kind:
                err(f"eps {e}: vertex {n2} mapped to slot {slot} of kind {S.nodes[slot]['kind']}")
            if (p, slot) in used:
                err(f"eps {e}: slot {slot} of partition {p} holds two vertices: {used[(p, slot)]} and {n2}")
            used[(p, slot)] = n2
            if kind == sup and (seq != p or slot != graph._supervisor_slot):
                err(f"eps {e}: supervisor step {seq} is in partition {p}, slot {slot}")
            if p >= P:
                continue
            exec_pos[(kind, seq)] = (p, gen_of[slot])
            sl = T.slots[slot]
            v = WG.vertices[kind]
            if not sl.run[e, p]:
                err(f"eps {e}: vertex {n2} scheduled in ({p},{slot}) but run mask is False")
            if int(sl.seq[e, p]) != seq or abs(sl.ts_start[e, p] - v.ts_start[e, seq]) > 1e-6 or abs(sl.ts_end[e, p] - v.ts_end[e, seq]) > 1e-6:
                err(f"eps {e}: slot ({p},{slot}) carries seq {int(sl.seq[e, p])} / times of another vertex than {n2}")
            for src, w in sl.windows.items():
                if not np.array_equal(w.seq[e, p], v.windows[src].seq[e, seq]):
                    err(f"eps {e}: slot ({p},{slot}) window from {src} = {w.seq[e, p].tolist()} but vertex {n2} has {v.windows[src].seq[e, seq].tolist()}")
        # run mask true only where a vertex was mapped
        for sname, sl in T.slots.items():
            for p in range(P):
                checks += 1
                if sl.run[e, p] and (p, sname) not in used:
                    err(f"eps {e}: slot ({p},{sname}) runs although no vertex was mapped to it")
        # every ancestor of a supervisor step within the horizon is scheduled exactly once; with prune off also everything finished before the last supervisor step
        sup_nodes = [n for n, d in G.nodes(data=True) if d["kind"] == sup and int(d["seq"]) < P]
        need = set()
        for sn in sup_nodes:
            need |= nx.ancestors(G, sn) | {sn}
        if not case["prune"] and sup_nodes:
            last = max(sup_nodes, key=lambda n: G.nodes[n]["seq"])
            need |= {n for n, d in G.nodes(data=True) if d["ts_end"] <= G.nodes[last]["ts_start"]}
        for n2 in need:
            checks += 1
            if n2 not in mono or mono[n2][0] >= P:
                err(f"eps {e}: vertex {n2} is needed by a supervisor step inside the horizon but is not scheduled")
        # order: per kind increasing seq in execution order; producers strictly before consumers
        order = sorted(exec_pos.items(), key=lambda kv: kv[1])
        lastseq = {}
        for (kind, seq), pos in order:
            if kind in lastseq and seq <= lastseq[kind][0] and pos != lastseq[kind][1]:
                err(f"eps {e}: {kind} runs seq {seq} after seq {lastseq[kind][0]}")
            lastseq[kind] = (seq, pos)
        for (kind, seq), pos in exec_pos.items():
            v = WG.vertices[kind]
            for src, w in v.windows.items():
                for q in w.seq[e, seq]:
                    q = int(q)
                    checks += 1
                    if q >= 0:
                        if (src, q) not in exec_pos:
                            err(f"eps {e}: {kind}_{seq} reads {src}_{q} which is never scheduled")
                        elif not exec_pos[(src, q)] < pos:
                            err(f"eps {e}: producer {src}_{q} at {exec_pos[(src, q)]} does not run strictly before consumer {kind}_{seq} at {pos}")
        # windows = last `window` (+ trainable extension) messages consumed up to that step, oldest first
        for (n1, n2), ed in RAW.edges.items():
            conn = nodes[n1].outputs[n2]
            W = conn.window + conn.delay_dist.window(nodes[n1].rate)
            so, si = ed.seq_out[e], ed.seq_in[e]
            vseq = RAW.vertices[n2].seq[e]
            for s in vseq:
                s = int(s)
                if s < 0:
                    continue
                consumed = [int(o) for o, i in zip(so, si) if o != -1 and i != -1 and i <= s]
                want = ([-1] * W + consumed)[-W:]
                got = [int(x) for x in WG.vertices[n2].windows[n1].seq[e, s]]
                checks += 1
                if got != want:
                    err(f"eps {e}: window of {n2}_{s} from {n1} is {got}, the last {W} consumed messages are {want}")
    return bad, checks


def _safe(case):
    try:
        return check_case(case)
    except Exception as e:
        import traceback
        return f"{type(e).__name__}: {e} | {traceback.format_exc()[-300:]}"


def main():
    ap = argparse.ArgumentParser()
    ap.add_argument("--n", type=int, default=6)
    ap.add_argument("--seed", type=int, default=0)
    ap.add_argument("--out")
    ap.add_argument("--replay")
    a = ap.parse_args()
    if a.replay:
        d = json.load(open(a.replay))
        bad, _ = check_case(d["case"])
        print("\n".join(bad[:10]))
        print("REPRODUCED on the real code" if bad else "not reproduced")
        sys.exit(1 if bad else 0)
    rng = np.random.RandomState(3000 + a.seed)
    t0 = time.time()
    cases = [make_case(rng) for _ in range(a.n)]
    import multiprocessing as mp
    with mp.get_context("spawn").Pool(min(12, a.n)) as pool:
        outs = pool.map(_safe, cases)
    res = dict(cases=0, checks=0, bad_cases=[], samples=[], distinct=len({json.dumps(c, sort_keys=True) for c in cases}), errors=[])
    for case, out in zip(cases, outs):
        if isinstance(out, str):
            res["errors"].append(out)
            continue
        bad, checks = out
        res["cases"] += 1
        res["checks"] += checks
        if len(res["samples"]) < 2:
            res["samples"].append(dict(case=case, checks=checks, wrong=len(bad)))
        if bad:
            res["bad_cases"].append(dict(case=case, wrong=bad[:6]))
    res["wall_s"] = round(time.time() - t0, 1)
    json.dump(res, open(a.out, "w"), indent=1) if a.out else print(json.dumps(res, indent=1)[:3000])


if __name__ == "__main__":
    main()
