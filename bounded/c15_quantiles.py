"""BOUNDED stand-in for C15: quantiles / sampling / default delays / delay estimator of the real code on random distributions.
usage: c15_quantiles.py --n N --seed S --out f.json | --replay case.json"""
import argparse, json, os, sys, time, warnings
warnings.filterwarnings("ignore")
REPO = os.environ.get("REX_REPO", "/repo")
sys.path.insert(0, REPO)
import numpy as np


def make_case(rng):
    kind = str(rng.choice(["deterministic", "normal", "mixture", "mixture"]))
    k = int(rng.randint(2, 5))
    w = [float(x) for x in rng.dirichlet(np.ones(k))]
    loc = [float(x) for x in rng.uniform(0.005, 0.2, size=k)]
    if kind == "mixture" and rng.rand() < 0.4:
        # one dominant component and rare ones far out in the tail (a link that stalls for a fraction of a percent of the messages): the tail quantiles are
        # decided by the rare components
        rare = [float(x) for x in rng.uniform(0.0005, 0.004, size=k - 1)]
        w = rare + [1.0 - sum(rare)]
        loc = [float(x) for x in rng.uniform(0.08, 0.2, size=k - 1)] + [float(rng.uniform(0.005, 0.02))]
    return dict(kind=kind, loc=loc, scale=[float(x) for x in rng.uniform(0.001, 0.03, size=k)],
                w=w, key=int(rng.randint(0, 10000)), const_data=bool(rng.rand() < 0.3))


def run_case(case):
    import jax, jax.numpy as jnp, distrax
    from rex import base
    from rex.node import BaseNode
    bad = []
    if case["kind"] == "deterministic":
        d = distrax.Deterministic(loc=case["loc"][0])
        cdf = lambda x: float(x >= case["loc"][0] - 1e-9)
    elif case["kind"] == "normal":
        d = distrax.Normal(loc=case["loc"][0], scale=case["scale"][0])
        cdf = lambda x: float(d.cdf(x))
    else:
        comp = distrax.Normal(loc=jnp.array(case["loc"]), scale=jnp.array(case["scale"]))
        d = distrax.MixtureSameFamily(mixture_distribution=distrax.Categorical(probs=jnp.array(case["w"])), components_distribution=comp)
        cdf = lambda x: float(sum(w * distrax.Normal(l, s).cdf(x) for w, l, s in zip(case["w"], case["loc"], case["scale"])))
    D = base.StaticDist.create(d)
    qs = [0.05, 0.25, 0.5, 0.75, 0.9, 0.99, 0.999]
    vals = [float(np.asarray(D.quantile(q)).reshape(-1)[0]) for q in qs]
    checks = len(qs)
    for a, b in zip(vals, vals[1:]):
        if b < a - 1e-7:
            bad.append(f"quantile not monotone: {vals}")
            break
    tol = {"deterministic": 1.0, "normal": 1e-3, "mixture": 0.03}[case["kind"]]
    for q, v in zip(qs, vals):
        if case["kind"] != "deterministic" and abs(cdf(v) - q) > tol:
            bad.append(f"CDF(quantile({q})) = {cdf(v):.4f}")
    if case["kind"] == "mixture":
        # "within grid resolution": the returned value is within a few cells of the true quantile of the mixture (float64 bisection of its CDF);
        # the search grid spans the components' 0.1% .. 99.9% quantiles in 1000 points
        import math
        cdf64 = lambda x: sum(w * 0.5 * (1.0 + math.erf((x - l) / (s_ * math.sqrt(2.0)))) for w, l, s_ in zip(case["w"], case["loc"], case["scale"]))
        z = 3.0902323061678132
        lo_g, hi_g = min(l - z * s_ for l, s_ in zip(case["loc"], case["scale"])), max(l + z * s_ for l, s_ in zip(case["loc"], case["scale"]))
        cell = (hi_g - lo_g) / 1000.0
        for q, v in zip(qs, vals):
            a_, b_ = lo_g - 1.0, hi_g + 1.0
            for _ in range(80):
                m_ = 0.5 * (a_ + b_)
                if cdf64(m_) < q:
                    a_ = m_
                else:
                    b_ = m_
            true_q = 0.5 * (a_ + b_)
            checks += 1
            if abs(v - true_q) > 3.0 * cell + 1e-6:
                bad.append(f"quantile({q}) = {v:.6f}, the mixture's true quantile is {true_q:.6f} (grid cell {cell:.6f})")
        # the quantile is a function of THIS distribution only: sibling mixtures with the same components and other weights, queried in the same process at the same
        # probabilities, get their own quantiles, and asking the first one again gives the first answer again (no dependence on what was asked before)
        k_ = len(case["w"])
        for w2 in ([1.0 / k_] * k_, list(reversed(case["w"])), [0.97] + [0.03 / (k_ - 1)] * (k_ - 1)):
            if max(abs(a_ - b_) for a_, b_ in zip(w2, case["w"])) < 1e-9:
                continue
            d2 = distrax.MixtureSameFamily(mixture_distribution=distrax.Categorical(probs=jnp.array(w2)), components_distribution=comp)
            D2_ = base.StaticDist.create(d2)
            cdf2 = lambda x: sum(w * 0.5 * (1.0 + math.erf((x - l) / (s_ * math.sqrt(2.0)))) for w, l, s_ in zip(w2, case["loc"], case["scale"]))
            for q in (0.5, 0.99):
                v2 = float(np.asarray(D2_.quantile(q)).reshape(-1)[0])
                a_, b_ = lo_g - 1.0, hi_g + 1.0
                for _ in range(80):
                    m_ = 0.5 * (a_ + b_)
                    if cdf2(m_) < q:
                        a_ = m_
                    else:
                        b_ = m_
                checks += 1
                # (on a plateau of the CDF - well separated modes - every point of the plateau is a q-quantile: wrong only if neither the value nor its CDF fits)
                if abs(v2 - 0.5 * (a_ + b_)) > 3.0 * cell + 1e-6 and abs(cdf2(v2) - q) > tol:
                    bad.append(f"same components, weights {w2} (asked after weights {case['w']}): quantile({q}) = {v2:.6f}, true quantile {0.5 * (a_ + b_):.6f}")
        again = [float(np.asarray(D.quantile(q)).reshape(-1)[0]) for q in qs]
        checks += 1
        if any(abs(a_ - b_) > 1e-9 for a_, b_ in zip(again, vals)):
            bad.append(f"asking the same distribution again gives {again}, first answer {vals}")
    if case["kind"] == "deterministic" and any(abs(v - case["loc"][0]) > 1e-6 for v in vals):
        bad.append(f"deterministic quantiles {vals} != {case['loc'][0]}")
    # sampling: non-negative, replayable, new rng state
    D0 = D.reset(jax.random.PRNGKey(case["key"]))
    D1, s1 = D0.sample(shape=(64,))
    D1b, s1b = D.reset(jax.random.PRNGKey(case["key"])).sample(shape=(64,))
    D2, s2 = D1.sample(shape=(64,))
    checks += 3
    if float(jnp.min(s1)) < 0 or float(jnp.min(s2)) < 0:
        bad.append("negative sampled delay")
    if not bool(jnp.all(s1 == s1b)):
        bad.append("resetting to the same rng does not replay the same delays")
    if bool(jnp.all(D1.rng == D0.rng)):
        bad.append("sample did not return a new rng state")
    if case["kind"] != "deterministic" and bool(jnp.all(s1 == s2)):
        bad.append("consecutive samples identical (rng state not advanced)")
    # default expected delay of a node and a connection = 99th percentile, >= 0

    class Nd(BaseNode):
        pass
    n1, n2 = Nd("n1", rate=10.0, delay_dist=d), Nd("n2", rate=10.0)
    n2.connect(n1, delay_dist=d)
    q99 = float(np.asarray(D.quantile(0.99)).reshape(-1)[0])
    checks += 2
    if abs(n1.delay - q99) > 1e-6 or n1.delay < 0:
        bad.append(f"node default delay {n1.delay} != quantile(0.99) = {q99}")
    if abs(n2.inputs["n1"].delay - q99) > 1e-6 or n2.inputs["n1"].delay < 0:
        bad.append(f"connection default delay {n2.inputs['n1'].delay} != quantile(0.99) = {q99}")
    # delay estimator: constant data -> deterministic distribution in the units of the data; rescaling back to data units
    from rex.gmm_estimator import GMMEstimator
    if case["const_data"]:
        cv = case.get("const_value", case["loc"][0])
        data = np.ones(50) * cv
        est = GMMEstimator(data)
        checks += 2
        if not est.is_deterministic:
            bad.append(f"constant data {cv} not recognised as deterministic")
        else:
            dist = est.get_dist()
            m = float(dist.mean())
            if abs(m - cv) > 1e-5 or float(dist.sample()[1]) != float(dist.sample()[1]) or abs(float(np.asarray(dist.quantile(0.99)).reshape(-1)[0]) - cv) > 1e-5:
                bad.append(f"constant data {cv} -> estimator distribution mean {m}")
    else:
        data = np.abs(np.random.RandomState(case["key"]).normal(case["loc"][0], case["scale"][0], size=200))
        est = GMMEstimator(data)
        if not est.is_deterministic:
            params = (np.log(np.array(case["w"])), np.zeros(1), (np.array(case["loc"]) - est._mean) / est._std, np.log(np.array(case["scale"]) / est._std))
            lw, _, mus, ls = est._rescale(params)
            checks += 1
            if not (np.allclose(mus, case["loc"], atol=1e-6) and np.allclose(np.exp(ls), case["scale"], rtol=1e-5) and np.allclose(lw, params[0])):
                bad.append(f"_rescale does not map normalised components back to data units: {mus} vs {case['loc']}")
    return bad, checks


def _safe(case):
    try:
        return run_case(case)
    except Exception as e:
        import traceback
        return f"{type(e).__name__}: {e} | {traceback.format_exc()[-400:]}"


def main():
    ap = argparse.ArgumentParser()
    ap.add_argument("--n", type=int, default=8)
    ap.add_argument("--seed", type=int, default=0)
    ap.add_argument("--out")
    ap.add_argument("--replay")
    a = ap.parse_args()
    if a.replay:
        d = json.load(open(a.replay))
        bad, _ = run_case(d["case"])
        print("\n".join(bad[:10]))
        print("REPRODUCED on the real code" if bad else "not reproduced")
        sys.exit(1 if bad else 0)
    rng = np.random.RandomState(4000 + a.seed)
    t0 = time.time()
    cases = [make_case(rng) for _ in range(a.n)]
    cases[0]["kind"], cases[0]["const_data"] = "deterministic", True
    if len(cases) > 1:
        cases[1]["kind"] = "normal"
    if len(cases) > 2:
        cases[2]["const_data"], cases[2]["const_value"] = True, 0.0      # boundary: all-zero delays
    if len(cases) > 3:       # always one mixture with a dominant component and a rare far tail
        cases[3].update(kind="mixture", w=[0.006, 0.994], loc=[0.05, 0.01], scale=[0.005, 0.002])
    import multiprocessing as mp
    with mp.get_context("spawn").Pool(min(10, a.n)) as pool:
        outs = pool.map(_safe, cases)
    res = dict(cases=0, checks=0, bad_cases=[], samples=[], distinct=len({json.dumps(c, sort_keys=True) for c in cases}), errors=[])
    for case, out in zip(cases, outs):
        if isinstance(out, str):
            res["errors"].append(out)
            continue
        bad, checks = out
        res["cases"] += 1
        res["checks"] += checks
        if len(res["samples"]) < 2:
            res["samples"].append(dict(case=case, checks=checks, wrong=len(bad)))
        if bad:
            res["bad_cases"].append(dict(case=case, wrong=bad[:6]))
    res["wall_s"] = round(time.time() - t0, 1)
    json.dump(res, open(a.out, "w"), indent=1) if a.out else print(json.dumps(res, indent=1)[:3000])


if __name__ == "__main__":
    main()
