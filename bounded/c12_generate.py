"""BOUNDED stand-in for C12: the real rex.artificial.generate_graphs / augment_graphs on random node sets, checked against the statement
vertex by vertex and edge by edge (float64 re-computation from the graph's own arrays).
Each wrong thing carries a `kind` tag; kinds listed in KNOWN_FINDINGS.json are reported as known findings by the check, everything else as a violation.
usage: c12_generate.py --n N --seed S --out f.json | --replay case.json"""
import argparse, json, os, sys, time, warnings
warnings.filterwarnings("ignore")
REPO = os.environ.get("REX_REPO", "/repo")
sys.path.insert(0, REPO)
import numpy as np

TOL = 2e-5
# always run: a configuration on which the listed known finding (overtaken message) shows, so that the check reports it on every run
PINNED = json.loads('''[{"nodes": [{"name": "n0", "rate": 5.0, "comp": 0.004, "comp_std": 0.0}, {"name": "n1", "rate": 2.0, "comp": 0.004, "comp_std": 0.02}, {"name": "n2", "rate": 5.0, "comp": 0.004, "comp_std": 0.02}, {"name": "n3", "rate": 10.0, "comp": 0.0, "comp_std": 0.002}], "conns": [{"src": 0, "dst": 1, "skip": false, "window": 2, "comm": 0.1, "comm_std": 0.001, "trainable": false}, {"src": 0, "dst": 2, "skip": false, "window": 3, "comm": 0.02, "comm_std": 0.15, "trainable": false}, {"src": 0, "dst": 3, "skip": false, "window": 3, "comm": 0.1, "comm_std": 0.001, "trainable": false}, {"src": 1, "dst": 0, "skip": true, "window": 2, "comm": 0.02, "comm_std": 0.001, "trainable": false}, {"src": 1, "dst": 2, "skip": false, "window": 3, "comm": 0.1, "comm_std": 0.0, "trainable": false}, {"src": 1, "dst": 3, "skip": true, "window": 1, "comm": 0.0, "comm_std": 0.0, "trainable": false}, {"src": 2, "dst": 1, "skip": true, "window": 3, "comm": 0.003, "comm_std": 0.03, "trainable": false}, {"src": 3, "dst": 1, "skip": true, "window": 2, "comm": 0.1, "comm_std": 0.15, "trainable": false}], "ts_max": 2.3, "episodes": 1, "key": 3881, "augment": false}]''')
# an augmentation whose nodes do not declare a connection (n0 -> n1) that the existing graph already holds
PINNED_AUGMENT = [dict(nodes=[dict(name="n0", rate=5.0, comp=0.004, comp_std=0.0), dict(name="n1", rate=10.0, comp=0.02, comp_std=0.002), dict(name="n2", rate=2.0, comp=0.0, comp_std=0.0)],
                       conns=[dict(src=0, dst=1, skip=False, window=2, comm=0.003, comm_std=0.001, trainable=False), dict(src=1, dst=0, skip=True, window=1, comm=0.02, comm_std=0.0, trainable=False),
                              dict(src=0, dst=2, skip=False, window=1, comm=0.0, comm_std=0.0, trainable=False)],
                       ts_max=1.0, episodes=2, key=77, augment=True, undeclared=0)]


def make_case(rng):
    n = int(rng.randint(2, 5))
    nodes = []
    for i in range(n):
        nodes.append(dict(name=f"n{i}", rate=float(rng.choice([2.0, 5.0, 10.0, 20.0])), comp=float(rng.choice([0.0, 0.004, 0.02, 0.08, 0.3])), comp_std=float(rng.choice([0.0, 0.0, 0.002, 0.02]))))
    conns = []
    for i in range(n):
        for j in range(n):
            if i != j and rng.rand() < 0.45:
                back = j < i        # edges pointing "backwards" are skipped so that the computation graph stays acyclic
                conns.append(dict(src=i, dst=j, skip=bool(back or rng.rand() < 0.2), window=int(rng.randint(1, 4)), comm=float(rng.choice([0.0, 0.003, 0.02, 0.1])),
                                  comm_std=float(rng.choice([0.0, 0.0, 0.001, 0.03, 0.15])), trainable=bool(rng.rand() < 0.15)))
    case = dict(nodes=nodes, conns=conns, ts_max=float(rng.choice([0.5, 1.0, 2.3])), episodes=int(rng.randint(1, 4)), key=int(rng.randint(0, 10000)), augment=bool(rng.rand() < 0.35))
    if case["augment"] and rng.rand() < 0.5:
        inside = [ci for ci, c in enumerate(conns) if c["src"] < max(1, n - 1) and c["dst"] < max(1, n - 1)]
        if inside:
            case["undeclared"] = int(inside[rng.randint(len(inside))])
    if rng.rand() < 0.3:
        # exact ties: zero delays, commensurate rates, a horizon that is a multiple of every period - arrivals coincide with step starts (also on the very last step)
        for nd in case["nodes"]:
            nd.update(rate=float(rng.choice([1.0, 2.0, 4.0])), comp=0.0, comp_std=0.0)
        for c in case["conns"]:
            c.update(comm=0.0, comm_std=0.0, trainable=False)
        case["ts_max"] = float(rng.choice([2.0, 3.0]))
    return case


def build(case, subset=None, drop=()):
    import distrax
    from rex.base import StaticDist, TrainableDist
    from rex.node import BaseNode

    class Nd(BaseNode):
        pass
    objs = []
    for nd in case["nodes"]:
        dist = distrax.Normal(loc=nd["comp"], scale=nd["comp_std"]) if nd["comp_std"] > 0 else distrax.Deterministic(loc=nd["comp"])
        objs.append(Nd(nd["name"], rate=nd["rate"], delay_dist=StaticDist.create(dist)))
    for ci, c in enumerate(case["conns"]):
        if ci in drop or (subset is not None and not (c["src"] in subset and c["dst"] in subset)):
            continue
        if c["trainable"]:
            dd = TrainableDist.create(delay=c["comm"] + 0.01, min=c["comm"], max=c["comm"] + 0.05)
        else:
            dd = StaticDist.create(distrax.Normal(loc=c["comm"], scale=c["comm_std"]) if c["comm_std"] > 0 else distrax.Deterministic(loc=c["comm"]))
        objs[c["dst"]].connect(objs[c["src"]], window=c["window"], skip=c["skip"], blocking=False, delay_dist=dd)
    names = [o.name for i, o in enumerate(objs) if subset is None or i in subset]
    return {o.name: o for o in objs if o.name in names}


def check_graph(case, nodes, G, ts_max, bad, phase_nodes=None):
    """G: one episode (numpy arrays)"""
    checks = 0
    for name, nd in nodes.items():
        v = G.vertices[name]
        seq, ts, te = np.asarray(v.seq), np.asarray(v.ts_start, dtype=np.float64), np.asarray(v.ts_end, dtype=np.float64)
        real = seq >= 0
        k = int(real.sum())
        checks += 1
        if not (real[:k].all() and (seq[:k] == np.arange(k)).all()):
            bad.append(dict(kind="vertex-seq-not-contiguous", what=f"{name}: seq {seq.tolist()[:12]}"))
            continue
        if k == 0:
            continue
        ph = float((phase_nodes or nodes)[name].phase)      # phases follow the connections as DECLARED by the nodes handed in (an undeclared connection does not shift them)
        if phase_nodes is not None and name in (case.get("_base_names") or ()):
            ph = ts[0]                                       # an existing vertex was generated under the full declaration and is compared with the base graph instead
        if abs(ts[0] - ph) > TOL:
            bad.append(dict(kind="first-vertex-not-at-phase", what=f"{name}: first start {ts[0]} != phase {ph}"))
        if (np.diff(ts[:k]) < 1.0 / nd.rate - TOL).any():
            bad.append(dict(kind="vertices-closer-than-a-period", what=f"{name}: start spacing {np.diff(ts[:k]).min()} < period {1.0 / nd.rate}"))
        if (te[:k] < ts[:k] - TOL).any():
            bad.append(dict(kind="negative-computation-delay", what=f"{name}: a step ends before it starts"))
        if (ts[1:k] < te[:k - 1] - TOL).any():
            bad.append(dict(kind="vertices-overlap", what=f"{name}: a step starts before the previous one ended"))
        if (te[:k] > ts_max + TOL).any():
            bad.append(dict(kind="vertex-ends-after-horizon", what=f"{name}: end {te[:k].max()} > horizon {ts_max}"))
    for (u, w), e in G.edges.items():
        c = nodes[w].inputs[[k for k, cc in nodes[w].inputs.items() if cc.output_node.name == u][0]]
        vu, vw = G.vertices[u], G.vertices[w]
        so, si, tr = np.asarray(e.seq_out), np.asarray(e.seq_in), np.asarray(e.ts_recv, dtype=np.float64)
        te_u = np.asarray(vu.ts_end, dtype=np.float64)
        ts_w, seq_w = np.asarray(vw.ts_start, dtype=np.float64), np.asarray(vw.seq)
        kw = int((seq_w >= 0).sum())
        prev_arr = -np.inf
        for j in range(len(so)):
            if so[j] < 0:
                continue
            checks += 1
            if so[j] != j or np.asarray(vu.seq)[j] != j:
                bad.append(dict(kind="edge-sender-seq-mismatch", what=f"{u}->{w}: entry {j} has seq_out {so[j]}"))
                continue
            if tr[j] < te_u[j] - TOL:
                bad.append(dict(kind="received-before-sent", what=f"{u}->{w} msg {j}: ts_recv {tr[j]} < sender end {te_u[j]}"))
            if si[j] < 0:
                # never consumed inside the horizon: no receiver step may qualify
                q = [s for s in range(kw) if (ts_w[s] > tr[j] + TOL if c.skip else ts_w[s] >= tr[j] - TOL)]
                if q and not (ts_w[q[0]] - tr[j] < 2 * TOL):
                    overtaken = tr[j] < prev_arr - TOL       # an earlier message of this connection arrives later: the search starts from ITS step (known finding)
                    bad.append(dict(kind="overtaken-message-assigned-late" if overtaken else "message-not-assigned",
                                    what=f"{u}->{w} msg {j} (recv {tr[j]}) unassigned although step {q[0]} starts at {ts_w[q[0]]}" + (f"; the previous message arrives later ({prev_arr})" if overtaken else "")))
                prev_arr = max(prev_arr, tr[j])
                continue
            s = int(si[j])
            ok_here = ts_w[s] > tr[j] - TOL if c.skip else ts_w[s] >= tr[j] - TOL
            if not ok_here:
                bad.append(dict(kind="assigned-to-a-step-that-starts-before-arrival", what=f"{u}->{w} msg {j}: recv {tr[j]}, step {s} starts {ts_w[s]} (skip={c.skip})"))
            elif s > 0:
                earlier = ts_w[s - 1] > tr[j] + TOL if c.skip else ts_w[s - 1] >= tr[j] + TOL
                if earlier:
                    overtaken = tr[j] < prev_arr - TOL       # an earlier message of this connection arrives later than this one
                    bad.append(dict(kind="overtaken-message-assigned-late" if overtaken else "not-the-first-step-after-arrival",
                                    what=f"{u}->{w} msg {j}: recv {tr[j]}, assigned to step {s} (start {ts_w[s]}) although step {s - 1} starts at {ts_w[s - 1]}"
                                         + (f"; the previous message arrives later ({prev_arr})" if overtaken else "")))
            prev_arr = max(prev_arr, tr[j])
    return checks


def run_case(case):
    import jax, jax.numpy as jnp
    from rex import artificial
    bad = []
    nodes = build(case)
    rng = jax.random.PRNGKey(case["key"])
    if not case.get("augment"):
        G = artificial.generate_graphs(nodes, ts_max=case["ts_max"], rng=rng, num_episodes=case["episodes"])
        base = None
    else:
        keep = set(range(max(1, len(case["nodes"]) - 1)))
        part = build(case, subset=keep)
        base = artificial.generate_graphs(part, ts_max=case["ts_max"], rng=rng, num_episodes=case["episodes"])
        if case.get("undeclared") is not None:
            # the nodes handed to augment_graphs do not declare one of the connections the existing graph already holds: that edge has to survive untouched
            nodes = build(case, drop={case["undeclared"]})
        G = artificial.augment_graphs(base, nodes, rng=jax.random.PRNGKey(case["key"] + 1))
    checks = 0
    want_v, want_e = set(nodes), {(c.output_node.name, n.name) for n in nodes.values() for c in n.inputs.values()}
    if base is not None:
        want_v, want_e = want_v | set(base.vertices), want_e | set(base.edges)
    if set(G.vertices) != want_v or set(G.edges) != want_e:
        bad.append(dict(kind="wrong-node-or-connection-set", what=f"vertices {sorted(G.vertices)} edges {sorted(G.edges)}"))
        return bad, 1
    if base is not None:
        for k, v in base.vertices.items():
            checks += 1
            if not all(np.array_equal(np.asarray(a), np.asarray(b)) for a, b in zip(jax.tree_util.tree_leaves(v), jax.tree_util.tree_leaves(G.vertices[k]))):
                bad.append(dict(kind="augment-changed-existing-vertex", what=k))
        for k, e in base.edges.items():
            checks += 1
            if not all(np.array_equal(np.asarray(a), np.asarray(b)) for a, b in zip(jax.tree_util.tree_leaves(e), jax.tree_util.tree_leaves(G.edges[k]))):
                bad.append(dict(kind="augment-changed-existing-edge", what=str(k)))
    for ep in range(case["episodes"]):
        Ge = jax.tree_util.tree_map(lambda x: np.asarray(x[ep]), G)
        hz = case["ts_max"] if base is None else max(float(np.asarray(v.ts_end)[ep].max()) for v in base.vertices.values())
        if case.get("undeclared") is not None:
            # connection parameters of the undeclared edge come from the full declaration
            checks += check_graph(dict(case, _base_names=sorted(base.vertices)), build(case), Ge, hz, bad, phase_nodes=nodes)
        else:
            checks += check_graph(case, nodes, Ge, hz, bad)
        # acyclic: every edge goes forward in time, a non-skipped edge into a step never starts after that step
        for (u, w), e in Ge.edges.items():
            so, si = np.asarray(e.seq_out), np.asarray(e.seq_in)
            m = (so >= 0) & (si >= 0)
            if m.any():
                te_u, ts_w = np.asarray(Ge.vertices[u].ts_end, dtype=np.float64), np.asarray(Ge.vertices[w].ts_start, dtype=np.float64)
                if (te_u[so[m]] > ts_w[si[m]] + TOL).any():
                    bad.append(dict(kind="edge-backwards-in-time", what=f"{u}->{w}"))
    return bad, checks


def _safe(case):
    try:
        return run_case(case)
    except Exception as e:
        import traceback
        return f"{type(e).__name__}: {e} | {traceback.format_exc()[-400:]}"


def main():
    ap = argparse.ArgumentParser()
    ap.add_argument("--n", type=int, default=12)
    ap.add_argument("--seed", type=int, default=0)
    ap.add_argument("--out")
    ap.add_argument("--replay")
    a = ap.parse_args()
    if a.replay:
        d = json.load(open(a.replay))
        bad, _ = run_case(d["case"])
        kinds = d.get("kinds")
        if kinds:
            bad = [b for b in bad if b["kind"] in kinds]
        print("\n".join(f"{b['kind']}: {b['what']}" for b in bad[:10]))
        print("REPRODUCED on the real code" if bad else "not reproduced")
        sys.exit(1 if bad else 0)
    rng = np.random.RandomState(12000 + a.seed)
    t0 = time.time()
    cases = PINNED + PINNED_AUGMENT + [make_case(rng) for _ in range(a.n)]
    import multiprocessing as mp
    with mp.get_context("spawn").Pool(min(12, a.n)) as pool:
        outs = pool.map(_safe, cases)
    res = dict(cases=0, checks=0, bad_cases=[], samples=[], distinct=len({json.dumps(c, sort_keys=True) for c in cases}), errors=[])
    for case, out in zip(cases, outs):
        if isinstance(out, str):
            res["errors"].append(out)
            continue
        bad, checks = out
        res["cases"] += 1
        res["checks"] += checks
        if len(res["samples"]) < 2:
            res["samples"].append(dict(case=case, checks=checks, wrong=len(bad)))
        if bad:
            res["bad_cases"].append(dict(case=case, kinds=sorted({b["kind"] for b in bad}), wrong=[f"{b['kind']}: {b['what']}" for b in bad[:6]]))
    res["wall_s"] = round(time.time() - t0, 1)
    json.dump(res, open(a.out, "w"), indent=1) if a.out else print(json.dumps(res, indent=1)[:3000])


if __name__ == "__main__":
    main()
