"""BOUNDED stand-in for Timings.get_buffer_sizes (numpy masked-array code, outside PyVC's reach).
Executable contract, checked natively on instances built by the real pipeline (generate_graphs -> Graph(...)):
replaying the compiled schedule (step-major, generation-minor, reads before the generation's writes) against ring buffers of the
automatically computed sizes, every window entry must find the payload with its own sequence number (or the untouched default for seq < 0).
usage: c08_buffers.py --n N --seed S --out result.json      |  c08_buffers.py --replay case.json
Run with /venv/bin/python, PYTHONPATH=<repo>, JAX_PLATFORMS=cpu."""
import argparse, json, os, sys, time, warnings
warnings.filterwarnings("ignore")
REPO = os.environ.get("REX_REPO", "/repo")
sys.path.insert(0, REPO)
sys.path.insert(0, os.path.join(REPO, "tests", "unit"))
import numpy as np
import jax
from distrax import Deterministic, Normal
from rex.artificial import generate_graphs
from rex.base import TrainableDist
from rex.graph import Graph
import rex.constants as const
from rex.node import BaseNode


class N(BaseNode):
    def init_output(self, rng=None, graph_state=None):
        import jax.numpy as jnp
        return jnp.array(0.0)

    def step(self, step_state):
        return step_state, self.init_output()


def static_replay(graph):
    T = jax.tree_util.tree_map(np.array, graph.timings)
    sizes = {k: (max(v) + graph._extra_padding if len(v) > 0 else max(1, graph._extra_padding)) for k, v in graph._buffer_sizes.items()}
    gens = T.to_generation()
    bad, nreads = [], 0
    n_eps, n_steps = next(iter(T.slots.values())).run.shape
    for e in range(n_eps):
        buf = {k: {} for k in sizes}
        for p in range(n_steps):
            for gi, gen in enumerate(gens):
                pending = []
                for sname, s in gen.items():
                    if not s.run[e, p]:
                        continue
                    for src, w in s.windows.items():
                        for q in w.seq[e, p]:
                            nreads += 1
                            got = buf[src].get(int(q) % sizes[src], None)
                            want = int(q) if q >= 0 else None
                            if got != want:
                                bad.append(dict(eps=e, step=p, gen=gi, slot=sname, producer=src, wanted_seq=int(q), found_seq=got, size=int(sizes[src])))
                    pending.append((s.kind, int(s.seq[e, p])))
                for k, q in pending:
                    buf[k][q % sizes[k]] = q
    return bad, nreads, {k: int(v) for k, v in sizes.items()}


def make_case(rng):
    rates = [float(x) for x in rng.choice([1, 2, 5, 10, 20], size=3)]
    case = dict(rates=rates, ts_max=float(rng.choice([1.0, 2.0])), eps=int(rng.choice([1, 2])), key=int(rng.randint(0, 1000)),
                win=[int(rng.randint(1, 5)) for _ in range(4)], trainable=[bool(rng.rand() < 0.4) for _ in range(4)],
                tmax=[float(rng.choice([0.05, 0.3, 1.5])) for _ in range(4)], jitter=bool(rng.rand() < 0.5),
                mode=str(rng.choice(["MCS", "GENERATIONAL", "TOPOLOGICAL"])), prune=bool(rng.rand() < 0.5), skip_back=True)
    return case


def run_case(case):
    r = case["rates"]
    dd = lambda i, base: TrainableDist.create(0.0, 0.0, case["tmax"][i]) if case["trainable"][i] else (Normal(base, base / 3) if case["jitter"] and base > 0 else Deterministic(base))
    a = N(name="a", rate=r[0], delay_dist=Normal(0.4 / r[0], 0.1 / r[0]) if case["jitter"] else Deterministic(0.4 / r[0]))
    b = N(name="b", rate=r[1], delay_dist=Deterministic(0.3 / r[1]))
    c = N(name="c", rate=r[2], delay_dist=Deterministic(0.1 / r[2]))
    b.connect(a, window=case["win"][0], blocking=False, delay_dist=dd(0, 0.02))
    c.connect(b, window=case["win"][1], blocking=False, delay_dist=dd(1, 0.01))
    c.connect(a, window=case["win"][2], blocking=False, delay_dist=dd(2, 0.0))
    a.connect(c, window=case["win"][3], blocking=False, skip=True, delay_dist=dd(3, 0.005))
    nodes = {"a": a, "b": b, "c": c}
    g = generate_graphs(nodes, case["ts_max"], num_episodes=case["eps"], rng=jax.random.PRNGKey(case["key"]))
    kw = dict(nodes=nodes, supervisor=c, graphs_raw=g, supergraph=getattr(const.Supergraph, case["mode"]), prune=case["prune"], progress_bar=False)
    graph = Graph(**kw)
    bad, nreads, sizes = static_replay(graph)
    # user-supplied sizes: one slot less than the largest requirement of a producer must be refused (an output would be overwritten before its last scheduled reader);
    # exactly the largest requirement (as an int and as a one-element list) must be accepted and replay correctly
    req = {k: [int(x) for x in v] for k, v in graph._buffer_sizes.items() if len(v) > 0}
    cand = sorted(req, key=lambda k: (-max(req[k]), k))
    if cand and max(req[cand[0]]) >= 2:
        name, need = cand[0], max(req[cand[0]])
        try:
            Graph(**kw, buffer_sizes={name: need - 1})
            bad.append(dict(kind="inadmissible-user-size-accepted", producer=name, required=req[name], given=need - 1))
        except AssertionError:
            pass
        for form in (need, [need]):
            try:
                g2 = Graph(**kw, buffer_sizes={name: form})
                b2, n2, _ = static_replay(g2)
                nreads += n2
                if b2:
                    bad.append(dict(kind="wrong-read-with-admissible-user-size", producer=name, given=form, first=b2[0]))
            except AssertionError:
                bad.append(dict(kind="admissible-user-size-refused", producer=name, required=req[name], given=form))
    return bad, nreads, sizes


def _safe_run(case):
    try:
        return run_case(case)
    except Exception as e:
        return f"{type(e).__name__}: {e}"[:200]


def main():
    ap = argparse.ArgumentParser()
    ap.add_argument("--n", type=int, default=6)
    ap.add_argument("--seed", type=int, default=0)
    ap.add_argument("--out")
    ap.add_argument("--replay")
    a = ap.parse_args()
    if a.replay:
        data = json.load(open(a.replay))
        bad, nreads, sizes = run_case(data["case"])
        print("sizes", sizes, "reads", nreads, "wrong reads", len(bad), bad[:3])
        print("REPRODUCED on the real code" if bad else "not reproduced")
        sys.exit(1 if bad else 0)
    rng = np.random.RandomState(1000 + a.seed)
    t0 = time.time()
    res = dict(cases=0, reads=0, bad_cases=[], samples=[], distinct=set())
    cases = [make_case(rng) for _ in range(a.n)]
    import multiprocessing as mp
    with mp.get_context("spawn").Pool(min(12, a.n)) as pool:
        outs = pool.map(_safe_run, cases)
    for case, out in zip(cases, outs):
        if isinstance(out, str):
            res.setdefault("errors", []).append(out)
            continue
        bad, nreads, sizes = out
        res["cases"] += 1
        res["reads"] += nreads
        res["distinct"].add(json.dumps(case, sort_keys=True))
        if len(res["samples"]) < 3:
            res["samples"].append(dict(case=case, sizes=sizes, reads=nreads, wrong=len(bad)))
        if bad:
            res["bad_cases"].append(dict(case=case, sizes=sizes, wrong_reads=bad[:5], n_wrong=len(bad)))
    res["distinct"] = len(res["distinct"])
    res["wall_s"] = round(time.time() - t0, 1)
    json.dump(res, open(a.out, "w"), indent=1) if a.out else print(json.dumps(res, indent=1))


if __name__ == "__main__":
    main()
