"""BOUNDED stand-in for rex.utils.to_networkx_graph and the stack / index round trip (C14).
usage: c14_convert.py --n N --seed S --out f.json | --replay case.json"""
import argparse, json, os, sys, time, warnings
warnings.filterwarnings("ignore")
REPO = os.environ.get("REX_REPO", "/repo")
sys.path.insert(0, REPO)
import numpy as np


def make_case(rng):
    kinds = ["a", "b", "c"][: int(rng.randint(2, 4))]
    eps = int(rng.randint(1, 4))
    case = dict(kinds=kinds, eps=[], int_ts_first=bool(rng.rand() < 0.3))
    for e in range(eps):
        ep = dict(lens={k: int(rng.randint(1, 7)) for k in kinds}, edges={})
        for u in kinds:
            for v in kinds:
                if u != v and rng.rand() < 0.6:
                    m = int(rng.randint(0, 7))
                    lst = []
                    for i in range(m):
                        so = int(rng.randint(-1, ep["lens"][u]))
                        si = int(rng.randint(-1, ep["lens"][v]))
                        lst.append((so, si, float(rng.rand())))
                    ep["edges"][f"{u}>{v}"] = lst
        case["eps"].append(ep)
    # all episodes must have the same edge keys for stacking
    keys = sorted(set().union(*[set(ep["edges"]) for ep in case["eps"]]))
    for ep in case["eps"]:
        for k in keys:
            ep["edges"].setdefault(k, [])
    return case


def build(case):
    from rex.base import Graph, Vertex, Edge
    gs = []
    for e_idx, ep in enumerate(case["eps"]):
        V = {}
        dummy = bool(case.get("int_ts_first")) and e_idx == 0      # an episode without timestamps: integer dummy values (allowed by the Vertex / Edge docs)
        for k, n in ep["lens"].items():
            ts = np.cumsum(np.ones(n) * 0.1)
            V[k] = Vertex(seq=np.arange(n), ts_start=np.zeros(n, dtype=int), ts_end=np.zeros(n, dtype=int)) if dummy else Vertex(seq=np.arange(n), ts_start=ts, ts_end=ts + 0.05)
        E = {}
        for key, lst in ep["edges"].items():
            u, v = key.split(">")
            E[(u, v)] = Edge(seq_out=np.array([x[0] for x in lst], dtype=int), seq_in=np.array([x[1] for x in lst], dtype=int),
                             ts_recv=np.zeros(len(lst), dtype=int) if dummy else np.array([x[2] for x in lst], dtype=float))
        gs.append(Graph(vertices=V, edges=E))
    return gs


def expected(ep):
    nodes = {f"{k}_{i}" for k, n in ep["lens"].items() for i in range(n)}
    edges = {(f"{k}_{i-1}", f"{k}_{i}") for k, n in ep["lens"].items() for i in range(1, n)}
    for key, lst in ep["edges"].items():
        u, v = key.split(">")
        for so, si, _ in lst:
            if so != -1 and si != -1:
                edges.add((f"{u}_{so}", f"{v}_{si}"))
    return nodes, edges


def run_case(case):
    from rex.base import Graph
    from rex.utils import to_networkx_graph
    gs = build(case)
    bad = []
    stacked = Graph.stack(gs)
    if len(stacked) != len(gs):
        bad.append(f"len(stack)={len(stacked)} != {len(gs)}")
    for e, (g, ep) in enumerate(zip(gs, case["eps"])):
        wn, we = expected(ep)
        for label, gg in (("original", g), ("extracted from stack", stacked[e])):
            class _N:
                order = None
                color = "gray"
            G = to_networkx_graph(gg, nodes={k: _N() for k in ep["lens"]})
            if set(G.nodes) != wn:
                bad.append(f"episode {e} ({label}): nodes differ: extra={sorted(set(G.nodes) - wn)[:4]} missing={sorted(wn - set(G.nodes))[:4]}")
            # the documented default (no node objects): the same vertices and edges
            try:
                G0 = to_networkx_graph(gg)
                if set(G0.nodes) != wn or set(G0.edges) != we:
                    bad.append(f"episode {e} ({label}): to_networkx_graph(graph) without node objects gives other vertices / edges than with them")
            except Exception as ex0:
                bad.append(f"episode {e} ({label}): to_networkx_graph(graph) without node objects raises {type(ex0).__name__}: {ex0}")
            for key, lst in ep["edges"].items():
                u, v = key.split(">")
                got_tr = [float(x) for x in np.asarray(gg.edges[(u, v)].ts_recv)[:len(lst)]]
                want_tr = [0.0] * len(lst) if (case.get("int_ts_first") and e == 0) else [x[2] for x in lst]
                if any(abs(a_ - b_) > 1e-12 for a_, b_ in zip(got_tr, want_tr)):
                    bad.append(f"episode {e} ({label}): receive times of {u}->{v} are {got_tr[:4]}, recorded {want_tr[:4]}")
                    break
            if set(G.edges) != we:
                bad.append(f"episode {e} ({label}): edges differ: extra={sorted(set(G.edges) - we)[:4]} missing={sorted(we - set(G.edges))[:4]}")
            for k in ep["lens"]:
                for i in range(ep["lens"][k]):
                    nd = G.nodes.get(f"{k}_{i}")
                    want_ts = 0.0 if (case.get("int_ts_first") and e == 0) else 0.1 * (i + 1)
                    if nd is not None and abs(float(nd["ts_start"]) - want_ts) > 1e-9:
                        bad.append(f"episode {e} ({label}): vertex {k}_{i} has ts_start {nd['ts_start']}")
    checks = sum(sum(ep["lens"].values()) for ep in case["eps"])
    rb, rc = records_part(case)
    return bad + rb, checks + rc


def records_part(case):
    """records of REAL nodes (one connection under a shadow input name) -> to_graph -> filter: exactly the selected nodes and the connections among them"""
    import numpy as np
    from distrax import Deterministic
    from rex import base
    from rex.base import StaticDist
    from rex.node import BaseNode

    class Nd(BaseNode):
        pass
    kinds = case["kinds"]
    bad, checks = [], 0
    nodes = {k: Nd(k, rate=10.0, delay=0.01, delay_dist=StaticDist.create(Deterministic(0.01))) for k in kinds}
    conns = sorted(case["eps"][0]["edges"])
    for ci, key in enumerate(conns):
        u, v = key.split(">")
        nodes[v].connect(nodes[u], blocking=False, skip=(u > v), delay=0.0, delay_dist=StaticDist.create(Deterministic(0.0)), name=(f"from_{u}" if ci % 2 == 0 else None))
    ep = case["eps"][0]
    recs = {}
    for k in kinds:
        n = ep["lens"][k]
        ts = np.cumsum(np.ones(n) * 0.1)
        steps = base.StepRecord(eps=np.zeros(n, dtype=int), seq=np.arange(n), ts_start=ts, ts_end=ts + 0.05, delay=np.ones(n) * 0.05, rng=None, inputs=None, state=None, output=None)
        ins = {}
        for iname, c in nodes[k].inputs.items():
            lst = ep["edges"][f"{c.output_node.name}>{k}"]
            msgs = base.MessageRecord(seq_out=np.array([x[0] for x in lst], dtype=int), seq_in=np.array([x[1] for x in lst], dtype=int), ts_sent=np.array([x[2] for x in lst]),
                                      ts_recv=np.array([x[2] for x in lst]), delay=np.zeros(len(lst)))
            ins[c.output_node.name] = base.InputRecord(info=nodes[k].info.inputs[c.output_node.name], messages=msgs)
        recs[k] = base.NodeRecord(info=nodes[k].info, clock=None, real_time_factor=1.0, ts_start=0.0, params=None, inputs=ins, steps=steps)
    rec = base.EpisodeRecord(nodes=recs)
    g = rec.to_graph()
    want_e = {tuple(key.split(">")) for key in conns}
    checks += 1
    if set(g.vertices) != set(kinds) or set(g.edges) != want_e:
        bad.append(f"record -> graph: vertices {sorted(g.vertices)} edges {sorted(g.edges)}; recorded connections (sender, receiver) are {sorted(want_e)}")
        return bad, checks
    for (u, v) in want_e:
        lst = ep["edges"][f"{u}>{v}"]
        if [int(x) for x in np.asarray(g.edges[(u, v)].seq_out)] != [x[0] for x in lst] or [int(x) for x in np.asarray(g.edges[(u, v)].seq_in)] != [x[1] for x in lst]:
            bad.append(f"record -> graph: edge {u}->{v} does not carry the recorded messages")
    import itertools
    for r in range(1, len(kinds) + 1):
        for sub in itertools.combinations(kinds, r):
            sel = {k: nodes[k] for k in sub}
            among = {e for e in want_e if e[0] in sub and e[1] in sub}
            for flag in (True, False):
                checks += 2
                fg = g.filter(sel, filter_edges=flag)
                into = {e for e in want_e if e[1] in sub}
                # both flags: precisely the selected nodes and the connections among them (the flag only decides whether the NODE objects' connection lists or
                # the graph's own edges are consulted)
                if set(fg.vertices) != set(sub) or set(fg.edges) != among:
                    bad.append(f"Graph.filter({list(sub)}, filter_edges={flag}): vertices {sorted(fg.vertices)} edges {sorted(fg.edges)}; connections among the selected nodes: {sorted(among)}")
                fr = rec.filter(sel, filter_connections=flag)
                got = {(u, v) for v, nr in fr.nodes.items() for u in nr.inputs}
                if set(fr.nodes) != set(sub) or got != among:
                    bad.append(f"EpisodeRecord.filter({list(sub)}, filter_connections={flag}): nodes {sorted(fr.nodes)} connections {sorted(got)}; among the selected nodes: {sorted(among)}")
    # a selection of CONNECTIONS: node objects that declare all recorded connections but one (for every connection in turn); with the flag on, that connection - and only that one - goes
    for drop in conns:
        nodes2 = {k: Nd(k, rate=10.0, delay=0.01, delay_dist=StaticDist.create(Deterministic(0.01))) for k in kinds}
        for ci, key in enumerate(conns):
            if key != drop:
                u, v = key.split(">")
                nodes2[v].connect(nodes2[u], blocking=False, skip=(u > v), delay=0.0, delay_dist=StaticDist.create(Deterministic(0.0)), name=(f"from_{u}" if ci % 2 == 0 else None))
        for flag in (True, False):
            checks += 2
            want = want_e - {tuple(drop.split(">"))} if flag else want_e
            fg = g.filter(nodes2, filter_edges=flag)
            if set(fg.vertices) != set(kinds) or set(fg.edges) != want:
                bad.append(f"Graph.filter(all nodes, {drop} not declared by the selection, filter_edges={flag}): edges {sorted(fg.edges)}; expected {sorted(want)}")
            fr = rec.filter(nodes2, filter_connections=flag)
            got = {(u, v) for v, nr in fr.nodes.items() for u in nr.inputs}
            goti = {(u, v) for v, nr in fr.nodes.items() for u in nr.info.inputs}
            if set(fr.nodes) != set(kinds) or got != want or goti != want:
                bad.append(f"EpisodeRecord.filter(all nodes, {drop} not declared by the selection, filter_connections={flag}): connections {sorted(got)} / info {sorted(goti)}; expected {sorted(want)}")
    return bad, checks


def main():
    ap = argparse.ArgumentParser()
    ap.add_argument("--n", type=int, default=10)
    ap.add_argument("--seed", type=int, default=0)
    ap.add_argument("--out")
    ap.add_argument("--replay")
    a = ap.parse_args()
    if a.replay:
        d = json.load(open(a.replay))
        bad, _ = run_case(d["case"])
        print("\n".join(bad[:10]))
        print("REPRODUCED on the real code" if bad else "not reproduced")
        sys.exit(1 if bad else 0)
    rng = np.random.RandomState(2000 + a.seed)
    t0 = time.time()
    res = dict(cases=0, checks=0, bad_cases=[], samples=[], distinct=set(), errors=[])
    pinned = False
    for i in range(a.n):
        case = make_case(rng)
        if not pinned and len(case["eps"]) >= 2:      # always at least one stack whose first episode has integer dummy timestamps and a float episode after it
            case["int_ts_first"] = pinned = True
        try:
            bad, nv = run_case(case)
        except Exception as e:
            res["errors"].append(f"{type(e).__name__}: {e}"[:200])
            continue
        res["cases"] += 1
        res["checks"] += nv
        res["distinct"].add(json.dumps(case, sort_keys=True))
        if len(res["samples"]) < 2:
            res["samples"].append(dict(case=case, wrong=len(bad)))
        if bad:
            res["bad_cases"].append(dict(case=case, wrong=bad[:5]))
    res["distinct"] = len(res["distinct"])
    res["wall_s"] = round(time.time() - t0, 1)
    json.dump(res, open(a.out, "w"), indent=1) if a.out else print(json.dumps(res, indent=1)[:3000])


if __name__ == "__main__":
    main()
