"""Native reference results for the library model differential (run under /venv/bin/python).
Reads cases (JSON list of {op, args}) from argv[1], writes results to argv[2]."""
import json, sys, warnings
warnings.filterwarnings("ignore")
import numpy as np
import jax, jax.numpy as jnp


def run(op, a):
    if op == "clip":
        return float(jnp.clip(a["x"], a["lo"], a["hi"]))
    if op == "where":
        return [float(v) for v in jnp.where(jnp.array(a["c"]), jnp.array(a["x"]), jnp.array(a["y"]))]
    if op == "roll":
        return [float(v) for v in jnp.roll(jnp.array(a["x"]), -1, axis=0)]
    if op == "take":
        return [int(v) for v in [jnp.take(jnp.array(a["x"]), i) for i in a["idx"]]]
    if op == "take_arr":
        return [int(v) for v in jnp.take(jnp.array(a["x"]), jnp.array(a["idx"]))]
    if op == "dynamic_slice":
        return [float(v) for v in jax.lax.dynamic_slice(jnp.array(a["x"]), [a["start"]], [a["size"]])]
    if op == "argwhere":
        return int(jnp.argwhere(jnp.array(a["x"]) > a["t"], size=1, fill_value=a["fill"])[0, 0])
    if op == "searchsorted":
        return int(jnp.searchsorted(jnp.array(sorted(a["x"])), a["v"], side=a["side"]))
    if op == "flip":
        return [float(v) for v in jnp.flip(jnp.array(a["x"]))]
    if op == "at_set":
        return [float(v) for v in jnp.array(a["x"]).at[a["i"]].set(a["v"])]
    if op == "pad":
        return [int(v) for v in np.pad(np.array(a["x"]), (0, a["k"]), constant_values=-1)]
    if op == "pymod":
        return [a["a"] % a["b"], a["a"] // a["b"]]
    if op == "floordiv_real":
        return float(a["a"] // a["b"])
    if op == "round6":
        return round(a["x"], 6)
    if op == "interp":
        xp = sorted(a["xp"])
        return [float(v) for v in np.interp(np.array(a["x"]), np.array(xp), np.array(a["fp"]))]
    if op == "max_min":
        return [max(a["x"]), min(a["x"])]
    if op == "int_trunc":
        return int(a["x"])
    if op == "ceil":
        return float(np.ceil(a["x"]))
    if op == "argmin_nan":
        return int(jnp.argmin(jnp.array(a["x"], dtype=jnp.float32)))
    if op == "argsort":
        return [int(v) for v in jnp.argsort(jnp.array(a["x"], dtype=jnp.float32))]
    if op == "nanmax":
        x = jnp.array(a["x"], dtype=jnp.float32)
        return [float(jnp.nanmax(x)), float(jnp.nanmin(x))]
    if op == "arange3":
        r = jnp.arange(a["lo"], a["hi"], a["step"])
        return [int(r.shape[0])] + [int(v) for v in r]
    if op == "stack":
        r = jnp.stack([jnp.float32(v) for v in a["x"]], axis=0)
        return [int(r.shape[0])] + [float(v) for v in r]
    if op == "tree_leaves":
        t = json.loads(a["tree"])
        return [int(v) for v in jax.tree_util.tree_leaves(t)]
    if op == "tree_map_none":
        t = json.loads(a["tree"])
        r = jax.tree_util.tree_map(lambda v: v + 100, t)
        return json.dumps(r, sort_keys=True)
    raise ValueError(op)


cases = json.load(open(sys.argv[1]))
out = []
for c in cases:
    try:
        out.append(run(c["op"], c["args"]))
    except Exception as e:
        out.append({"error": f"{type(e).__name__}: {e}"})
json.dump(out, open(sys.argv[2], "w"))
