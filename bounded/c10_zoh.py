"""BOUNDED stand-in / native replay for C10: the real TrainableDist.apply_delay (zoh) against the statement.
mode "stream": a sender at `rate` sends message k at k/rate; the graph was generated with the MINIMAL delay, so the extended window (W + Wd entries)
holds the last messages with ts_sent + min <= ts_start (dummies seq=-1 on the left at the episode start); the step must get exactly the window a graph
recorded with the static delay d = min + alpha (max - min) would hand it: the last W messages with ts_sent + d <= ts_start.
mode "explicit": arrays taken from a solver model; oracle = the contract clause (slice ending just before the first entry arriving after ts_start).
usage: c10_zoh.py --n N --seed S --out f.json | --replay case.json"""
import argparse, json, math, os, sys, time, warnings
warnings.filterwarnings("ignore")
REPO = os.environ.get("REX_REPO", "/repo")
sys.path.insert(0, REPO)
import numpy as np

# always run: a configuration on which the listed known finding (extended window too small when sends bunch up) shows, so that the check reports it on every run
PINNED = json.loads('''[{"mode": "stream", "rate": 16.0, "mn": 0.0, "mx": 0.0625, "alpha": 1.0, "W": 3, "ts_start": 0.359375, "jitter": 0.05625, "jkey": 374}]''')


def make_case(rng):
    rate = float(rng.choice([4.0, 8.0, 16.0]))
    mn = float(rng.choice([0.0, 1 / 32, 1 / 16, 1 / 8]))
    mx = mn + float(rng.choice([1 / 16, 1 / 8, 1 / 4, 1 / 2]))
    alpha = float(rng.choice([0.0, 0.125, 0.25, 0.5, 0.75, 1.0]))
    W = int(rng.randint(1, 4))
    k_now = int(rng.randint(0, 14))
    # step time: on a message arrival under d (tie), just before / after it, or anywhere
    d = mn + alpha * (mx - mn)
    ts_start = k_now / rate + d + float(rng.choice([0.0, 0.0, 1 / 64, -1 / 64, 1 / 32, 3 / 64]))
    # sender computation-delay jitter: message k is sent at k/rate + e_k (e_k in [0, jitter)), so consecutive sends can be closer than one period
    jitter = float(rng.choice([0.0, 0.0, 0.0, 0.5, 0.9])) / rate
    return dict(mode="stream", rate=rate, mn=mn, mx=mx, alpha=alpha, W=W, ts_start=max(0.0, ts_start), jitter=jitter, jkey=int(rng.randint(0, 1000)))


def run_case(case):
    import jax.numpy as jnp
    from rex.base import TrainableDist, InputState
    bad = []
    if case["mode"] == "stream":
        rate, mn, mx, alpha, W, ts_start = (case[k] for k in ("rate", "mn", "mx", "alpha", "W", "ts_start"))
        dist = TrainableDist(alpha=alpha, min=mn, max=mx, interp="zoh")
        Wd = int(dist.window(rate))
        C = W + Wd
        d = mn + alpha * (mx - mn)
        K = int(math.floor(ts_start * rate)) + 3
        jit = case.get("jitter", 0.0)
        e = np.floor(np.random.RandomState(case.get("jkey", 0)).uniform(0, 1, size=K) * 64) / 64 * jit if jit > 0 else np.zeros(K)
        sent = [k / rate + float(e[k]) for k in range(K)]          # increasing (jitter < one period)
        arrived_min = [k for k in range(K) if sent[k] + mn <= ts_start]
        ext = arrived_min[-C:]
        pad = C - len(ext)
        seq = [-1] * pad + ext
        ts_sent = [0.0] * pad + [sent[k] for k in ext]
        ts_recv = [0.0] * pad + [sent[k] + mn for k in ext]
        arrived_d = [k for k in range(K) if sent[k] + d <= ts_start]
        want_real = arrived_d[-W:]
        want = [-1] * (W - len(want_real)) + want_real
        in_flight = len(arrived_min) - len(arrived_d)
    else:
        seq, ts_sent, ts_recv, W, ts_start = case["seq"], case["ts_sent"], case["ts_recv"], case["W"], case["ts_start"]
        mn, mx, alpha = case["mn"], case["mx"], case["alpha"]
        C = len(seq)
        Wd = C - W
        rate = (Wd - 0.5) / (mx - mn)                  # ceil(rate (max - min)) = Wd
        dist = TrainableDist(alpha=alpha, min=mn, max=mx, interp="zoh")
        if int(dist.window(rate)) != Wd:
            return [], 0
        d = mn + alpha * (mx - mn)
        arr = [ts_recv[k] if seq[k] < 0 else ts_sent[k] + d for k in range(C)]
        late = [k for k in range(C) if arr[k] > ts_start]
        imax = late[0] if late else C
        raw = imax - W + C if imax - W < 0 else imax - W
        start = min(max(raw, 0), C - W)
        want = seq[start:start + W]
    inp = InputState(seq=jnp.array(seq, dtype=jnp.int32), ts_sent=jnp.array(ts_sent, dtype=jnp.float32), ts_recv=jnp.array(ts_recv, dtype=jnp.float32),
                     data=jnp.arange(len(seq), dtype=jnp.float32) * 10.0, delay_dist=dist)
    out = dist.apply_delay(rate, inp, ts_start)
    got = [int(x) for x in np.asarray(out.seq)]
    if len(got) != W:
        bad.append(f"window-length: result has {len(got)} entries, window is {W}")
    elif case["mode"] == "stream":
        # dummies are interchangeable: compare the real entries and the number of dummies
        if [g for g in got if g >= 0] != [w for w in want if w >= 0] or len([g for g in got if g < 0]) != len([w for w in want if w < 0]):
            kind = "extended-window-too-small-for-bunched-sends" if in_flight > Wd else "trainable-differs-from-static"
            bad.append(f"{kind}: step at {ts_start} with trainable delay {d} gets messages {got}; a graph recorded with static delay {d} hands it {want} (extended window {seq}, {in_flight} messages in flight, extension {Wd})")
    elif got != want:
        bad.append(f"slice-clause: apply_delay returns seq {got}, the slice ending just before the first late entry is {want}")
    if not bad and len(got) == W:
        gr = [float(x) for x in np.asarray(out.ts_recv)]
        gs = [float(x) for x in np.asarray(out.ts_sent)]
        for g, r_, s_ in zip(got, gr, gs):
            if g >= 0 and abs(r_ - (s_ + d)) > 1e-5:
                bad.append(f"receive-time: message {g}: receive time {r_} != ts_sent + d = {s_ + d}")
                break
        dd = [float(x) for x in np.asarray(out.data)]
        idx = {s: i for i, s in enumerate(seq)} if case["mode"] == "explicit" else None
    return bad, 1 + W


def _safe(case):
    try:
        return run_case(case)
    except Exception as e:
        import traceback
        return f"{type(e).__name__}: {e} | {traceback.format_exc()[-300:]}"


def main():
    ap = argparse.ArgumentParser()
    ap.add_argument("--n", type=int, default=40)
    ap.add_argument("--seed", type=int, default=0)
    ap.add_argument("--out")
    ap.add_argument("--replay")
    a = ap.parse_args()
    if a.replay:
        d = json.load(open(a.replay))
        bad, _ = run_case(d["case"])
        if d.get("kinds"):
            bad = [b for b in bad if b.split(":")[0] in d["kinds"]]
        print("\n".join(bad[:10]))
        print("REPRODUCED on the real code" if bad else "not reproduced")
        sys.exit(1 if bad else 0)
    rng = np.random.RandomState(7000 + a.seed)
    t0 = time.time()
    cases = PINNED + [make_case(rng) for _ in range(a.n)]
    res = dict(cases=0, checks=0, bad_cases=[], samples=[], distinct=len({json.dumps(c, sort_keys=True) for c in cases}), errors=[])
    for case in cases:
        out = _safe(case)
        if isinstance(out, str):
            res["errors"].append(out)
            continue
        bad, checks = out
        res["cases"] += 1
        res["checks"] += checks
        if len(res["samples"]) < 2:
            res["samples"].append(dict(case=case, checks=checks, wrong=len(bad)))
        if bad:
            res["bad_cases"].append(dict(case=case, kinds=sorted({b.split(":")[0] for b in bad}), wrong=bad[:6]))
    res["wall_s"] = round(time.time() - t0, 1)
    json.dump(res, open(a.out, "w"), indent=1) if a.out else print(json.dumps(res, indent=1)[:3000])


if __name__ == "__main__":
    main()
