"""BOUNDED stand-in for the threaded runtime as a whole (C03 / C04 / C06 / C13 / C02): episodes of the REAL AsyncGraph on the simulated clock
(probe nodes, jit off, so every executed step leaves a host-side trace), several episodes on the same graph object from the same initial state,
checked against the statements from the records and from the probes' own traces. Every wrong thing carries a `kind` tag prefixed by the property
it belongs to; a check reports only its own kinds.
usage: c03_async_episodes.py --n N --seed S --out f.json [--props C03,C04] | --replay case.json"""
import argparse, json, os, sys, time, warnings
warnings.filterwarnings("ignore")
REPO = os.environ.get("REX_REPO", "/repo")
sys.path.insert(0, REPO)
import numpy as np

TOL = 2e-6


def make_case(rng):
    d = dict(rates=[float(x) for x in rng.choice([5, 10, 20, 40], size=3)], win=[int(rng.randint(1, 4)) for _ in range(4)], blocking=[bool(rng.rand() < 0.35) for _ in range(3)],
                skip01=bool(rng.rand() < 0.2), jit_delay=bool(rng.rand() < 0.6), overrun=bool(rng.rand() < 0.3), sched=str(rng.choice(["FREQUENCY", "FREQUENCY", "PHASE"])),
                advance=False, steps=[int(rng.randint(4, 11)) for _ in range(3)], episodes=int(rng.choice([2, 3])), seed=int(rng.randint(0, 1000)), max_records=int(rng.choice([20000, 20000, 6])))
    d["advance"] = bool(d["blocking"][0] and rng.rand() < 0.4)      # advance needs a blocking input in simulated mode
    return d


def run_case(case):
    import jax, jax.numpy as jnp
    from distrax import Deterministic, Normal
    from flax import struct
    from rex.base import Base, StepState
    from rex.node import BaseNode
    from rex.asynchronous import AsyncGraph
    from rex.constants import Clock, RealTimeFactor, Scheduling

    @struct.dataclass
    class St(Base):
        acc: jax.Array

    @struct.dataclass
    class Out(Base):
        y: jax.Array

    trace = {}

    class Nd(BaseNode):
        def init_params(self, rng=None, graph_state=None):
            return St(jnp.array(0.5))

        def init_state(self, rng=None, graph_state=None):
            return St(jnp.array(1.0))

        def init_output(self, rng=None, graph_state=None):
            return Out(jnp.array(-7.0))

        def step(self, ss: StepState):
            # host-side trace (jit is off for every node): what this call really saw
            trace.setdefault(self.name, []).append(dict(seq=int(ss.seq), ts=float(ss.ts), acc=float(ss.state.acc),
                                                        inputs={k: [int(x) for x in np.asarray(i.seq)] for k, i in ss.inputs.items()}))
            new_rng, k = jax.random.split(ss.rng)
            acc = 0.9 * ss.state.acc + jax.random.uniform(k) + 0.001 * ss.seq
            return ss.replace(rng=new_rng, state=St(acc)), Out(acc)
    r = case["rates"]
    base_a = (1.3 if case["overrun"] else 0.3) / r[0]
    cd = lambda m: Normal(m, m / 4) if case["jit_delay"] else Deterministic(m)
    sched = getattr(Scheduling, case["sched"])
    a = Nd("a", rate=r[0], delay_dist=cd(base_a), scheduling=sched)
    b = Nd("b", rate=r[1], delay_dist=cd(0.2 / r[1]), scheduling=sched, advance=case["advance"])
    c = Nd("c", rate=r[2], delay_dist=Deterministic(0.1 / r[2]))
    b.connect(a, window=case["win"][0], blocking=case["blocking"][0], skip=case["skip01"], delay_dist=cd(0.004))
    c.connect(b, window=case["win"][1], blocking=case["blocking"][1], delay_dist=cd(0.003))
    c.connect(a, window=case["win"][2], blocking=case["blocking"][2], delay_dist=Deterministic(0.002))
    a.connect(c, window=case["win"][3], blocking=False, skip=True, delay_dist=Deterministic(0.002))
    nodes = {"a": a, "b": b, "c": c}
    ag = AsyncGraph(nodes=nodes, supervisor=c, clock=Clock.SIMULATED, real_time_factor=RealTimeFactor.FAST_AS_POSSIBLE)
    ag.set_record_settings(params=True, rng=True, inputs=True, state=True, output=True, max_records=case["max_records"])
    gs0 = ag.init(jax.random.PRNGKey(case["seed"]))
    ag.warmup(gs0, jit_step=False)       # probes need their host-side effects: no jit
    for v in trace.values():
        v.clear()          # warm-up calls
    eps = []

    def own_phase(n, seen=()):
        """longest expected-delay path into node n over its non-skipped connections, from the DECLARED delays (independent of BaseNode.phase)"""
        if n in seen:
            return 0.0
        return max([0.0] + [own_phase(cn.output_node.name, seen + (n,)) + float(cn.output_node.delay) + float(cn.delay) for cn in nodes[n].inputs.values() if not cn.skip])
    redelay = case.get("redelay", case["seed"] % 3 == 0)
    phases = []
    for ep in range(case["episodes"]):
        if redelay and ep >= 1:
            # C04 / C16 over a history: the expected delay of the most upstream node (and of one connection) changes between episodes on the SAME node objects;
            # the next episode must be scheduled with the phases that follow from the new values
            a.set_delay(delay=float(a.delay) + 0.011 * ep)
            b.inputs["a"].set_delay(delay=float(b.inputs["a"].delay) + 0.004)      # (two hops upstream of the supervisor)
        phases.append({n: own_phase(n) for n in nodes})
        for v in trace.values():
            v.clear()
        gs, ss = ag.reset(gs0)       # reset()/step(): stop() right after run() can block (C05, outside this technique)
        for _ in range(case["steps"][ep % len(case["steps"])]):
            gs, ss = ag.step(gs)
        ag.stop()
        eps.append((ag.get_record(), {k: list(v) for k, v in trace.items()}))
    bad, checks = [], 0
    W = {("a", "b"): case["win"][0], ("b", "c"): case["win"][1], ("a", "c"): case["win"][2], ("c", "a"): case["win"][3]}
    for ep, (rec, tr) in enumerate(eps):
        S = {n: rec.nodes[n].steps for n in nodes}
        for n, nd in nodes.items():
            seq = np.asarray(S[n].seq)
            ts, te, dl = np.asarray(S[n].ts_start, dtype=np.float64), np.asarray(S[n].ts_end, dtype=np.float64), np.asarray(S[n].delay, dtype=np.float64)
            k = len(seq)
            checks += 1
            if not np.array_equal(seq, np.arange(k)):
                bad.append(("C03-ticks-not-gap-free", f"eps {ep} {n}: recorded seq {seq.tolist()[:12]}"))
                continue
            # C06: the probe's own trace vs the record (the last traced call may still be unrecorded: its output is produced after the record row)
            calls = [t["seq"] for t in tr.get(n, [])]
            truncated = k >= case["max_records"]
            # the supervisor's newest row is the step that is still waiting for the user's step() call when the episode is stopped
            pending = 1 if n == "c" else 0
            if calls != list(range(len(calls))) or len(calls) < k - pending or (not truncated and len(calls) > k + 1):
                bad.append(("C06-step-not-exactly-once", f"eps {ep} {n}: step was called for seq {calls[:14]}, record has {k} rows"))
            # C13: what the record says the step saw = what the probe saw
            for j in range(min(k, len(tr.get(n, [])))):
                t = tr[n][j]
                if abs(t["ts"] - ts[j]) > max(TOL, 2e-7 * abs(ts[j])) or abs(t["acc"] - float(np.asarray(S[n].state.acc)[j])) > 1e-5:
                    bad.append(("C13-record-differs-from-what-the-step-saw", f"eps {ep} {n} step {j}: probe ts/state {t['ts']}/{t['acc']}, record {ts[j]}/{float(np.asarray(S[n].state.acc)[j])}"))
                    break
                for iname, seen in t["inputs"].items():
                    recw = [int(x) for x in np.asarray(S[n].inputs[iname].seq)[j]]
                    if recw != seen:
                        bad.append(("C13-record-differs-from-what-the-step-saw", f"eps {ep} {n} step {j} input {iname}: probe window {seen}, record {recw}"))
                        break
            if k == 0:
                continue
            # C04: start-time law (necessary conditions that hold for every configuration)
            if (te < ts - TOL).any() or (np.abs(te - ts - dl) > TOL).any():
                bad.append(("C04-end-is-not-start-plus-delay", f"eps {ep} {n}"))
            if (ts[1:] < te[:-1] - TOL).any():
                bad.append(("C04-step-starts-before-previous-ended", f"eps {ep} {n}"))
            sched_ts = np.round(np.arange(k) / nd.rate + phases[ep][n], 6)
            only_blocking = len(nd.inputs) > 0 and all(cn.blocking for cn in nd.inputs.values())
            if not (nd.advance and only_blocking) and (ts < sched_ts - TOL).any():
                j = int(np.argmax(ts < sched_ts - TOL))
                bad.append(("C04-starts-before-its-scheduled-time", f"eps {ep} {n} step {j}: start {ts[j]} < scheduled {sched_ts[j]}"))
            if ts[0] > sched_ts[0] + TOL and not any(cn.blocking for cn in nd.inputs.values()):
                bad.append(("C04-first-step-not-at-phase", f"eps {ep} {n}: first start {ts[0]}, phase {sched_ts[0]} (no blocking input, fresh episode: no drift)"))
            # the law itself: start_k = max(scheduled_k + drift_k, end_{k-1}, last awaited blocking arrival); FREQUENCY: an overrun (previous end after this
            # tick's scheduled time) shifts all later scheduled times by that amount; PHASE: no accumulated drift
            blk = np.zeros(k)
            for cn in nd.inputs.values():
                if not cn.blocking:
                    continue
                mm = rec.nodes[n].inputs[cn.output_node.name].messages
                for q, r_ in zip(np.asarray(mm.seq_in), np.asarray(mm.ts_recv, dtype=np.float64)):
                    if 0 <= q < k:
                        blk[int(q)] = max(blk[int(q)], r_)
            drift = 0.0
            for j in range(k):
                prev_end = te[j - 1] if j > 0 else 0.0
                cands = [prev_end, blk[j]] + ([] if (nd.advance and only_blocking) else [sched_ts[j] + drift])
                want = max(cands)
                tolj = max(TOL, 2e-7 * abs(want)) + 1e-6      # rounding to 1e-6 inside the runtime
                if abs(ts[j] - want) > tolj:
                    bad.append(("C04-start-time-law", f"eps {ep} {n} step {j}: start {ts[j]}, law gives max(scheduled {sched_ts[j]} + drift {drift}, previous end {prev_end}, blocking arrival {blk[j]}) = {want}"))
                    break
                if nd.scheduling.name == "FREQUENCY":
                    drift = max(drift, prev_end - sched_ts[j])
        for (u, w), win in W.items():
            cn = [x for x in nodes[w].inputs.values() if x.output_node.name == u][0]
            iname = [kk for kk, x in nodes[w].inputs.items() if x is cn][0]
            m = rec.nodes[w].inputs[u].messages
            so, si = np.asarray(m.seq_out), np.asarray(m.seq_in)
            sent, recv = np.asarray(m.ts_sent, dtype=np.float64), np.asarray(m.ts_recv, dtype=np.float64)
            checks += 1
            if not np.array_equal(so, np.arange(len(so))):
                bad.append(("C03-message-lost-duplicated-or-reordered", f"eps {ep} {u}->{w}: consumed seq_out {so.tolist()[:14]}"))
                continue
            if (np.diff(si) < 0).any():
                bad.append(("C03-consumed-out-of-order", f"eps {ep} {u}->{w}: seq_in {si.tolist()[:14]}"))
            if (recv < sent - 5e-7 - 1e-9).any():
                bad.append(("C03-received-before-sent", f"eps {ep} {u}->{w}"))
            if (np.diff(recv) < -TOL).any():
                bad.append(("C03-not-fifo", f"eps {ep} {u}->{w}: receive times decrease"))
            te_u = np.asarray(S[u].ts_end, dtype=np.float64)
            n_u = min(len(so), len(te_u))
            if n_u and (np.abs(sent[:n_u] - te_u[:n_u]) > TOL).any():
                bad.append(("C04-message-not-sent-at-the-senders-end-time", f"eps {ep} {u}->{w}"))
            ts_w = np.asarray(S[w].ts_start, dtype=np.float64)
            for j in range(len(so)):
                s = int(si[j])
                if s >= len(ts_w):
                    continue
                late = recv[j] > ts_w[s] + TOL if not cn.skip else recv[j] >= ts_w[s] - TOL and recv[j] > ts_w[s] - TOL and not (recv[j] < ts_w[s] - TOL)
                if recv[j] > ts_w[s] + TOL:
                    bad.append(("C03-consumed-before-it-arrived", f"eps {ep} {u}->{w} msg {j}: recv {recv[j]}, consuming step {s} starts {ts_w[s]}"))
                    break
                if not cn.blocking and s > 0 and (recv[j] < ts_w[s - 1] - TOL if not cn.skip else recv[j] < ts_w[s - 1] - TOL):
                    bad.append(("C03-non-blocking-message-consumed-late", f"eps {ep} {u}->{w} msg {j}: recv {recv[j]} but step {s - 1} (start {ts_w[s - 1]}) did not take it"))
                    break
            # window seen by step k = last `win` consumed messages, oldest first
            winrec = np.asarray(S[w].inputs[iname].seq)
            for kstep in range(min(len(winrec), len(ts_w))):
                consumed = [int(x) for x in so[si <= kstep]]
                want = consumed[-win:]
                got = [int(x) for x in winrec[kstep] if x >= 0]
                if got != want:
                    bad.append(("C03-window-is-not-the-last-consumed-messages", f"eps {ep} {w} step {kstep} input {iname}: window {got}, last {win} consumed {want}"))
                    break
    # C02 (and episode isolation): every episode starts from the same graph state, so it must reproduce the first one on the common prefix
    rec0 = eps[0][0]
    for ep in range(1, len(eps) if not redelay else 1):        # (not when the declared delays are changed between the episodes: those episodes are meant to differ)
        rec = eps[ep][0]
        for n in nodes:
            for fld in ("ts_start", "ts_end"):
                x0, x1 = np.asarray(getattr(rec0.nodes[n].steps, fld), dtype=np.float64), np.asarray(getattr(rec.nodes[n].steps, fld), dtype=np.float64)
                m = min(len(x0), len(x1)) - 1        # the tail may be cut at different points when the episodes have different lengths
                checks += 1
                if m > 0 and (np.abs(x0[:m] - x1[:m]) > TOL).any():
                    j = int(np.argmax(np.abs(x0[:m] - x1[:m]) > TOL))
                    bad.append(("C02-episode-not-reproducible-from-the-same-state", f"eps {ep} vs 0, {n}.{fld}[{j}]: {x1[j]} vs {x0[j]}"))
                    break
            for u in rec.nodes[n].inputs:
                r0, r1 = np.asarray(rec0.nodes[n].inputs[u].messages.ts_recv, dtype=np.float64), np.asarray(rec.nodes[n].inputs[u].messages.ts_recv, dtype=np.float64)
                m = min(len(r0), len(r1)) - 2
                if m > 0 and (np.abs(r0[:m] - r1[:m]) > TOL).any():
                    j = int(np.argmax(np.abs(r0[:m] - r1[:m]) > TOL))
                    bad.append(("C02-episode-not-reproducible-from-the-same-state", f"eps {ep} vs 0, {u}->{n}.ts_recv[{j}]: {r1[j]} vs {r0[j]}"))
    return [dict(kind=k, what=w) for k, w in bad], checks


def _child(case, q):
    try:
        q.put(run_case(case))
    except Exception as e:
        import traceback
        q.put(f"{type(e).__name__}: {e} | {traceback.format_exc()[-500:]}")
    q.close()
    q.join_thread()       # flush before leaving without waiting for the node threads
    os._exit(0)


def run_with_timeout(case, timeout=240):
    import multiprocessing as mp
    ctx = mp.get_context("spawn")
    q = ctx.Queue()
    p = ctx.Process(target=_child, args=(case, q))
    p.start()
    try:
        out = q.get(timeout=timeout)
    except Exception:
        out = "timeout (lifecycle call did not return: outside this check)"
    p.join(5)
    if p.is_alive():
        p.kill()
    return out


def main():
    ap = argparse.ArgumentParser()
    ap.add_argument("--n", type=int, default=8)
    ap.add_argument("--seed", type=int, default=0)
    ap.add_argument("--out")
    ap.add_argument("--props", default="")
    ap.add_argument("--replay")
    a = ap.parse_args()
    if a.replay:
        d = json.load(open(a.replay))
        out = run_with_timeout(d["case"])
        bad = [] if isinstance(out, str) else out[0]
        kinds = d.get("kinds")
        if kinds:
            bad = [b for b in bad if b["kind"] in kinds]
        print("\n".join(f"{b['kind']}: {b['what']}" for b in bad[:10]))
        print("REPRODUCED on the real code" if bad else "not reproduced")
        sys.exit(1 if bad else 0)
    rng = np.random.RandomState(3000 + a.seed)
    t0 = time.time()
    cases = [make_case(rng) for _ in range(a.n)]
    # a history with delay changes between episodes, whatever the seeds of the random cases are
    cases.append(dict(cases[0], redelay=True, episodes=max(2, cases[0]["episodes"])))
    from concurrent.futures import ThreadPoolExecutor
    with ThreadPoolExecutor(max_workers=min(8, a.n)) as pool:
        outs = list(pool.map(run_with_timeout, cases))
    props = [p for p in a.props.split(",") if p]
    res = dict(cases=0, checks=0, bad_cases=[], samples=[], distinct=len({json.dumps(c, sort_keys=True) for c in cases}), errors=[])
    for case, out in zip(cases, outs):
        if isinstance(out, str):
            res["errors"].append(out)
            continue
        bad, checks = out
        if props:
            bad = [b for b in bad if b["kind"].split("-")[0] in props]
        res["cases"] += 1
        res["checks"] += checks
        if len(res["samples"]) < 2:
            res["samples"].append(dict(case=case, checks=checks, wrong=len(bad)))
        if bad:
            res["bad_cases"].append(dict(case=case, kinds=sorted({b["kind"] for b in bad}), wrong=[f"{b['kind']}: {b['what']}" for b in bad[:6]]))
    res["wall_s"] = round(time.time() - t0, 1)
    json.dump(res, open(a.out, "w"), indent=1) if a.out else print(json.dumps(res, indent=1)[:3000])


if __name__ == "__main__":
    main()
