"""BOUNDED stand-in for C11 on payload shapes / dtypes (PyVC analyses one scalar leaf): the real TrainableDist.apply_delay (linear variants)
against a float64 numpy reference of the statement - entry j of the result = the sender's piecewise-linear signal at
(arrival-spacing-shifted) step time minus delay - for scalar, vector and matrix payloads, in steady state (all window entries real).
usage: c11_interp.py --n N --seed S --out f.json | --replay case.json"""
import argparse, json, os, sys, time, warnings
warnings.filterwarnings("ignore")
REPO = os.environ.get("REX_REPO", "/repo")
sys.path.insert(0, REPO)
import numpy as np


def make_case(rng):
    return dict(variant=str(rng.choice(["linear", "linear_real_only"])), window=int(rng.randint(1, 4)), rate=float(rng.choice([4.0, 8.0, 16.0])),
                dmax=float(rng.choice([0.125, 0.25, 0.5])), frac=float(rng.choice([0.0, 0.25, 0.5, 0.8, 1.0])), shape=[int(x) for x in [(), (3,), (2, 2), (1,)][int(rng.randint(0, 4))]],
                offset=float(rng.choice([0.0, 0.01, 0.03])), key=int(rng.randint(0, 1000)),
                dtype=str(rng.choice(["float32", "float32", "float16"])), t0=float(rng.choice([0.0, 20.0])))


def run_case(case):
    import jax.numpy as jnp
    from rex.base import TrainableDist, InputState
    d_val = case["frac"] * case["dmax"]
    dist = TrainableDist.create(delay=d_val, min=0.0, max=case["dmax"], interp=case["variant"])
    W, rate = case["window"], case["rate"]
    C = W + dist.window(rate)
    rs = np.random.RandomState(case["key"])
    ts = case.get("t0", 0.0) + np.arange(C) / rate         # also late in an episode, where narrow float types resolve time coarsely
    dt = getattr(np, case.get("dtype", "float32"))
    data = rs.normal(size=(C,) + tuple(case["shape"])).astype(dt)      # payload leaves may be narrower than the timestamps
    inp = InputState(seq=jnp.arange(C), ts_sent=jnp.array(ts, dtype=jnp.float32), ts_recv=jnp.array(ts, dtype=jnp.float32), data=jnp.array(data), delay_dist=dist)
    ts_start = float(ts[-1] + d_val + case["offset"])      # all messages have arrived: steady state
    out = dist.apply_delay(rate, inp, ts_start)
    got = np.array(out.data)
    bad = []
    if got.shape != (W,) + tuple(case["shape"]):
        return [f"result shape {got.shape} != {(W,) + tuple(case['shape'])}"], 1
    knots = ts + d_val
    q = knots[C - W:] + (ts_start - knots[C - 1])
    flat = data.reshape(C, -1).astype(np.float64)
    ref = np.stack([np.interp(q, knots, flat[:, j]) for j in range(flat.shape[1])], axis=1).reshape((W,) + tuple(case["shape"]))
    tol = 2e-4 if dt is np.float32 else 6e-3          # the result is cast back to the payload's dtype: one rounding of that type is allowed
    if got.dtype != dt:
        bad.append(f"result dtype {got.dtype} != payload dtype {np.dtype(dt)}")
    if not np.allclose(got.astype(np.float64), ref, atol=tol):
        bad.append(f"payload differs from the piecewise-linear signal: got {got.reshape(W, -1)[:, :3].tolist()} want {ref.reshape(W, -1)[:, :3].tolist()}")
    lo = np.minimum(flat[C - W - 1:C - 1], flat[C - W:]).reshape((W,) + tuple(case["shape"])) if C - W - 1 >= 0 else None
    return bad, W * max(1, int(np.prod(case["shape"])))


def _safe(case):
    try:
        return run_case(case)
    except Exception as e:
        import traceback
        return f"{type(e).__name__}: {e} | {traceback.format_exc()[-300:]}"


def main():
    ap = argparse.ArgumentParser()
    ap.add_argument("--n", type=int, default=12)
    ap.add_argument("--seed", type=int, default=0)
    ap.add_argument("--out")
    ap.add_argument("--replay")
    a = ap.parse_args()
    if a.replay:
        d = json.load(open(a.replay))
        bad, _ = run_case(d["case"])
        print("\n".join(bad[:10]))
        print("REPRODUCED on the real code" if bad else "not reproduced")
        sys.exit(1 if bad else 0)
    rng = np.random.RandomState(5000 + a.seed)
    t0 = time.time()
    cases = [make_case(rng) for _ in range(a.n)]
    cases[0].update(shape=[3], window=3, variant="linear")
    cases[1 % len(cases)].update(shape=[2, 2], window=2, variant="linear_real_only")
    cases[2 % len(cases)].update(dtype="float16", t0=20.0, window=2, shape=[3], variant="linear", rate=16.0, dmax=0.25, frac=0.5)
    res = dict(cases=0, checks=0, bad_cases=[], samples=[], distinct=len({json.dumps(c, sort_keys=True) for c in cases}), errors=[])
    for case in cases:
        out = _safe(case)
        if isinstance(out, str):
            res["errors"].append(out)
            continue
        bad, checks = out
        res["cases"] += 1
        res["checks"] += checks
        if len(res["samples"]) < 2:
            res["samples"].append(dict(case=case, checks=checks, wrong=len(bad)))
        if bad:
            res["bad_cases"].append(dict(case=case, wrong=bad[:4]))
    res["wall_s"] = round(time.time() - t0, 1)
    json.dump(res, open(a.out, "w"), indent=1) if a.out else print(json.dumps(res, indent=1)[:3000])


if __name__ == "__main__":
    main()
