"""BOUNDED stand-in for the compiled runtime as a whole (C09 / C06 / C13): the real generate_graphs -> Graph(...) pipeline with probe nodes
(every executed step reports (node, seq) to the host through an ordered io_callback), re-checked against the statements:
 C09  run^n ; run_until_supervisor == reset ; step^n == rollout(n) ; run_until_supervisor on every field of the graph state, jit on and off; passing the
      supervisor's own step result to step() == letting step() run it; params / starting step / starting episode given to init() are what the steps see, clipped.
 C06  every scheduled tick inside the horizon runs exactly once, in per-node order; masked ticks and skipped nodes zero times.
 C13  recording changes nothing but the record; recorded rows carry the step's own seq / ts / state, never-executed rows stay -1, state before step k+1 = state after step k.
usage: c09_compiled_api.py --n N --seed S --out f.json [--props C09,C06] | --replay case.json"""
import argparse, json, os, sys, time, warnings
warnings.filterwarnings("ignore")
REPO = os.environ.get("REX_REPO", "/repo")
sys.path.insert(0, REPO)
import numpy as np


def make_case(rng):
    return dict(rates=[float(x) for x in rng.choice([2, 5, 10, 20, 25], size=3)], win=[int(rng.randint(1, 4)) for _ in range(4)], ts_max=float(rng.choice([1.0, 1.5])), eps=int(rng.choice([1, 2, 3])),
                key=int(rng.randint(0, 1000)), jitter=bool(rng.rand() < 0.5), mode=str(rng.choice(["MCS", "GENERATIONAL", "TOPOLOGICAL"])), prune=bool(rng.rand() < 0.5),
                skip=bool(rng.rand() < 0.25), names=str(rng.choice(["plain", "plain", "prefix"])), start_step=int(rng.choice([0, 0, 1, 2, 50, -3])), start_eps=int(rng.choice([0, 1, 2, 7, -1])),
                n=int(rng.randint(1, 5)), jit=bool(rng.rand() < 0.5), given_params=bool(rng.rand() < 0.5))


PINNED_MISMATCH = [dict(rates=[20.0, 5.0, 2.0], win=[2, 1, 2, 1], ts_max=1.5, eps=2, key=11, jitter=True, mode="MCS", prune=False, skip=False, names="plain", start_step=0, start_eps=0, n=2, jit=True, given_params=False),
                   dict(rates=[25.0, 10.0, 5.0], win=[1, 2, 1, 1], ts_max=1.0, eps=3, key=5, jitter=True, mode="GENERATIONAL", prune=True, skip=False, names="prefix", start_step=0, start_eps=1, n=3, jit=False, given_params=True)]


def tree_diff(a, b, jax):
    la, ta = jax.tree_util.tree_flatten(a)
    lb, tb = jax.tree_util.tree_flatten(b)
    if ta != tb:
        return "tree structure differs"
    for i, (x, y) in enumerate(zip(la, lb)):
        x, y = np.asarray(x), np.asarray(y)
        # integers (sequence numbers, counters, rng keys) must be identical; floats may differ by rounding between eagerly executed and XLA-fused code (JAX, not rex)
        same = x.shape == y.shape and (np.allclose(x, y, rtol=2e-5, atol=2e-6, equal_nan=True) if np.issubdtype(x.dtype, np.floating) else np.array_equal(x, y))
        if not same:
            return f"leaf {i} differs (max abs diff {float(np.max(np.abs(x.astype(float) - y.astype(float)))) if x.shape == y.shape and x.size else 'shape'})"
    return None


def run_case(case):
    import jax, jax.numpy as jnp
    from jax.experimental import io_callback
    from distrax import Deterministic, Normal
    from flax import struct
    from rex.artificial import generate_graphs
    from rex.base import Base, StepState
    from rex.graph import Graph
    from rex.node import BaseNode
    import rex.constants as const
    log = []

    wrong_reads = []

    def host(code, seq, mism):
        log.append((int(code), int(seq)))
        if int(mism) > 0:
            wrong_reads.append((int(code), int(seq), int(mism)))
        return np.int32(0)

    @struct.dataclass
    class St(Base):
        cnt: jax.Array
        acc: jax.Array

    @struct.dataclass
    class Out(Base):
        y: jax.Array
        sseq: jax.Array        # the producer's own sequence number travels with the payload (default output: -1)

    class N(BaseNode):
        code = 0

        def init_params(self, rng=None, graph_state=None):
            return St(jnp.array(0), jnp.array(0.25))

        def init_state(self, rng=None, graph_state=None):
            return St(jnp.array(0), jnp.array(1.0))

        def init_output(self, rng=None, graph_state=None):
            return Out(jnp.array(-7.0), jnp.array(-1))

        def step(self, ss: StepState):
            # C08: every window entry must carry the payload of the message the schedule names (its own seq), or the default output for a negative seq
            mism = sum([jnp.sum(jnp.where(i.seq >= 0, i.data.sseq != i.seq, i.data.sseq != -1)) for i in ss.inputs.values()], 0)
            io_callback(host, jax.ShapeDtypeStruct((), jnp.int32), jnp.int32(self.code), ss.seq, jnp.int32(mism), ordered=True)
            new_rng, k = jax.random.split(ss.rng)
            tot = sum([jnp.sum(jnp.where(i.seq >= 0, i.data.y + 0.01 * i.seq, 0.0)) for i in ss.inputs.values()], 0.0)
            acc = 0.9 * ss.state.acc + 0.1 * tot + jax.random.uniform(k) + ss.params.acc
            if case.get("mismatch") and self.code == 1:
                # a payload whose dtype differs from the declared default output (float32): lax.cond cannot unify the masked step with its no-op
                return ss.replace(rng=new_rng, state=St(ss.state.cnt + 1, acc)), Out(acc.astype(jnp.int32), jnp.asarray(ss.seq))
            return ss.replace(rng=new_rng, state=St(ss.state.cnt + 1, acc)), Out(acc, jnp.asarray(ss.seq))
    r = case["rates"]
    nm = {"plain": ("a", "b", "c"), "prefix": ("a", "a_x", "c")}[case["names"]]
    a = N(name=nm[0], rate=r[0], delay_dist=Normal(0.3 / r[0], 0.08 / r[0]) if case["jitter"] else Deterministic(0.3 / r[0]))
    b = N(name=nm[1], rate=r[1], delay_dist=Deterministic(0.2 / r[1]))
    c = N(name=nm[2], rate=r[2], delay_dist=Deterministic(0.1 / r[2]))
    a.code, b.code, c.code = 0, 1, 2
    b.connect(a, window=case["win"][0], blocking=False, delay_dist=Deterministic(0.01))
    c.connect(b, window=case["win"][1], blocking=False, delay_dist=Deterministic(0.005))
    c.connect(a, window=case["win"][2], blocking=False, delay_dist=Deterministic(0.0))
    a.connect(c, window=case["win"][3], blocking=False, skip=True, delay_dist=Deterministic(0.002))
    nodes = {n.name: n for n in (a, b, c)}
    g = generate_graphs(nodes, case["ts_max"], num_episodes=case["eps"], rng=jax.random.PRNGKey(case["key"]))
    skip = [nm[0]] if case["skip"] else None
    graph = Graph(nodes=nodes, supervisor=c, graphs_raw=g, supergraph=getattr(const.Supergraph, case["mode"]), prune=case["prune"], progress_bar=False, skip=skip)
    T = jax.tree_util.tree_map(np.asarray, graph.timings)
    n_eps, n_steps = next(iter(T.slots.values())).run.shape
    bad, checks = [], 0
    J = (lambda f: jax.jit(f)) if case["jit"] else (lambda f: f)
    run, rus, step, reset = J(graph.run), J(graph.run_until_supervisor), J(graph.step), J(graph.reset)
    given = {nm[1]: St(jnp.array(0), jnp.array(0.75))} if case["given_params"] else None
    gs0 = graph.init(jax.random.PRNGKey(case["key"] + 1), params=given, starting_step=case["start_step"], starting_eps=case["start_eps"])
    e0, s0 = min(max(case["start_eps"], 0), n_eps - 1), min(max(case["start_step"], 0), n_steps - 1)
    checks += 3
    if int(gs0.eps) != e0 or int(gs0.step) != s0:
        bad.append(("C09-init-index-not-clipped", f"init(starting_eps={case['start_eps']}, starting_step={case['start_step']}) gives eps {int(gs0.eps)}, step {int(gs0.step)}; clipped values are {e0}, {s0}"))
    if given is not None and float(gs0.params[nm[1]].acc) != 0.75:
        bad.append(("C09-given-params-not-used", f"params given for {nm[1]} are not what the graph state holds"))
    n = case["n"]

    def scheduled():
        code_of = {nm[0]: 0, nm[1]: 1, nm[2]: 2}
        want = {k: [] for k in code_of}
        for p in range(s0, min(s0 + n + 1, n_steps)):
            for gen in T.to_generation():
                for sname, s in gen.items():
                    if s.run[e0, p] and not (skip and s.kind in skip) and not (s.kind == nm[2] and p == s0 + n):
                        want[s.kind].append(int(s.seq[e0, p]))
        return code_of, want
    if case.get("mismatch"):
        # C06 under a tracing failure of the masked execution: either the graph refuses the node (TypeError, nothing is executed) or what it executes is exactly the schedule
        log.clear()
        try:
            x = gs0
            for _ in range(n):
                x = run(x)
            rus(x)
            jax.effects_barrier()
        except TypeError:
            return [], 1
        code_of, want = scheduled()
        if s0 + n + 1 <= n_steps:
            for kind, code in code_of.items():
                got = [q for (cd, q) in log if cd == code]
                if got != want[kind]:
                    bad.append(("C06-executed-ticks-differ-from-schedule", f"{kind} (payload dtype differs from its default output; lax.cond could not unify the masked step): executed seqs {got[:20]}, scheduled (unmasked, not skipped) {want[kind][:20]}"))
        return [dict(kind=k, what=w) for k, w in bad], len(code_of)
    # ---- the three driving styles
    log.clear()
    x = gs0
    for _ in range(n):
        x = run(x)
    r1 = rus(x)
    jax.effects_barrier()
    log_run = list(log)
    log.clear()
    y, ss = reset(gs0)
    for _ in range(n):
        y, ss = step(y)
    jax.effects_barrier()
    log_step = list(log)
    log.clear()
    r3 = rus(graph.rollout(gs0, max_steps=n, carry_only=True))
    jax.effects_barrier()
    log_roll = list(log)
    checks += 1
    # only for episodes run from their first partition and inside the horizon: a later start has empty rings for the messages produced before it, and beyond the
    # horizon the step counter is clipped and partitions repeat
    # (and not with a skip list: a skipped producer never writes its ring - its output is the user's business)
    if wrong_reads and s0 == 0 and s0 + n + 1 <= n_steps and not skip:
        names = {0: nm[0], 1: nm[1], 2: nm[2]}
        bad.append(("C08-window-payload-is-not-the-scheduled-message", f"{len(wrong_reads)} steps saw a window entry whose payload is not the message the schedule names; first: "
                    f"{names[wrong_reads[0][0]]} step {wrong_reads[0][1]} ({wrong_reads[0][2]} entries)"))
    for tag, other in (("reset;step^n", y), ("rollout(n);run_until_supervisor", r3)):
        checks += 1
        d = tree_diff(jax.tree_util.tree_map(np.asarray, r1.replace(timings_eps=None)), jax.tree_util.tree_map(np.asarray, other.replace(timings_eps=None)), jax)
        if d:
            bad.append(("C09-driving-apis-disagree", f"run^{n};run_until_supervisor vs {tag}: {d}"))
    # ---- the supervisor's own step result handed to step()
    y1, ss1 = reset(gs0)
    own_ss, own_out = c.step(ss1)
    za, _ = graph.step(y1)
    zb, _ = graph.step(y1, own_ss, own_out)
    checks += 1
    d = tree_diff(jax.tree_util.tree_map(np.asarray, za.replace(timings_eps=None)), jax.tree_util.tree_map(np.asarray, zb.replace(timings_eps=None)), jax)
    if d:
        bad.append(("C09-own-step-result-differs-from-internal-step", d))
    # ---- C06: executed ticks of the run-style drive vs the schedule
    code_of = {nm[0]: 0, nm[1]: 1, nm[2]: 2}
    want = {k: [] for k in code_of}
    gens = T.to_generation()
    for p in range(s0, min(s0 + n + 1, n_steps)):
        for gi, gen in enumerate(gens):
            for sname, s in gen.items():
                if s.run[e0, p] and not (skip and s.kind in skip):
                    # supervisor's step p runs inside run() number p - s0 + 1; the last run_until_supervisor stops before it
                    if s.kind == nm[2] and p == s0 + n:
                        continue
                    want[s.kind].append(int(s.seq[e0, p]))
    if s0 + n + 1 <= n_steps:        # inside the horizon only (beyond it the step counter is clipped and partitions repeat)
        for kind, code in code_of.items():
            got = [q for (cd, q) in log_run if cd == code]
            checks += 1
            if got != want[kind]:
                bad.append(("C06-executed-ticks-differ-from-schedule", f"{kind}: executed seqs {got[:20]}, scheduled (unmasked, not skipped) {want[kind][:20]}"))
        if sorted(log_step) != sorted(log_run) or sorted(log_roll) != sorted(log_run):
            bad.append(("C06-executed-ticks-depend-on-the-driving-api", f"run: {len(log_run)} calls, reset/step: {len(log_step)}, rollout: {len(log_roll)}"))
    # ---- C13: recording is inert and faithful
    gsr = graph.init_record(gs0, params=True, rng=True, inputs=False, state=True, output=True)
    xr = gsr
    for _ in range(n):
        xr = run(xr) if not case["jit"] else jax.jit(graph.run)(xr)
    xr = graph.run_until_supervisor(xr)
    checks += 1
    d = tree_diff(jax.tree_util.tree_map(np.asarray, r1.replace(timings_eps=None, aux=None)), jax.tree_util.tree_map(np.asarray, xr.replace(timings_eps=None, aux=None)), jax)
    if d:
        bad.append(("C13-recording-changes-the-execution", d))
    rec = jax.tree_util.tree_map(np.asarray, xr.aux["record"])
    if s0 + n + 1 <= n_steps:
        for kind in code_of:
            st = rec.nodes[kind].steps
            seqs = np.asarray(st.seq)
            executed = want[kind] + ([int(T.slots[graph._supervisor_slot].seq[e0, s0 + n])] if kind == nm[2] else [])
            checks += 1
            rows = sorted(int(q) for q in seqs if q >= 0)
            if rows != sorted(set(executed)) and not (skip and kind in skip):
                bad.append(("C13-record-rows-differ-from-executed-steps", f"{kind}: rows with seq >= 0: {rows[:20]}, executed: {sorted(set(executed))[:20]}"))
                continue
            for q in rows:
                if int(seqs[q]) != q:
                    bad.append(("C13-row-not-at-its-own-sequence-number", f"{kind}: row {q} holds seq {int(seqs[q])}"))
                    break
            cnt = np.asarray(st.state.cnt)
            first = min(rows) if rows else 0
            for q in rows:
                if int(cnt[q]) != q - first + int(cnt[first]):
                    bad.append(("C13-recorded-state-is-not-the-state-the-step-saw", f"{kind}: row {q} records state.cnt {int(cnt[q])}; the step before it left {q - first + int(cnt[first])}"))
                    break
    return [dict(kind=k, what=w) for k, w in bad], checks


def _safe(case):
    try:
        return run_case(case)
    except Exception as e:
        import traceback
        return f"{type(e).__name__}: {e} | {traceback.format_exc()[-500:]}"


def main():
    ap = argparse.ArgumentParser()
    ap.add_argument("--n", type=int, default=8)
    ap.add_argument("--seed", type=int, default=0)
    ap.add_argument("--out")
    ap.add_argument("--props", default="")
    ap.add_argument("--replay")
    a = ap.parse_args()
    if a.replay:
        d = json.load(open(a.replay))
        out = _safe(d["case"])
        bad = [] if isinstance(out, str) else out[0]
        if isinstance(out, str):
            print(out)
        kinds = d.get("kinds")
        if kinds:
            bad = [b for b in bad if b["kind"] in kinds]
        print("\n".join(f"{b['kind']}: {b['what']}" for b in bad[:10]))
        print("REPRODUCED on the real code" if bad else "not reproduced")
        sys.exit(1 if bad else 0)
    rng = np.random.RandomState(9000 + a.seed)
    t0 = time.time()
    cases = [make_case(rng) for _ in range(a.n)]
    # C06 under a tracing failure: pinned multi-rate jittery graphs whose middle node returns a payload of another dtype than it declared, plus every 4th random case again with that node
    cases += [dict(c, mismatch=True) for c in PINNED_MISMATCH] + [dict(c, mismatch=True, skip=False) for c in cases[::4]]
    import multiprocessing as mp
    with mp.get_context("spawn").Pool(min(12, a.n)) as pool:
        outs = pool.map(_safe, cases)
    props = [p for p in a.props.split(",") if p]
    res = dict(cases=0, checks=0, bad_cases=[], samples=[], distinct=len({json.dumps(c, sort_keys=True) for c in cases}), errors=[])
    for case, out in zip(cases, outs):
        if isinstance(out, str):
            res["errors"].append(out)
            continue
        bad, checks = out
        if props:
            bad = [b for b in bad if b["kind"].split("-")[0] in props]
        res["cases"] += 1
        res["checks"] += checks
        if len(res["samples"]) < 2:
            res["samples"].append(dict(case=case, checks=checks, wrong=len(bad)))
        if bad:
            res["bad_cases"].append(dict(case=case, kinds=sorted({b["kind"] for b in bad}), wrong=[f"{b['kind']}: {b['what']}" for b in bad[:6]]))
    res["wall_s"] = round(time.time() - t0, 1)
    json.dump(res, open(a.out, "w"), indent=1) if a.out else print(json.dumps(res, indent=1)[:3000])


if __name__ == "__main__":
    main()
