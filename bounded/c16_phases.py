"""BOUNDED stand-in for C16 (phases on whole topologies): real BaseNode / connect / set_delay on random directed graphs with random skip flags.
Oracle (networkx-free, own DFS): a node whose upstream over non-skipped connections contains a cycle must raise RecursionError mentioning
'Algebraic loop detected'; every other node's phase must equal the longest expected-delay path into it; after a set_delay the phases must follow.
usage: c16_phases.py --n N --seed S --out f.json | --replay case.json"""
import argparse, json, os, sys, time, warnings
warnings.filterwarnings("ignore")
REPO = os.environ.get("REX_REPO", "/repo")
sys.path.insert(0, REPO)
import numpy as np


def make_case(rng):
    n = int(rng.randint(1, 6))
    edges = []
    for i in range(n):
        for j in range(n):
            if rng.rand() < (0.35 if i != j else 0.08):
                # `jitter`: the connection's delay DISTRIBUTION is non-degenerate while its expected delay is given explicitly (also exactly 0.0)
                edges.append(dict(src=i, dst=j, skip=bool(rng.rand() < 0.35), delay=float(rng.choice([0.0, 0.0, 0.01, 0.05, 0.2])), jitter=bool(rng.rand() < 0.4),
                                  name=(f"in{i}" if rng.rand() < 0.3 else None)))
    return dict(n=n, delays=[float(rng.choice([0.0, 0.01, 0.03, 0.1])) for _ in range(n)], edges=edges,
                change=dict(node=int(rng.randint(0, n)), delay=float(rng.choice([0.0, 0.07, 0.5]))))


def oracle(case, delays):
    n = case["n"]
    ins = {j: [(e["src"], e["delay"]) for e in case["edges"] if e["dst"] == j and not e["skip"]] for j in range(n)}
    # a connection registered twice under the same sender name is overwritten by the later one (dict keyed by input name = sender name)
    state, val = {}, {}

    def visit(j):
        if state.get(j) == 1:
            return None             # on the stack: cycle
        if state.get(j) == 2:
            return val[j]
        state[j] = 1
        best = 0.0
        for (i, d) in ins[j]:
            p = visit(i)
            if p is None:
                state[j] = 3
                val[j] = None
                return None
            best = max(best, p + delays[i] + d)
        state[j] = 2
        val[j] = best
        return best
    out = []
    for j in range(n):
        state = {k: v for k, v in state.items() if v == 2 and val.get(k) is not None}
        out.append(visit(j))
    return out


def run_case(case):
    import distrax
    from rex.node import BaseNode
    from rex.base import StaticDist

    class Nd(BaseNode):
        pass
    bad = []
    nodes = [Nd(f"n{i}", rate=10.0, delay=case["delays"][i], delay_dist=StaticDist.create(distrax.Deterministic(loc=case["delays"][i]))) for i in range(case["n"])]
    seen = set()
    edges = []
    for e in case["edges"]:
        if (e["src"], e["dst"]) in seen:
            continue
        seen.add((e["src"], e["dst"]))
        edges.append(e)
        dd = distrax.Normal(loc=e["delay"] + 0.01, scale=0.002) if e.get("jitter") else distrax.Deterministic(loc=e["delay"])
        nodes[e["dst"]].connect(nodes[e["src"]], skip=e["skip"], blocking=False, delay=e["delay"], delay_dist=StaticDist.create(dd), name=e.get("name"))
    case = dict(case, edges=edges)

    def compare(tag, delays):
        want = oracle(case, delays)
        n_checks = 0
        for j, nd in enumerate(nodes):
            n_checks += 1
            try:
                got = float(nd.phase)
                if want[j] is None:
                    bad.append(f"{tag}: n{j} lies behind an un-skipped cycle but its phase is {got} (no algebraic loop reported)")
                elif abs(got - want[j]) > 1e-9:
                    bad.append(f"{tag}: phase(n{j}) = {got}, longest expected-delay path = {want[j]}")
            except RecursionError as ex:
                if want[j] is not None:
                    bad.append(f"{tag}: n{j} has no un-skipped cycle upstream but reading its phase raises RecursionError")
                elif "Algebraic loop detected" not in str(ex):
                    bad.append(f"{tag}: the cycle behind n{j} is not reported as an algebraic loop: {str(ex)[:80]}")
        return n_checks
    checks = compare("initial", case["delays"])
    # info round trip: nodes rebuilt from their infos (from_info + connect_from_info) have equal infos, connections and phases
    try:
        if any(v is None for v in oracle(case, case["delays"])):
            raise StopIteration        # an algebraic loop: infos cannot be built (the phase is part of them)
        infos = {nd.name: nd.info for nd in nodes}
        rebuilt = {k: Nd.from_info(v) for k, v in infos.items()}
        for nd in rebuilt.values():
            nd.connect_from_info(infos[nd.name].inputs, rebuilt)
        for nd in nodes:
            r2 = rebuilt[nd.name]
            checks += 1
            a_in = {k: (c.output_node.name, c.skip, float(c.delay), c.window) for k, c in nd.inputs.items()}
            b_in = {k: (c.output_node.name, c.skip, float(c.delay), c.window) for k, c in r2.inputs.items()}
            if a_in != b_in:
                bad.append(f"round trip: connections of {nd.name} differ: {a_in} vs rebuilt {b_in}")
                continue
            try:
                pa = float(nd.phase)
            except RecursionError:
                pa = None
            try:
                pb = float(r2.phase)
            except RecursionError:
                pb = None
            if (pa is None) != (pb is None) or (pa is not None and abs(pa - pb) > 1e-9):
                bad.append(f"round trip: phase of {nd.name} is {pa}, rebuilt node has {pb}")
    except StopIteration:
        pass
    except Exception as ex_rt:
        bad.append(f"round trip raised {type(ex_rt).__name__}: {str(ex_rt)[:160]}")
    ch = case["change"]
    nodes[ch["node"]].set_delay(delay=ch["delay"], delay_dist=StaticDist.create(distrax.Deterministic(loc=ch["delay"])))
    d2 = list(case["delays"])
    d2[ch["node"]] = ch["delay"]
    checks += compare(f"after set_delay(n{ch['node']}, {ch['delay']})", d2)
    return bad, checks


def _safe(case):
    try:
        return run_case(case)
    except Exception as e:
        import traceback
        return f"{type(e).__name__}: {e} | {traceback.format_exc()[-400:]}"


def main():
    ap = argparse.ArgumentParser()
    ap.add_argument("--n", type=int, default=40)
    ap.add_argument("--seed", type=int, default=0)
    ap.add_argument("--out")
    ap.add_argument("--replay")
    a = ap.parse_args()
    if a.replay:
        d = json.load(open(a.replay))
        bad, _ = run_case(d["case"])
        print("\n".join(bad[:10]))
        print("REPRODUCED on the real code" if bad else "not reproduced")
        sys.exit(1 if bad else 0)
    rng = np.random.RandomState(16000 + a.seed)
    t0 = time.time()
    cases = [make_case(rng) for _ in range(a.n)]
    res = dict(cases=0, checks=0, bad_cases=[], samples=[], distinct=len({json.dumps(c, sort_keys=True) for c in cases}), errors=[])
    for case in cases:
        out = _safe(case)
        if isinstance(out, str):
            res["errors"].append(out)
            continue
        bad, checks = out
        res["cases"] += 1
        res["checks"] += checks
        if len(res["samples"]) < 2:
            res["samples"].append(dict(case=case, checks=checks, wrong=len(bad)))
        if bad:
            res["bad_cases"].append(dict(case=case, wrong=bad[:6]))
    res["wall_s"] = round(time.time() - t0, 1)
    json.dump(res, open(a.out, "w"), indent=1) if a.out else print(json.dumps(res, indent=1)[:3000])


if __name__ == "__main__":
    main()
