"""BOUNDED stand-in for the composition glue of C01: an episode recorded by the REAL threaded runtime (simulated clock) is converted to a
graph, compiled, re-executed from the same initial per-node rng / params / state, and every step inside the horizon is compared field by field.
usage: c01_replay.py --n N --seed S --out f.json | --replay case.json"""
import argparse, json, os, sys, time, warnings
warnings.filterwarnings("ignore")
REPO = os.environ.get("REX_REPO", "/repo")
sys.path.insert(0, REPO)
import numpy as np


def make_case(rng):
    return dict(rates=[float(x) for x in rng.choice([5, 10, 20, 40], size=3)], win=[int(rng.randint(1, 4)) for _ in range(4)], blocking=[bool(rng.rand() < 0.3) for _ in range(3)],
                jitter_buf=[bool(rng.rand() < 0.2) for _ in range(3)], jit_delay=bool(rng.rand() < 0.6), sched=str(rng.choice(["FREQUENCY", "PHASE"])), steps=int(rng.randint(6, 14)),
                mode=str(rng.choice(["MCS", "GENERATIONAL", "TOPOLOGICAL"])), prune=bool(rng.rand() < 0.5), seed=int(rng.randint(0, 1000)), episodes=int(rng.choice([1, 1, 2])))


def run_case(case):
    import jax, jax.numpy as jnp
    from distrax import Deterministic, Normal
    from flax import struct
    from rex.base import Base, StepState
    from rex.node import BaseNode
    from rex.asynchronous import AsyncGraph
    from rex.graph import Graph
    from rex.constants import Clock, RealTimeFactor, Scheduling, Jitter, Supergraph
    import rex.base as base

    @struct.dataclass
    class St(Base):
        acc: jax.Array

    @struct.dataclass
    class Out(Base):
        y: jax.Array

    class Nd(BaseNode):
        def init_params(self, rng=None, graph_state=None):
            return St(jnp.array(0.5))

        def init_state(self, rng=None, graph_state=None):
            return St(jnp.array(1.0))

        def init_output(self, rng=None, graph_state=None):
            return Out(jnp.array(-7.0))

        def step(self, ss: StepState):
            new_rng, k = jax.random.split(ss.rng)
            noise = jax.random.uniform(k)
            # entries that are not filled yet (negative seq) may carry any negative seq / arbitrary times: only filled entries may influence the step
            tot = sum([jnp.sum(jnp.where(i.seq >= 0, i.data.y + 0.01 * i.seq + i.ts_recv + 0.5 * i.ts_sent, 0.0)) + 0.1 * jnp.sum(i.data.y) for i in ss.inputs.values()], 0.0)
            acc = 0.9 * ss.state.acc + 0.1 * tot + noise + 0.001 * ss.seq + ss.ts
            return ss.replace(rng=new_rng, state=St(acc)), Out(acc + ss.params.acc)
    r = case["rates"]
    cd = lambda m: Normal(m, m / 4) if case["jit_delay"] else Deterministic(m)
    sched = getattr(Scheduling, case["sched"])
    a = Nd("a", rate=r[0], delay_dist=cd(0.3 / r[0]), scheduling=sched)
    b = Nd("b", rate=r[1], delay_dist=cd(0.2 / r[1]), scheduling=sched)
    c = Nd("c", rate=r[2], delay_dist=Deterministic(0.1 / r[2]))
    jt = lambda i: Jitter.BUFFER if case["jitter_buf"][i] else Jitter.LATEST
    b.connect(a, window=case["win"][0], blocking=case["blocking"][0], jitter=jt(0), delay_dist=cd(0.004))
    c.connect(b, window=case["win"][1], blocking=case["blocking"][1], jitter=jt(1), delay_dist=cd(0.003))
    c.connect(a, window=case["win"][2], blocking=case["blocking"][2], jitter=jt(2), delay_dist=Deterministic(0.002))
    a.connect(c, window=case["win"][3], blocking=False, skip=True, delay_dist=Deterministic(0.002))
    nodes = {"a": a, "b": b, "c": c}
    ag = AsyncGraph(nodes=nodes, supervisor=c, clock=Clock.SIMULATED, real_time_factor=RealTimeFactor.FAST_AS_POSSIBLE)
    ag.set_record_settings(params=True, rng=True, inputs=True, state=True, output=True)
    gs0 = ag.init(jax.random.PRNGKey(case["seed"]))
    ag.warmup(gs0)
    records = []
    for ep in range(case["episodes"]):
        # reset()/step() API: stop() directly after run() can block forever (lost cancel; C05, outside this technique)
        gs, ss = ag.reset(gs0)
        for _ in range(case["steps"]):
            gs, ss = ag.step(gs)
        ag.stop()
        records.append(ag.get_record())
    exp = base.ExperimentRecord(episodes=records)
    graphs = exp.to_graph()
    cg = Graph(nodes=nodes, supervisor=c, graphs_raw=graphs, supergraph=getattr(Supergraph, case["mode"]), prune=case["prune"], progress_bar=False)
    bad, checks = [], 0
    for ep in range(case["episodes"]):
        cgs = cg.init(jax.random.PRNGKey(case["seed"]), starting_eps=ep)
        # same initial per-node rng / params / state as the asynchronous run
        cgs = cgs.replace(rng=gs0.rng, params=gs0.params, state=gs0.state)
        cgs = cg.init_record(cgs, params=False, rng=True, inputs=True, state=True, output=True)
        final = cg.rollout(cgs, carry_only=True)
        crec = jax.tree_util.tree_map(np.array, final.aux["record"])
        arec = records[ep]
        for name in nodes:
            A, C = arec.nodes[name].steps, crec.nodes[name].steps
            nC = int(np.sum(np.array(C.seq) >= 0))
            nA = len(np.array(A.seq))
            n = min(nA, nC)
            for k in range(n):
                checks += 1
                if int(C.seq[k]) != int(A.seq[k]) or abs(float(C.ts_start[k]) - float(A.ts_start[k])) > 1e-5:
                    bad.append(f"eps {ep} {name} step {k}: compiled seq/ts {int(C.seq[k])}/{float(C.ts_start[k]):.6f} vs async {int(A.seq[k])}/{float(A.ts_start[k]):.6f}")
                    break
                if not np.array_equal(np.array(C.rng[k]), np.array(A.rng[k])):
                    bad.append(f"eps {ep} {name} step {k}: rng differs")
                    break
                if abs(float(C.state.acc[k]) - float(A.state.acc[k])) > 1e-4 * max(1.0, abs(float(A.state.acc[k]))):
                    bad.append(f"eps {ep} {name} step {k}: state before the step differs: compiled {float(C.state.acc[k])} async {float(A.state.acc[k])}")
                    break
                if abs(float(C.output.y[k]) - float(A.output.y[k])) > 1e-4 * max(1.0, abs(float(A.output.y[k]))):
                    bad.append(f"eps {ep} {name} step {k}: output differs: compiled {float(C.output.y[k])} async {float(A.output.y[k])}")
                    break
                stop = False
                for iname in A.inputs:
                    ia, ic = A.inputs[iname], C.inputs[iname]
                    sa, sc = np.array(ia.seq[k]), np.array(ic.seq[k])
                    real = sa >= 0
                    if not (np.array_equal(sa[real], sc[real]) and np.all(sc[~real] < 0)):
                        bad.append(f"eps {ep} {name} step {k} input {iname}: window seq compiled {sc.tolist()} async {sa.tolist()}")
                        stop = True
                        break
                    if not (np.allclose(np.array(ia.ts_sent[k])[real], np.array(ic.ts_sent[k])[real], atol=1e-5) and np.allclose(np.array(ia.ts_recv[k])[real], np.array(ic.ts_recv[k])[real], atol=1e-5)
                            and np.allclose(np.array(ia.data.y[k]), np.array(ic.data.y[k]), rtol=1e-4, atol=1e-4)):   # payloads of unfilled entries = default output on both sides
                        bad.append(f"eps {ep} {name} step {k} input {iname}: window times / payloads differ")
                        stop = True
                        break
                if stop:
                    break
            if n == 0:
                bad.append(f"eps {ep} {name}: nothing to compare (async {nA}, compiled {nC})")
    return bad[:8], checks


def _safe(case):
    try:
        return run_case(case)
    except Exception as e:
        import traceback
        return f"{type(e).__name__}: {e} | {traceback.format_exc()[-500:]}"


def main():
    ap = argparse.ArgumentParser()
    ap.add_argument("--n", type=int, default=6)
    ap.add_argument("--seed", type=int, default=0)
    ap.add_argument("--out")
    ap.add_argument("--replay")
    a = ap.parse_args()
    if a.replay:
        d = json.load(open(a.replay))
        out = _safe(d["case"])
        print(out if isinstance(out, str) else "\n".join(out[0]))
        bad = (not isinstance(out, str)) and bool(out[0])
        print("REPRODUCED on the real code" if bad else "not reproduced")
        sys.exit(1 if bad else 0)
    rng = np.random.RandomState(6000 + a.seed)
    t0 = time.time()
    cases = [make_case(rng) for _ in range(a.n)]
    import multiprocessing as mp
    pool = mp.get_context("spawn").Pool(min(8, a.n))
    asyncs = [pool.apply_async(_safe, (c,)) for c in cases]
    outs = []
    deadline = time.time() + 240
    for r in asyncs:
        try:
            outs.append(r.get(timeout=max(1, deadline - time.time())))
        except mp.TimeoutError:
            outs.append("timeout: the episode did not finish within the budget (case skipped)")
    pool.terminate()
    res = dict(cases=0, checks=0, bad_cases=[], samples=[], distinct=len({json.dumps(c, sort_keys=True) for c in cases}), errors=[])
    for case, out in zip(cases, outs):
        if isinstance(out, str):
            res["errors"].append(out)
            continue
        bad, checks = out
        res["cases"] += 1
        res["checks"] += checks
        if len(res["samples"]) < 2:
            res["samples"].append(dict(case=case, checks=checks, wrong=len(bad)))
        if bad:
            res["bad_cases"].append(dict(case=case, wrong=bad[:6]))
    res["wall_s"] = round(time.time() - t0, 1)
    json.dump(res, open(a.out, "w"), indent=1) if a.out else print(json.dumps(res, indent=1)[:3000])


if __name__ == "__main__":
    main()
