"""Extraction: the verified text is the code that runs.

Every run re-reads /repo/rex/*.py from the working tree with `ast` (no import) and looks
functions up by qualified name.  Nothing is cached across runs."""
import ast, hashlib, os

REPO = os.environ.get("REX_REPO", "/repo")


class SourceError(Exception):
    pass


class Module:
    def __init__(self, relpath):
        self.relpath = relpath
        self.path = os.path.join(REPO, relpath)
        try:
            self.text = open(self.path).read()
        except OSError as e:
            raise SourceError(f"cannot read {self.path}: {e}")
        try:
            self.tree = ast.parse(self.text)
        except SyntaxError as e:
            raise SourceError(f"cannot parse {self.path}: {e}")
        self.lines = self.text.splitlines()
        self._globals = None

    def find(self, qual):
        """qual = 'Class.method' or 'outer.inner' (nested defs; searched through compound statements)."""
        node = self.tree
        for part in qual.split("."):
            nxt = None
            for c in _defs_in(node):
                if c.name == part:
                    nxt = c
                    break
            if nxt is None:
                raise SourceError(f"{self.relpath}: no definition {qual!r} (missing {part!r})")
            node = nxt
        return node

    def segment(self, node):
        return ast.get_source_segment(self.text, node) or ""

    def sha(self, node):
        return hashlib.sha256(self.segment(node).encode()).hexdigest()[:16]

    def loc(self, node):
        return (node.end_lineno or node.lineno) - node.lineno + 1

    def toplevel(self):
        """name -> ('import', dotted) | ('from', module, name) | ('def', node) | ('class', node) | ('assign', node)"""
        if self._globals is not None:
            return self._globals
        g = {}
        for st in self.tree.body:
            if isinstance(st, ast.Import):
                for a in st.names:
                    g[a.asname or a.name.split(".")[0]] = ("import", a.name if a.asname else a.name.split(".")[0])
            elif isinstance(st, ast.ImportFrom):
                for a in st.names:
                    g[a.asname or a.name] = ("from", st.module, a.name)
            elif isinstance(st, (ast.FunctionDef,)):
                g[st.name] = ("def", st)
            elif isinstance(st, ast.ClassDef):
                g[st.name] = ("class", st)
            elif isinstance(st, ast.Assign) and len(st.targets) == 1 and isinstance(st.targets[0], ast.Name):
                g[st.targets[0].id] = ("assign", st.value)
            elif isinstance(st, ast.AnnAssign) and isinstance(st.target, ast.Name) and st.value is not None:
                g[st.target.id] = ("assign", st.value)
            elif isinstance(st, ast.Try):  # try: import x as y / except ImportError
                for s2 in st.body:
                    if isinstance(s2, ast.Import):
                        for a in s2.names:
                            g.setdefault(a.asname or a.name.split(".")[0], ("import", a.name if a.asname else a.name.split(".")[0]))
                    elif isinstance(s2, ast.ImportFrom):
                        for a in s2.names:
                            g.setdefault(a.asname or a.name, ("from", s2.module, a.name))
            elif isinstance(st, ast.If):  # TYPE_CHECKING imports etc.
                for s2 in st.body:
                    if isinstance(s2, ast.ImportFrom):
                        for a in s2.names:
                            g.setdefault(a.asname or a.name, ("from", s2.module, a.name))
        self._globals = g
        return g


def _defs_in(node):
    """function/class definitions directly inside node (looking through if/for/try/with bodies)."""
    out = []
    body = getattr(node, "body", [])
    stack = list(body)
    for extra in ("orelse", "finalbody", "handlers"):
        pass
    while stack:
        st = stack.pop(0)
        if isinstance(st, (ast.FunctionDef, ast.ClassDef, ast.AsyncFunctionDef)):
            out.append(st)
        elif isinstance(st, (ast.If, ast.For, ast.While, ast.With, ast.Try)):
            stack = list(getattr(st, "body", [])) + list(getattr(st, "orelse", [])) + stack
    return out


class Repo:
    def __init__(self):
        self.mods = {}

    def module(self, relpath):
        if relpath not in self.mods:
            self.mods[relpath] = Module(relpath)
        return self.mods[relpath]

    def dotted_to_relpath(self, dotted):
        """'rex.base' -> 'rex/base.py' if it exists in the repo"""
        p = dotted.replace(".", "/") + ".py"
        if os.path.exists(os.path.join(REPO, p)):
            return p
        p2 = dotted.replace(".", "/") + "/__init__.py"
        if os.path.exists(os.path.join(REPO, p2)):
            return p2
        return None

    def find(self, target):
        """target = 'rex/asynchronous.py::_AsyncNodeWrapper.push_step' -> (Module, node)"""
        rel, qual = target.split("::")
        m = self.module(rel)
        return m, m.find(qual)

    def class_def(self, relpath, name):
        m = self.module(relpath)
        g = m.toplevel()
        if name in g and g[name][0] == "class":
            return m, g[name][1]
        if name in g and g[name][0] == "from":
            rp = self.dotted_to_relpath(g[name][1])
            if rp:
                return self.class_def(rp, g[name][2])
        raise SourceError(f"{relpath}: class {name} not found")

    def class_mro(self, relpath, name):
        """[(Module, ClassDef)] own class first, then bases resolvable inside the repo."""
        out = []
        try:
            m, c = self.class_def(relpath, name)
        except SourceError:
            return out
        out.append((m, c))
        for b in c.bases:
            bn = b.id if isinstance(b, ast.Name) else (b.attr if isinstance(b, ast.Attribute) else None)
            if bn is None:
                continue
            if isinstance(b, ast.Attribute) and isinstance(b.value, ast.Name):
                g = m.toplevel().get(b.value.id)
                if g and g[0] in ("from", "import"):
                    dotted = (g[1] + "." + g[2]) if g[0] == "from" else g[1]
                    rp = self.dotted_to_relpath(dotted)
                    if rp:
                        out += self.class_mro(rp, bn)
                continue
            out += self.class_mro(m.relpath, bn)
        return out

    def class_member(self, relpath, clsname, attr):
        for m, c in self.class_mro(relpath, clsname):
            for st in c.body:
                if isinstance(st, ast.FunctionDef) and st.name == attr:
                    return m, st
                if isinstance(st, ast.Assign) and any(isinstance(t, ast.Name) and t.id == attr for t in st.targets):
                    return m, st
                if isinstance(st, ast.AnnAssign) and isinstance(st.target, ast.Name) and st.target.id == attr and st.value is not None:
                    return m, st
        return None

    def dataclass_fields(self, relpath, clsname):
        """ordered field names of a @struct.dataclass (bases first)."""
        names = []
        for m, c in reversed(self.class_mro(relpath, clsname)):
            for st in c.body:
                if isinstance(st, ast.AnnAssign) and isinstance(st.target, ast.Name):
                    if st.target.id not in names:
                        names.append(st.target.id)
        return names

    def dataclass_defaults(self, relpath, clsname):
        d = {}
        for m, c in reversed(self.class_mro(relpath, clsname)):
            for st in c.body:
                if isinstance(st, ast.AnnAssign) and isinstance(st.target, ast.Name) and st.value is not None:
                    d[st.target.id] = (m, st.value)
        return d
