"""Library model table: every entry is an ASSUMED contract on a dependency (python builtins,
numpy/jax.numpy, jax.lax, jax.tree_util, collections.deque, ...).  Each model that is actually
used during a run is recorded in ex.assumptions_used and listed in the evidence's trusted_base."""
import ast, operator
import z3
from .values import *
from .interp import RaiseEx, _DictView, _Zip, _Enumerate, _SymRange, CutPath
from . import interp as I


def used(ex, name):
    ex.assumptions_used.add(name)


def is_num(v):
    return isinstance(v, (int, float)) and not isinstance(v, bool) or isinstance(v, bool)


def isz(v, sort):
    return is_sym(v) and v.sort() == sort


class AtIdx:
    def __init__(self, arr, idx):
        self.arr, self.idx = arr, idx


class AtRef:
    def __init__(self, arr):
        self.arr = arr


class Shape:
    def __init__(self, dims):
        self.dims = tuple(dims)


def norm_index(i, n):
    """python / numpy negative index normalisation"""
    if isinstance(i, int) and not isinstance(i, bool):
        return toz(i) if i >= 0 else n + i
    i = toz(i)
    return z3.If(i < 0, i + n, i)


def py_floordiv(ex, a, b):
    """Python // on ints / reals through a quotient witness (floor semantics)"""
    a, b = num2(a, b)
    if a.sort() == INT:
        used(ex, "int // and % follow Python floor semantics (quotient witness), divisor non-zero is an obligation")
        ex.oblige("division-by-nonzero", b != 0, kind="safety")
        q, r = PYDIV(a, b), PYMOD(a, b)   # same terms wherever the same operands occur; ground instance of the pymod/pydiv axiom:
        ex.assume(a == q * b + r)
        ex.assume(z3.If(b > 0, z3.And(0 <= r, r < b), z3.And(b < r, r <= 0)))
        return q, r
    used(ex, "float // is floor of the real quotient (floats as reals)")
    ex.oblige("division-by-nonzero", b != 0, kind="safety")
    q = ex.fresh("q", INT)
    r = ex.fresh("r", REAL)
    ex.assume(a == z3.ToReal(q) * b + r)
    ex.assume(z3.If(b > 0, z3.And(0 <= r, r < b), z3.And(b < r, r <= 0)))
    return z3.ToReal(q), r


class Library:
    def __init__(self):
        self.ns = {}
        self.builtins = {}
        self.rec_methods = {}  # (cls, attr) -> callable(ex, obj) -> value
        self.install()

    # ---- namespaces ------------------------------------------------------------
    def namespace(self, dotted):
        if dotted in self.ns:
            return self.ns[dotted]
        raise Unsupported(f"no library model for module {dotted}")

    def repo_module(self, ex, relpath):
        """`from rex import base` -> attribute access resolves in that module's globals"""
        key = "repo:" + relpath
        if key not in self.ns:
            lib = self

            class RepoNS(NS):
                def get(self_ns, attr):
                    return ex_holder[0].module_global(ex_holder[0].repo.module(relpath), attr)

            ex_holder = [ex]
            n = RepoNS(relpath)
            n.ex_holder = ex_holder
            self.ns[key] = n
        self.ns[key].ex_holder[0] = ex
        return self.ns[key]

    def builtin(self, name):
        return self.builtins.get(name)

    # ---- operators ---------------------------------------------------------------
    def binop(self, ex, op, a, b, node):
        if hasattr(a, "pyvc_binop"):      # duck protocol for contract-level values
            return a.pyvc_binop(ex, op, b, False)
        if hasattr(b, "pyvc_binop"):
            return b.pyvc_binop(ex, op, a, True)
        if ex.opts.get("leaf_binop") is not None and ((is_sym(a) and a.sort() == Leaf) or (is_sym(b) and b.sort() == Leaf)):
            r = ex.opts["leaf_binop"](ex, op, a, b)
            if r is not None:
                return r
        if isinstance(a, Arr) or isinstance(b, Arr):
            return self.arr_binop(ex, op, a, b, node)
        if isinstance(op, ast.Add):
            if isinstance(a, (list, tuple)) and isinstance(b, type(a)):
                return a + b
            if isinstance(a, list) and isinstance(b, Seq):
                return _Concat(a, b)
            if isinstance(a, str) and isinstance(b, str):
                return a + b
        if isinstance(op, ast.Mult) and isinstance(a, (list, tuple)) and isinstance(b, int):
            return a * b
        if isinstance(op, ast.Mult) and isinstance(b, (list, tuple)) and isinstance(a, int):
            return a * b
        if isinstance(op, ast.Mod) and isinstance(a, str):
            return "<fmt>"
        if isinstance(a, Rec) or isinstance(b, Rec):
            raise Unsupported("operator on records")
        if not is_sym(a) and not is_sym(b):
            try:
                return _PYOPS[type(op)](a, b)
            except ZeroDivisionError:
                raise RaiseEx("ZeroDivisionError", getattr(node, "lineno", None))
            except KeyError:
                raise Unsupported(f"operator {type(op).__name__}")
            except TypeError:
                raise Unsupported(f"operator {type(op).__name__} on {type(a).__name__}, {type(b).__name__}")
        if isinstance(op, (ast.BitAnd, ast.BitOr)):
            ta, tb = ex.truth(a), ex.truth(b)
            return z3.And(ta, tb) if isinstance(op, ast.BitAnd) else z3.Or(ta, tb)
        a, b = num2(a, b)
        if a.sort() == BOOL:
            a, b = z3.If(a, 1, 0), z3.If(b, 1, 0)
        if isinstance(op, ast.Add):
            return a + b
        if isinstance(op, ast.Sub):
            return a - b
        if isinstance(op, ast.Mult):
            return a * b
        if isinstance(op, ast.Div):
            ex.oblige("division-by-nonzero", b != 0, kind="safety", node=node)
            if a.sort() == INT:
                a, b = z3.ToReal(a), z3.ToReal(b)
            if ex.opts.get("opaque_div") and not z3.is_rational_value(z3.simplify(b)):
                # sound abstraction: the quotient by a symbolic divisor is an uninterpreted function of its operands (what is proved holds for real division
                # in particular); keeps nonlinear arithmetic out of queries that only compare the same quotient with itself
                ex.assumptions_used.add("x / y with a symbolic divisor abstracted to an uninterpreted function in this unit (sound for proofs)")
                return RDIV(a, b)
            return a / b
        if isinstance(op, ast.FloorDiv):
            return py_floordiv(ex, a, b)[0]
        if isinstance(op, ast.Mod):
            return py_floordiv(ex, a, b)[1]
        if isinstance(op, ast.Pow):
            if z3.is_int_value(z3.simplify(b)):
                k = z3.simplify(b).as_long()
                if 0 <= k <= 4:
                    r = toz(1) if a.sort() == INT else z3.RealVal(1)
                    for _ in range(k):
                        r = r * a
                    return r
            raise Unsupported("symbolic power")
        raise Unsupported(f"operator {type(op).__name__}")

    def arr_binop(self, ex, op, a, b, node):
        """elementwise op on arrays (broadcast scalar): result array defined pointwise"""
        used(ex, "numpy/jax elementwise arithmetic on arrays is pointwise with scalar broadcasting")
        arr = a if isinstance(a, Arr) else b
        n = arr.n
        if isinstance(a, Arr) and isinstance(b, Arr):
            ex.oblige("broadcast-shapes-equal", a.n == b.n, kind="safety", node=node)
        j = z3.Int("j!ew")
        ea = z3.Select(a.a, j) if isinstance(a, Arr) else a
        eb = z3.Select(b.a, j) if isinstance(b, Arr) else b
        if isinstance(op, (ast.Mod, ast.FloorDiv)):
            ea, eb = toz(ea), toz(eb)
            if ea.sort() != INT or eb.sort() != INT:
                raise Unsupported("elementwise // or % on non-integers")
            used(ex, "int // and % follow Python floor semantics (pymod/pydiv axioms), divisor non-zero is an obligation")
            if not isinstance(b, Arr):
                ex.oblige("division-by-nonzero", eb != 0, kind="safety", node=node)
            e = PYMOD(ea, eb) if isinstance(op, ast.Mod) else PYDIV(ea, eb)
            return Arr(z3.Lambda([j], e), n)
        e = self.binop(ex, op, ea, eb, node)
        e = toz(e)
        return Arr(z3.Lambda([j], e), n)

    def neg(self, ex, a):
        if hasattr(a, "pyvc_neg"):
            return a.pyvc_neg(ex)
        if isinstance(a, Arr):
            j = z3.Int("j!ew")
            return Arr(z3.Lambda([j], -z3.Select(a.a, j)), a.n)
        return -a

    def invert(self, ex, a):
        if isinstance(a, Arr) and a.sort() == BOOL:
            j = z3.Int("j!ew")
            return Arr(z3.Lambda([j], z3.Not(z3.Select(a.a, j))), a.n)
        raise Unsupported("invert")

    def compare(self, ex, op, a, b, node):
        if isinstance(op, (ast.Is, ast.IsNot)):
            if is_sym(a) or is_sym(b):
                r = (a is b) or (is_sym(a) and is_sym(b) and a.eq(b))
                if (a is None) != (b is None):
                    r = False
            elif isinstance(a, (Rec, Seq, Opaque)) or isinstance(b, (Rec, Seq, Opaque)):
                r = a is b or (getattr(a, "oid", 0) == getattr(b, "oid", -1))
            elif isinstance(a, EnumV) or isinstance(b, EnumV):
                r = a == b
            else:
                r = a is b or (type(a) == type(b) and isinstance(a, (bool, int, str, type(None))) and a == b)
            return r if isinstance(op, ast.Is) else (not r)
        if hasattr(a, "pyvc_compare"):
            return a.pyvc_compare(ex, op, b, False)
        if hasattr(b, "pyvc_compare") and not isinstance(op, (ast.In, ast.NotIn)):
            return b.pyvc_compare(ex, op, a, True)
        if isinstance(op, (ast.In, ast.NotIn)):
            r = self.contains(ex, b, a, node)
            if isinstance(op, ast.In):
                return r
            return z3.Not(r) if is_sym(r) else (not r)
        if isinstance(a, Arr) or isinstance(b, Arr):
            arr = a if isinstance(a, Arr) else b
            j = z3.Int("j!ew")
            ea = z3.Select(a.a, j) if isinstance(a, Arr) else a
            eb = z3.Select(b.a, j) if isinstance(b, Arr) else b
            return Arr(z3.Lambda([j], toz(self.compare(ex, op, ea, eb, node))), arr.n)
        if isinstance(a, EnumV) or isinstance(b, EnumV) or isinstance(a, str) or isinstance(b, str) or a is None or b is None:
            if isinstance(op, ast.Eq):
                return (a == b) if not (is_sym(a) or is_sym(b)) else False
            if isinstance(op, ast.NotEq):
                return (a != b) if not (is_sym(a) or is_sym(b)) else True
            raise Unsupported("ordering of non-numeric values")
        if isinstance(a, (tuple, list)) and isinstance(b, (tuple, list)) and isinstance(op, (ast.Eq, ast.NotEq)):
            if len(a) != len(b):
                r = False
            else:
                parts = [self.compare(ex, ast.Eq(), x, y, node) for x, y in zip(a, b)]
                if any(not is_sym(p) and not p for p in parts):
                    r = False
                else:
                    sp = [p for p in parts if is_sym(p)]
                    r = z3.And(sp) if sp else True
            if isinstance(op, ast.Eq):
                return r
            return z3.Not(r) if is_sym(r) else (not r)
        if isinstance(a, dict) and isinstance(b, dict) and isinstance(op, (ast.Eq, ast.NotEq)):
            r = a == b
            return r if isinstance(op, ast.Eq) else not r
        if isinstance(a, (Rec, Opaque)) or isinstance(b, (Rec, Opaque)):
            if isinstance(op, (ast.Eq, ast.NotEq)):
                r = getattr(a, "oid", 0) == getattr(b, "oid", -1)
                return r if isinstance(op, ast.Eq) else not r
            raise Unsupported("ordering of records")
        if not is_sym(a) and not is_sym(b):
            return _PYCMP[type(op)](a, b)
        a, b = num2(a, b)
        if a.sort() == Leaf:
            if isinstance(op, ast.Eq):
                return a == b
            if isinstance(op, ast.NotEq):
                return a != b
            raise Unsupported("ordering of opaque leaves")
        return _Z3CMP[type(op)](a, b)

    def contains(self, ex, container, x, node):
        if isinstance(container, dict):
            return ex.key(x) in container
        if isinstance(container, (list, tuple, set, frozenset)):
            parts = []
            for y in container:
                c = self.compare(ex, ast.Eq(), x, y, node)
                if not is_sym(c):
                    if c:
                        return True
                else:
                    parts.append(c)
            return z3.Or(parts) if parts else False
        if isinstance(container, _DictView):
            return self.contains(ex, container.items(), x, node)
        if isinstance(container, str) and isinstance(x, str):
            return x in container
        raise Unsupported(f"`in` on {type(container).__name__}")

    # ---- attributes ------------------------------------------------------------------
    def getattr(self, ex, o, attr, node):
        if hasattr(o, "pyvc_getattr"):
            return o.pyvc_getattr(ex, attr)
        if is_sym(o) and o.sort() == Leaf and ex.opts.get("leaf_attr") is not None:
            r = ex.opts["leaf_attr"](ex, o, attr)
            if r is not None:
                return r
        if isinstance(o, Seq):
            return lambda ex_, *a, **k: self.seq_method(ex_, o, attr, a, k, node)
        if isinstance(o, dict):
            return lambda ex_, *a, **k: self.dict_method(ex_, o, attr, a, k, node)
        if isinstance(o, list):
            return lambda ex_, *a, **k: self.list_method(ex_, o, attr, a, k, node)
        if isinstance(o, Arr):
            return self.arr_attr(ex, o, attr, node)
        if isinstance(o, AtIdx):
            if attr in ("set", "add"):
                return lambda ex_, v, **k: self.at_set(ex_, o, v, attr, node)
        if is_sym(o) or is_num(o):
            return self.scalar_attr(ex, o, attr, node)
        if isinstance(o, EnumV):
            if attr == "name":
                return o.name
            if attr == "value":
                return o.name
        if isinstance(o, Closure) and attr == "__name__":
            return o.name
        if isinstance(o, BoundMethod) and attr == "__name__":
            return o.name
        if isinstance(o, set):
            if attr == "add":
                return lambda ex_, x: o.add(ex_.key(x) if not isinstance(x, tuple) else x)
            if attr == "copy":
                return lambda ex_: set(o)
            if attr == "update":
                return lambda ex_, *its: [o.add(ex_.key(x) if not isinstance(x, tuple) else x) for it in its for x in ex_.concrete_iter(it)] and None
        if isinstance(o, tuple) and attr in ("index", "count"):
            return lambda ex_, x: getattr(o, attr)(x)
        if isinstance(o, str):
            if attr in ("format", "ljust", "join", "split", "startswith", "endswith", "lower", "upper"):
                return lambda ex_, *a, **k: getattr(o, attr)(*a, **k) if all(isinstance(x, (str, int)) for x in a) else "<str>"
        if isinstance(o, Opaque):
            h = self.rec_methods.get((o.tag, attr))
            if h:
                return h(ex, o)
        if callable(o) and getattr(o, "pyvc_attrs", None) and attr in o.pyvc_attrs:
            return o.pyvc_attrs[attr]           # class-level attributes of a modelled builtin (dict.fromkeys)
        raise Unsupported(f"attribute {attr!r} of {type(o).__name__} ({o!r})")

    def rec_attr(self, ex, o, attr, node):
        h = self.rec_methods.get((o.cls, attr)) or self.rec_methods.get(("*", attr))
        if h is not None:
            return h(ex, o)
        if attr == "replace" and o.frozen:
            return lambda ex_, **kw: self.dc_replace(ex_, o, kw, node)
        raise RaiseEx("AttributeError", getattr(node, "lineno", None), msg=f"{o.cls}.{attr}")

    def class_attr(self, ex, cref, attr, node):
        raise Unsupported(f"class attribute {cref.name}.{attr}")

    def dc_replace(self, ex, o, kw, node):
        for k in kw:
            if k not in o.f:
                raise RaiseEx("TypeError", getattr(node, "lineno", None), msg=f"replace: unknown field {k}")
        f = dict(o.f)
        f.update(kw)
        r = Rec(o.cls, f, module=o.module, frozen=True)
        if hasattr(o, "local_class"):
            r.local_class = o.local_class
        return r

    def scalar_attr(self, ex, o, attr, node):
        if attr == "astype":
            used(ex, "dtype casts (astype / onp.array / jnp.array on scalars) keep the mathematical value (machine arithmetic as mathematical)")
            return lambda ex_, d=None: o
        if attr == "dtype":
            return TypeTag("dtype")
        if attr == "block_until_ready":
            return lambda ex_: o
        if attr == "shape":
            return ()
        if attr == "ndim":
            return 0
        if attr == "tolist":
            return lambda ex_: o
        if attr == "item":
            return lambda ex_: o
        if attr in ("all", "any"):
            return lambda ex_: o
        raise Unsupported(f"attribute {attr!r} of scalar")

    def arr_attr(self, ex, o, attr, node):
        if attr == "shape":
            return Shape([o.n])
        if attr == "at":
            return AtRef(o)
        if attr == "astype":
            return lambda ex_, d=None: o
        if attr == "dtype":
            return TypeTag("dtype")
        if attr == "ndim":
            return 1
        if attr in ("block_until_ready", "tolist", "copy"):
            return lambda ex_: o
        if attr in ("max", "min"):
            from .libmodels import axiomatize_max
            return lambda ex_, axis=None: axiomatize_max(ex_, [], o, attr)
        raise Unsupported(f"array attribute {attr}")

    def at_set(self, ex, at, v, how, node):
        used(ex, "x.at[i].set(v) returns a copy equal to x except at (normalised) index i; out-of-range index is an obligation")
        arr, i = at.arr, at.idx
        idx = norm_index(i, arr.n)
        ex.oblige("at-index-in-range", z3.And(idx >= 0, idx < arr.n), kind="safety", node=node)
        if isinstance(v, Arr):
            raise Unsupported(".at[i].set(array)")
        val = coerce(v, arr.sort())
        if how == "add":
            val = z3.Select(arr.a, idx) + val
        return Arr(z3.Store(arr.a, idx, val), arr.n)

    # ---- items ---------------------------------------------------------------------------
    def getitem(self, ex, o, i, node):
        if hasattr(o, "pyvc_getitem"):
            return o.pyvc_getitem(ex, i)
        if is_sym(o) and o.sort() == Leaf and ex.opts.get("leaf_getitem") is not None:
            r = ex.opts["leaf_getitem"](ex, o, i)
            if r is not None:
                return r
        if isinstance(o, Seq):
            if isinstance(i, slice):
                return self.seq_slice(ex, o, i, node)
            k = toz(i)
            k = z3.If(k < 0, k + o.length(), k) if not (isinstance(i, int) and i >= 0) else k
            ex.oblige("index-in-range", z3.And(k >= 0, k < o.length()), kind="safety", node=node)
            return o.at(k)
        if isinstance(o, Arr):
            if isinstance(i, slice):
                return self.arr_slice(ex, o, i, node)
            if isinstance(i, Arr):
                used(ex, "a[idx] with an integer index array gathers pointwise")
                j = z3.Int("j!ew")
                return Arr(z3.Lambda([j], z3.Select(o.a, norm_index(z3.Select(i.a, j), o.n))), i.n)
            if i is None:
                raise Unsupported("a[None]")
            idx = norm_index(i, o.n)
            ex.oblige("index-in-range", z3.And(idx >= 0, idx < o.n), kind="safety", node=node)
            return z3.Select(o.a, idx)
        if isinstance(o, AtRef):
            return AtIdx(o.arr, i)
        if isinstance(o, Shape):
            if isinstance(i, slice):
                return Shape(o.dims[i])
            return o.dims[i]
        if isinstance(o, _Concat):
            raise Unsupported("index of list+Seq")
        if isinstance(o, Rec):
            m = ex.repo.class_member(o.module, o.cls, "__getitem__") if o.module else None
            if m is not None:
                return ex.call_closure(Closure(m[1], [], m[0], self_obj=o, cls=o.cls), [i], {}, node)
        if isinstance(o, (list, tuple)) and is_sym(i):
            # symbolic index into a concrete list of scalars: ite chain
            idx = toz(i)
            ex.oblige("index-in-range", z3.And(idx >= -len(o), idx < len(o)), kind="safety", node=node)
            idx = z3.If(idx < 0, idx + len(o), idx)
            r = None
            for k in reversed(range(len(o))):
                r = o[k] if r is None else ex.merge(idx == k, o[k], r)
                if r is I._NOMERGE:
                    raise Unsupported("symbolic index into heterogeneous list")
            return r
        raise Unsupported(f"subscript of {type(o).__name__}")

    def seq_slice(self, ex, o, sl, node):
        """slices of symbolic sequences are views (lo', hi') on the same arrays"""
        if sl.step is not None:
            if sl.step == -1 and sl.start is None and sl.stop is None:
                return _RevSeq(o)
            raise Unsupported("slice step")
        n = o.length()

        def clamp(v, default):
            if v is None:
                return default
            v = toz(v)
            v = z3.If(v < 0, v + n, v)
            return z3.If(v < 0, 0, z3.If(v > n, n, v))

        if isinstance(sl.start, int) and sl.start == 0 and False:
            pass
        # python: x[-0:] == x[0:]  (−0 is 0) -- handled by the arithmetic because -0 == 0
        a = clamp(sl.start, toz(0))
        b = clamp(sl.stop, n)
        if sl.start is not None and is_sym(sl.start) or isinstance(sl.start, int):
            # x[-w:] with w == 0 means x[0:] in Python; (v<0) test above is false for v == 0 -> a == 0: correct.
            pass
        s = Seq(o.schema, o.arrs, o.lo + a, o.lo + z3.If(b < a, a, b), kind="list")
        return s

    def arr_slice(self, ex, o, sl, node):
        if sl.step is not None:
            raise Unsupported("slice step")
        n = o.n

        def clamp(v, default):
            if v is None:
                return default
            v = toz(v)
            v = z3.If(v < 0, v + n, v)
            return z3.If(v < 0, 0, z3.If(v > n, n, v))

        a = clamp(sl.start, toz(0))
        b = clamp(sl.stop, n)
        j = z3.Int("j!ew")
        return Arr(z3.Lambda([j], z3.Select(o.a, j + a)), z3.If(b < a, 0, b - a))

    def setitem(self, ex, o, i, v, node):
        if hasattr(o, "pyvc_setitem"):
            return o.pyvc_setitem(ex, i, v)
        raise Unsupported(f"subscript assignment on {type(o).__name__}")

    # ---- deque / list / dict methods ------------------------------------------------------------
    def seq_method(self, ex, s, name, a, k, node):
        if name == "append":
            used(ex, "collections.deque / list: append, popleft, extend, len, indexing behave as a FIFO sequence (GIL-atomic)")
            s.store_abs(s.hi, a[0])
            s.hi = s.hi + 1
            return None
        if name == "popleft" or (name == "pop" and len(a) == 1 and a[0] == 0):
            ex.oblige("popleft-nonempty", s.length() > 0, kind="safety", node=node)
            v = s.at_abs(s.lo)
            s.lo = s.lo + 1
            return v
        if name == "extend":
            x = a[0]
            items = ex.concrete_iter(x)
            if items is not None:
                for it in items:
                    s.store_abs(s.hi, it)
                    s.hi = s.hi + 1
                return None
            if isinstance(x, Seq) or isinstance(x, Arr):
                # append all elements of x: new array agrees with x on the appended range
                n = x.length() if isinstance(x, Seq) else x.n
                if len(s.arrs) != 1:
                    raise Unsupported("extend of multi-leaf sequence")
                (p, arr), = s.arrs.items()
                new = z3.Array(f"ext!{next(ex.fresh_n)}", INT, arr.sort().range())
                j = z3.Int("j!ext")
                src = (lambda t: x.leaf((), t)) if isinstance(x, Seq) else (lambda t: z3.Select(x.a, t))
                ex.assume(z3.ForAll([j], z3.Select(new, j) == z3.If(z3.And(j >= s.hi, j < s.hi + n), src(j - s.hi), z3.Select(arr, j))))
                s.arrs[p] = new
                s.hi = s.hi + n
                return None
            raise Unsupported("extend with unknown iterable")
        if name == "copy":
            return s.copy()
        if name == "clear":
            s.lo = s.hi
            return None
        raise Unsupported(f"sequence method {name}")

    def list_method(self, ex, l, name, a, k, node):
        if name == "append":
            l.append(a[0])
            return None
        if name == "extend":
            items = ex.concrete_iter(a[0])
            if items is None:
                raise Unsupported("list.extend with symbolic iterable")
            l.extend(items)
            return None
        if name == "pop":
            if not l:
                raise RaiseEx("IndexError", getattr(node, "lineno", None))
            return l.pop(*a)
        if name == "popleft":
            if not l:
                raise RaiseEx("IndexError", getattr(node, "lineno", None))
            return l.pop(0)
        if name == "copy":
            return list(l)
        if name == "index":
            return l.index(a[0])
        if name == "insert":
            l.insert(a[0], a[1])
            return None
        if name == "sort" or name == "reverse":
            raise Unsupported("in-place list sort")
        raise Unsupported(f"list method {name}")

    def dict_method(self, ex, d, name, a, k, node):
        if name in ("items", "values", "keys"):
            return _DictView(d, name)
        if name == "get":
            key = ex.key(a[0])
            return d.get(key, a[1] if len(a) > 1 else k.get("default"))
        if name in ("copy", "unfreeze"):
            out = dict(d)
            if a:
                out.update(a[0])   # flax FrozenDict.copy(add_or_replace)
            return out
        if name == "update":
            d.update(a[0] if a else {})
            d.update(k)
            return None
        if name == "pop":
            key = ex.key(a[0])
            if key not in d:
                if len(a) > 1:
                    return a[1]
                raise RaiseEx("KeyError", getattr(node, "lineno", None))
            return d.pop(key)
        if name == "setdefault":
            return d.setdefault(ex.key(a[0]), a[1])
        raise Unsupported(f"dict method {name}")

    # ---- comprehensions over symbolic iterables -----------------------------------------------------
    def symbolic_comprehension(self, ex, n, it, kind):
        g = n.generators[0]
        # pattern 1: [q.popleft()... for _ in range(k)]  -> drop k heads, result = view of the dropped heads
        if isinstance(it, _SymRange) and not g.ifs:
            elt = n.elt
            sub = None
            if isinstance(elt, ast.Subscript):
                sub = elt.slice
                elt = elt.value
            if isinstance(elt, ast.Call) and isinstance(elt.func, ast.Attribute) and elt.func.attr == "popleft" and not elt.args:
                q = ex.expr(elt.func.value)
                if isinstance(q, Seq):
                    used(ex, "[q.popleft() for _ in range(k)] removes the k oldest entries in order (loop summary; k <= len(q) is an obligation)")
                    k = it.n
                    ex.oblige("drop-k-heads-available", z3.And(k >= 0, k <= q.length()), kind="safety", node=n)
                    view = Seq(q.schema, q.arrs, q.lo, q.lo + k, kind="list")
                    q.lo = q.lo + k
                    if sub is not None:
                        idx = ex.expr(sub)
                        if not isinstance(idx, int) or not isinstance(q.schema, tuple):
                            raise Unsupported("popleft()[i] pattern")
                        view = Seq(q.schema[idx], {(): q.arrs[(idx,)]} if isinstance(q.schema[idx], z3.SortRef) else {p[1:]: a for p, a in q.arrs.items() if p[0] == idx}, view.lo, view.hi, kind="list")
                    return view
        # pattern 2: generator over a Seq used by any()/all()/sum-like consumers
        if isinstance(it, (Seq, Arr)) and kind == "gen":
            return _SymGen(n, it, ex.frame)
        if isinstance(it, (Seq, Arr)) and kind == "list":
            return _SymGen(n, it, ex.frame)
        raise Unsupported("comprehension over a symbolic iterable (no summary applies)")

    # ---- install builtins & namespaces ------------------------------------------------------------------
    def install(self):
        from . import libmodels

        libmodels.install(self)


class _RevSeq:
    """seq[::-1] of a symbolic sequence (only iterated)"""

    def __init__(self, seq):
        self.seq = seq

    def length(self):
        return self.seq.length()

    def at(self, k):
        return self.seq.at(self.seq.length() - 1 - toz(k))


class _Concat:
    """[c0, c1, ...] + Seq  (only consumed by max/min)"""

    def __init__(self, head, seq):
        self.head, self.seq = head, seq


class _SymGen:
    """(elt for target in Seq if conds) with a symbolic Seq -- consumed by any/all/max/min/len"""

    def __init__(self, node, it, frame):
        self.node, self.it, self.frame = node, it, frame

    def instantiate(self, ex, j):
        """(guard, value) of the element at position j"""
        g = self.node.generators[0]
        fr = self.frame
        ex.frames.append(I.Frame({}, [fr.env] + fr.parents, fr.module, fr.fname))
        try:
            x = self.it.at(j) if isinstance(self.it, Seq) else z3.Select(self.it.a, j)
            ex.assign(g.target, x)
            guards = [ex.truth(ex.expr(c)) for c in g.ifs]
            val = ex.expr(self.node.elt)
        finally:
            ex.frames.pop()
        gs = [toz(x) for x in guards]
        return (z3.And(gs) if gs else z3.BoolVal(True)), val

    def length(self):
        return self.it.length() if isinstance(self.it, Seq) else self.it.n


_PYOPS = {ast.Add: operator.add, ast.Sub: operator.sub, ast.Mult: operator.mul, ast.Div: operator.truediv, ast.FloorDiv: operator.floordiv,
          ast.Mod: operator.mod, ast.Pow: operator.pow, ast.BitAnd: operator.and_, ast.BitOr: operator.or_}
_PYCMP = {ast.Eq: operator.eq, ast.NotEq: operator.ne, ast.Lt: operator.lt, ast.LtE: operator.le, ast.Gt: operator.gt, ast.GtE: operator.ge}
_Z3CMP = {ast.Eq: lambda a, b: a == b, ast.NotEq: lambda a, b: a != b, ast.Lt: lambda a, b: a < b, ast.LtE: lambda a, b: a <= b,
          ast.Gt: lambda a, b: a > b, ast.GtE: lambda a, b: a >= b}
