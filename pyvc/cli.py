import argparse, importlib, os, sys, time


def main():
    ap = argparse.ArgumentParser()
    ap.add_argument("pid")
    ap.add_argument("--tier", default=os.environ.get("VERIF_TIER", "quick"), choices=["quick", "thorough"])
    a = ap.parse_args()
    seed = int(os.environ.get("VERIF_SEED", "0"))
    os.environ["VERIF_TIER"] = a.tier
    sys.path.insert(0, os.path.dirname(os.path.dirname(os.path.abspath(__file__))))
    try:
        mod = importlib.import_module(f"contracts.{a.pid.lower()}")
    except ModuleNotFoundError as e:
        print(f"ERROR no contracts for {a.pid}: {e}")
        sys.exit(3)
    try:
        code = mod.check(a.tier, seed)
    except Exception as e:
        import traceback
        traceback.print_exc()
        print(f"ERROR property={a.pid} checker crash: {type(e).__name__}: {e}")
        code = 3
    sys.exit(code)


if __name__ == "__main__":
    main()
