"""Runs contract units, discharges obligations, decides verdicts, writes evidence."""
import json, os, sys, time, traceback, hashlib
import z3
from .source import Repo, SourceError
from .values import *
from . import values as V
from .interp import Exec, RaiseEx, CutPath, ReturnEx, Obligation, LoopSpec
from .models import Library
from . import smt

VERIF = os.path.dirname(os.path.dirname(os.path.abspath(__file__)))


class Unit:
    """one real function (or lemma) under contract.  Subclasses implement run(ctx)."""
    name = None
    target = None  # 'rex/x.py::Class.method'  (None for pure lemmas over spec functions)
    props = ()
    kind = "function"  # or 'lemma'

    def configs(self):
        yield "default", {}

    def loops(self, cfg):
        return {}

    def summaries(self, cfg):
        return {}

    def opts(self, cfg):
        return {}

    def run(self, ctx):
        raise NotImplementedError


class Ctx:
    """what a unit sees while one path is being executed"""

    def __init__(self, ex, unit, cfg_label, cfg, repo):
        self.ex, self.unit, self.cfg_label, self.cfg, self.repo = ex, unit, cfg_label, cfg, repo
        self.probes = {}

    def closure(self, target=None, self_obj=None):
        m, node = self.repo.find(target or self.unit.target)
        qual = (target or self.unit.target).split("::")[1]
        cls = qual.split(".")[0] if "." in qual else None
        return Closure(node, [], m, self_obj=self_obj, cls=cls)

    def call(self, target=None, self_obj=None, args=(), kwargs=None):
        clo = self.closure(target, self_obj)
        return self.ex.call_closure(clo, list(args), dict(kwargs or {}))

    def snapshot(self, obj):
        return V.clone(obj, {})

    def require(self, c):
        self.ex.assume(c)

    def ensure(self, name, goal, props=None, hyps=None):
        """hyps: optional predicate selecting a SUBSET of the path condition (proving from fewer hypotheses is sound;
        used to keep quantified context out of arithmetic lemmas)"""
        ex = self.ex
        goal = toz(goal)
        pc = ex.pc if hyps is None else [h for h in ex.pc if hyps(h)]
        ob = Obligation(name, pc, goal, "ensures", self.unit.target or self.unit.name)
        ob.props = tuple(props) if props else tuple(self.unit.props)
        ob.probes = dict(self.probes)
        ex.obligations.append(ob)

    def probe(self, name, term):
        """term whose model value the replay needs"""
        self.probes[name] = toz(term)


class UnitResult:
    def __init__(self, unit):
        self.unit = unit
        self.paths = 0
        self.obligations = []  # (label, Obligation)
        self.undecided = []  # reasons
        self.errors = []
        self.assumptions = set()
        self.sha = None
        self.loc = None
        self.canary_ok = {}


def run_unit(unit, repo, lib, max_paths=400):
    res = UnitResult(unit)
    if unit.target:
        try:
            m, node = repo.find(unit.target)
            res.sha, res.loc = m.sha(node), m.loc(node)
        except SourceError as e:
            res.undecided.append(f"target missing: {e}")
            return res
    for label, cfg in unit.configs():
        pending = [[]]
        feas = {}
        seen = set()
        npaths = 0
        while pending:
            prefix = pending.pop()
            npaths += 1
            if npaths > max_paths:
                res.undecided.append(f"[{label}] more than {max_paths} paths")
                break
            ex = Exec(repo, lib, prefix=prefix, loops=unit.loops(cfg), summaries=unit.summaries(cfg), feas_cache=feas, opts=unit.opts(cfg))
            ctx = Ctx(ex, unit, label, cfg, repo)
            completed = False
            # the library model table is shared by all units of a check: whatever a unit overrides in it for its own purpose (a model swapped for an uninterpreted
            # symbol, a recording stub) must not leak into the units that run after it - snapshot before every path, restore afterwards
            ns_snap = {k: (ns, dict(ns.entries)) for k, ns in lib.ns.items() if hasattr(ns, "entries")}
            rm_snap = dict(lib.rec_methods) if hasattr(lib, "rec_methods") else None
            try:
                unit.run(ctx)
                completed = True
            except CutPath:
                pass
            except Unsupported as e:
                res.undecided.append(f"[{label}] unsupported: {e}")
            except SourceError as e:
                res.undecided.append(f"[{label}] source: {e}")
            except RaiseEx as e:
                res.undecided.append(f"[{label}] uncontracted exception escapes: {e}")
            except (ReturnEx,) as e:
                res.errors.append(f"[{label}] stray return")
            except RecursionError:
                res.undecided.append(f"[{label}] recursion limit in the executor")
            except z3.Z3Exception as e:
                res.errors.append(f"[{label}] z3: {e}")
            except Exception as e:
                res.errors.append(f"[{label}] checker crash: {type(e).__name__}: {e}\n{traceback.format_exc(limit=6)}")
            for k in list(lib.ns):
                if k not in ns_snap:
                    del lib.ns[k]
            for k, (ns, ent) in ns_snap.items():
                lib.ns[k] = ns
                ns.entries.clear()
                ns.entries.update(ent)
            if rm_snap is not None:
                lib.rec_methods.clear()
                lib.rec_methods.update(rm_snap)
            res.paths += 1
            res.assumptions |= ex.assumptions_used
            for ob in ex.obligations:
                if not hasattr(ob, "props"):
                    ob.props = tuple(unit.props)
                    ob.probes = {}
                k = ob.key()
                if k in seen:
                    continue
                seen.add(k)
                res.obligations.append((label, ob))
            if completed:
                can = Obligation("canary", ex.pc, z3.BoolVal(False), "canary", unit.name)
                can.props, can.probes = tuple(unit.props), {}
                res.obligations.append((label, can))
            for i in ex.alts:
                pending.append(ex.taken[:i] + [not ex.taken[i]])
    return res


# -------------------------------------------------------------------------------------------- property check
def load_known():
    p = os.path.join(VERIF, "KNOWN_FINDINGS.json")
    try:
        return json.load(open(p))
    except Exception:
        return {"findings": [], "fixed": []}


def load_baseline(pid):
    """obligations known to discharge on the unchanged tree (committed; written by tools/make_baseline.sh)"""
    try:
        return set(json.load(open(os.path.join(VERIF, "baseline", f"{pid}.json"))))
    except Exception:
        return set()


def check_property(pid, units, tier="quick", seed=0, extra=None):
    """returns exit code; prints VIOLATION / KNOWN-FINDING / UNDECIDED lines; writes evidence"""
    t0 = time.time()
    repo = Repo()
    lib = Library()
    budget = 20 if tier == "quick" else 90
    results = []
    for u in units:
        results.append(run_unit(u, repo, lib))
    obs = []
    for r in results:
        for label, ob in r.obligations:
            if pid in ob.props or ob.kind != "ensures":
                obs.append((r, label, ob))
    real = [(r, l, o) for (r, l, o) in obs if o.kind != "canary"]
    canaries = [(r, l, o) for (r, l, o) in obs if o.kind == "canary"]
    known = load_known()
    kf = [f for f in known.get("findings", []) if f.get("property") == pid]
    for (r, label, ob) in real:
        # a listed known finding is EXPECTED to be refuted (and is replayed natively below): no escalation of solver budgets for it
        if any(f.get("obligation") == f"{r.unit.name}/{ob.name}" and f.get("config_contains", "") in label for f in kf):
            ob.expect_refuted = True
    t1 = time.time()
    sols = smt.discharge([o for _, _, o in real], budget_s=budget, also_cvc5=(tier == "thorough"))
    can = smt.discharge([o for _, _, o in canaries], budget_s=3, refute=False)
    t_solve = time.time() - t1

    violations, undecided, errors, known_hits = [], [], [], []
    by_backend = {}
    proved = 0
    per_clause = {}
    for (r, label, ob), s in zip(real, sols):
        full = f"{r.unit.name}[{label}]/{ob.name}"
        per_clause.setdefault(full, []).append(s["verdict"])
        if s["verdict"] == "proved":
            proved += 1
            by_backend[s.get("backend", "z3")] = by_backend.get(s.get("backend", "z3"), 0) + 1
        elif s["verdict"] == "refuted":
            hit = next((f for f in kf if f.get("obligation") == f"{r.unit.name}/{ob.name}" and f.get("config_contains", "") in label), None)
            if hit is not None:
                known_hits.append((hit, r, label, ob, s))
            else:
                violations.append((r, label, ob, s))
        elif s["verdict"] == "solver-disagreement":
            errors.append(f"{full}: z3 says unsat, cvc5 says sat")
        else:
            undecided.append((full, s.get("reason", "unknown"), s.get("log")))
    for r in results:
        for u in r.undecided:
            undecided.append((r.unit.name, u, None))
        for e in r.errors:
            errors.append(f"{r.unit.name}: {e}")
    # vacuity: every unit config with completed paths must have at least one canary NOT proved
    can_by = {}
    for (r, label, ob), s in zip(canaries, can):
        can_by.setdefault((r.unit.name, label), []).append(s["verdict"])
    vac = [k for k, v in can_by.items() if all(x == "proved" for x in v)]  # "unknown"/open = not proved = fine
    for k in vac:
        errors.append(f"vacuous contract: every path of {k[0]}[{k[1]}] proves False (contradictory requires)")
    if not real:
        errors.append("zero obligations generated")
    for r in results:
        if not any(o.kind != "canary" for _, o in r.obligations) and not r.undecided and not r.errors:
            errors.append(f"unit {r.unit.name} generated zero obligations")

    # known findings must still reproduce (otherwise the entry is stale -> error, not silence)
    # (a finding whose obligation now proves is reported as a note; it never hides another violation)
    replay_dir = os.environ.get("VERIF_REPLAY_DIR") or os.path.join(VERIF, "replay", "out")
    os.makedirs(replay_dir, exist_ok=True)
    out_lines = []
    from . import replay as RP
    for hit, r, label, ob, s in known_hits:
        rp = RP.write_replay(pid, r, label, ob, s, replay_dir, known=True)
        out_lines.append(f"KNOWN-FINDING: property={pid} {hit['what']} (obligation {hit['obligation']}; replay={os.path.relpath(rp, VERIF)})")
    seen_kf = set()
    uniq = []
    for l in out_lines:
        key = l.split(" (obligation")[0]
        if key not in seen_kf:
            seen_kf.add(key)
            uniq.append(l)
    out_lines = uniq
    viol_lines = []
    baseline = load_baseline(pid)
    seen_clause = {}
    for r, label, ob, s in violations:
        full = f"{r.unit.name}[{label}]/{ob.name}"
        key = (r.unit.name, ob.name)
        if key in seen_clause:
            seen_clause[key] += 1
            continue   # one VIOLATION line per violated clause (first configuration); the others are counted
        rp, reproduced = RP.write_replay(pid, r, label, ob, s, replay_dir, known=False, want_status=True)
        solver_sat = any(l[0] in ("z3-prove", "z3-prove-2", "z3-prove-3", "cvc5-prove") and l[1] == "sat" for l in (s.get("log") or []))
        if not (reproduced or solver_sat or full in baseline):
            # only a quantifier-free weakening is satisfiable, nothing replays, and the obligation is not one that is known to
            # discharge on the unchanged tree: that is an undischarged obligation, not a violation
            undecided.append((full, "candidate counterexample from the grounded query only (not confirmed)", s.get("log")))
            continue
        seen_clause[key] = 1
        suffix = "" if reproduced else " no-failing-input-found"
        viol_lines.append(f"VIOLATION property={pid} replay={os.path.relpath(rp, VERIF)} obligation={full}{suffix}")
    if os.environ.get("VERIF_WRITE_BASELINE") == "1" and not violations and not errors:
        os.makedirs(os.path.join(VERIF, "baseline"), exist_ok=True)
        json.dump(sorted(k for k, v in per_clause.items() if all(x == "proved" for x in v)), open(os.path.join(VERIF, "baseline", f"{pid}.json"), "w"), indent=0)

    selftest = _engine_selftest(tier, seed)
    if selftest.get("disagree"):
        errors.append("engine self-test: the symbolic executor disagrees with CPython on " + "; ".join(f"{d['function']}{d['args']}: {d['problem'][:120]}" for d in selftest["disagree"][:3]))
    elif "error" in selftest:
        errors.append("engine self-test did not run: " + selftest["error"][:300])
    wall = time.time() - t0
    ev = {
        "property_id": pid, "tier": tier, "seed": seed, "level": (extra or {}).get("level", "proof"),
        "coverage": {
            "obligations": len(real) - len(known_hits), "discharged": proved, "known_finding_obligations_refuted": len(known_hits),
            "checker_cmd": f"./check {pid} --tier {tier}",
            "trusted_base": sorted(set().union(*[r.assumptions for r in results]) | set(extra.get("trusted", []) if extra else [])),
            "functions_under_contract": [
                {"unit": r.unit.name, "target": r.unit.target, "kind": r.unit.kind, "source_sha256_16": r.sha, "loc": r.loc, "paths": r.paths,
                 "obligations": sum(1 for _, o in r.obligations if o.kind != "canary" and (pid in o.props or o.kind != "ensures"))}
                for r in results],
            "backends": by_backend, "solver_wall_s": round(t_solve, 2),
            "cvc5_cross_check": ({"agrees_unsat": sum(1 for x in sols if x.get("cvc5_agrees") is True), "no_answer_or_unsupported_syntax": sum(1 for x in sols if x.get("cvc5_agrees") is False)}
                                 if tier == "thorough" else "thorough tier only"),
            "canaries_refuted_or_open": sum(1 for v in can_by.values() if not all(x == "proved" for x in v)), "canary_groups": len(can_by),
            "undecided": [u[0] + ": " + str(u[1]) for u in undecided][:50],
            "known_findings": [h[0]["what"] for h in known_hits][:20],
            "bounded_standins": (extra or {}).get("bounded", []),
            "engine_selftest_vs_cpython": {k: (len(v) if k == "disagree" else v) for k, v in selftest.items()},
            "samples": _samples(real, sols),
            "explanation": (extra or {}).get("explanation", ""),
        },
        "assumptions": sorted(set((extra or {}).get("assumptions", [])) | {
            "Python float / float32 modelled as mathematical reals; int / int32 as mathematical integers (no overflow)",
            "termination is not proved",
            "each function body is analysed sequentially (no interleaving inside a handler)"}),
        "wall_s": round(wall, 2), "violations": len(viol_lines),
    }
    evdir = os.environ.get("VERIF_EVIDENCE_DIR") or os.path.join(VERIF, "evidence")
    os.makedirs(evdir, exist_ok=True)
    json.dump(ev, open(os.path.join(evdir, f"{pid}.json"), "w"), indent=1, default=str)

    for l in out_lines:
        print(l)
    print(f"[{pid}] units={len(results)} obligations={len(real)} proved={proved} refuted={len(violations)} known={len(known_hits)} undecided={len(undecided)} errors={len(errors)} wall={wall:.1f}s solver={t_solve:.1f}s")
    if viol_lines:
        for l in viol_lines:
            print(l)
        return 1
    if errors:
        for e in errors:
            print(f"ERROR property={pid} {e}")
        return 3
    if undecided:
        for u in undecided[:40]:
            print(f"UNDECIDED property={pid} obligation={u[0]} reason={u[1]} {u[2] or ''}")
        return 2
    return 0


def _engine_selftest(tier, seed):
    """CPython cross-check of the VC generator (tools/engine_selftest.py): a disagreement makes the whole run a checker error (exit 3), never a violation"""
    if os.environ.get("VERIF_NO_SELFTEST") == "1":
        return {"skipped": "VERIF_NO_SELFTEST=1"}
    import subprocess, tempfile
    out = tempfile.NamedTemporaryFile(suffix=".json", delete=False).name
    try:
        p = subprocess.run([sys.executable, "-W", "ignore", os.path.join(VERIF, "tools", "engine_selftest.py"), "--n", "6" if tier == "quick" else "40", "--seed", str(seed), "--json", out],
                           capture_output=True, text=True, timeout=900)
        if p.returncode not in (0, 1):
            return {"error": (p.stderr or p.stdout)[-400:]}
        d = json.load(open(out))
        if d.get("functions", 0) < 40 or d.get("samples", 0) == 0:
            return {"error": f"self-test covered only {d.get('functions')} functions"}
        d["what"] = "every function of selftest/snippets.py run symbolically (all paths) and natively on random arguments: exactly one path feasible per sample, same result / same exception"
        return d
    except Exception as e:
        return {"error": f"{type(e).__name__}: {e}"}
    finally:
        try:
            os.unlink(out)
        except OSError:
            pass


def _samples(real, sols, k=4):
    out = []
    for (r, label, ob), s in list(zip(real, sols))[:: max(1, len(real) // k)][:k]:
        g = ob.goal.sexpr()
        out.append({"obligation": f"{r.unit.name}[{label}]/{ob.name}", "kind": ob.kind, "hyps": len(ob.hyps), "goal_digest": hashlib.sha256(g.encode()).hexdigest()[:12],
                    "goal_head": g[:400], "verdict": s["verdict"], "log": s.get("log")})
    return out
