"""Replay files: one JSON per refuted obligation; native replay on the real code under /venv/bin/python."""
import json, os, subprocess, hashlib, re

VERIF = os.path.dirname(os.path.dirname(os.path.abspath(__file__)))
VENV_PY = "/venv/bin/python"


def probe_values(ob, model):
    """evaluate the obligation's probe terms in the solver model (model: name -> str)"""
    import z3
    vals = {}
    for name, term in getattr(ob, "probes", {}).items():
        vals[name] = _eval_in_model(term, model)
    return vals


def _eval_in_model(term, model):
    """the worker returns the model as strings; rebuild enough of it to evaluate simple probe terms"""
    import z3
    subst = []
    consts = {}
    stack = [term]
    seen = set()
    while stack:
        e = stack.pop()
        if e.get_id() in seen:
            continue
        seen.add(e.get_id())
        if z3.is_const(e) and e.decl().kind() == z3.Z3_OP_UNINTERPRETED:
            consts[e.decl().name()] = e
        stack.extend(e.children())
    s = z3.Solver()
    for nm, c in consts.items():
        if nm in model:
            v = model[nm]
            try:
                if c.sort() == z3.IntSort():
                    s.add(c == z3.IntVal(int(v)))
                elif c.sort() == z3.RealSort():
                    s.add(c == z3.RealVal(v.replace("?", "")))
                elif c.sort() == z3.BoolSort():
                    s.add(c == (v == "True"))
                elif z3.is_array_sort(c.sort()):
                    a = _parse_array(v, c.sort())
                    if a is not None:
                        s.add(c == a)
            except Exception:
                pass
    if s.check() != z3.sat:
        return None
    v = s.model().eval(term, model_completion=True)
    return str(v)


def _parse_array(text, sort):
    import z3
    # forms: K(Int, v) / Store(K(Int, d), i, v) nested / Lambda ...
    try:
        env = {"K": z3.K, "Store": z3.Store, "Int": z3.IntSort(), "Real": z3.RealSort(), "Bool": z3.BoolSort(), "True": True, "False": False}
        dom, rng = sort.domain(), sort.range()
        t = re.sub(r"(?<![\w.])(-?\d+)/(\d+)", r"Q(\1,\2)", text)
        env["Q"] = lambda a, b: z3.RealVal(f"{a}/{b}")
        if rng == z3.RealSort():
            t = re.sub(r"(?<![\w.(,])\b(-?\d+)\b(?!\s*[,)]\s*-?\d+\s*\))", r"\1", t)
        return eval(t, {"__builtins__": {}}, env)
    except Exception:
        return None


def write_replay(pid, r, label, ob, sol, outdir, known=False, want_status=False):
    name = re.sub(r"[^A-Za-z0-9_.-]+", "_", f"{pid}_{r.unit.name}_{label}_{ob.name}")[:150]
    path = os.path.join(outdir, name + ".json")
    model = sol.get("model", {})
    small = {k: v for k, v in model.items() if len(v) < 400}
    data = {
        "property": pid, "obligation": f"{r.unit.name}/{ob.name}", "config": label, "function": r.unit.target, "source_sha256_16": r.sha,
        "solver": "z3 (refute mode: quantifier-free grounding)", "solver_log": sol.get("log"),
        "model": small, "probes": sol.get("probes") or {},
        "goal": ob.goal.sexpr()[:3000], "known_finding": known, "reproduced": False, "replay_output": None,
    }
    reproduced = False
    recipe = getattr(r.unit, "replay", None)
    if recipe is not None:
        try:
            spec = recipe(label, ob.name, data["probes"], small)
        except Exception as e:
            spec = None
            data["replay_output"] = f"recipe failed: {type(e).__name__}: {e}"
        if spec is not None:
            data["replay_spec"] = spec
            json.dump(data, open(path, "w"), indent=1, default=str)
            reproduced, out = run_native(path)
            data["reproduced"] = reproduced
            data["replay_output"] = out[-3000:]
    json.dump(data, open(path, "w"), indent=1, default=str)
    if want_status:
        return path, reproduced
    return path


def run_native(path):
    """runs replay/native.py on the replay file under the repo's interpreter; exit 1 = failure reproduced on the real code"""
    env = dict(os.environ, JAX_PLATFORMS="cpu", PYTHONPATH=os.environ.get("REX_REPO", "/repo"), PYTHONWARNINGS="ignore")
    try:
        p = subprocess.run([VENV_PY, os.path.join(VERIF, "replay", "native.py"), path], capture_output=True, text=True, timeout=300, env=env)
    except subprocess.TimeoutExpired:
        return False, "native replay timed out"
    out = (p.stdout or "") + (p.stderr or "")[-1500:]
    return p.returncode == 1, out
