"""PyVC symbolic executor: runs the real function bodies (ast) on symbolic states.

Forking is replay based: a path is a list of boolean decisions; when a symbolic test needs a
concrete answer and both outcomes are feasible, the first is taken and the alternative is
queued; the function is re-executed from its start for every path (functions are small).
"""
import ast, operator, itertools
import z3
from .values import *
from . import values as V


class ReturnEx(Exception):
    def __init__(self, value):
        self.value = value


class RaiseEx(Exception):
    """the analysed code raises"""

    def __init__(self, exc, lineno=None, msg=None):
        self.exc, self.lineno, self.msg = exc, lineno, msg

    def __str__(self):
        return f"raises {self.exc} at line {self.lineno}"


class BreakEx(Exception):
    pass


class ContinueEx(Exception):
    pass


class CutPath(Exception):
    """end of a loop body under the invariant rule / infeasible path"""


LOG_CALLS = {"self.log", "utils.log", "print", "jax.debug.print", "log"}


class Frame:
    def __init__(self, env, parents, module, fname):
        self.env = env  # dict
        self.parents = parents  # list of enclosing env dicts (closures), innermost first
        self.module = module  # source.Module
        self.fname = fname


class Obligation:
    def __init__(self, name, hyps, goal, kind, where):
        self.name, self.hyps, self.goal, self.kind, self.where = name, list(hyps), goal, kind, where

    def key(self):
        return (self.name, tuple(h.get_id() for h in self.hyps), self.goal.get_id())


class LoopSpec:
    """sidecar loop contract: invariant + what the loop may modify"""

    def __init__(self, inv, modifies=(), schemas=None, name=None, unroll=None):
        def guarded(ex, k, _inv=inv):
            try:
                return _inv(ex, k)
            except KeyError as e:      # the invariant names a local that the loop no longer has (renamed / restructured): undecided, not a crash
                raise Unsupported(f"loop invariant refers to a local that does not exist any more: {e} (sidecar contract needs updating)")
        self.inv = guarded  # callable(ex, k) -> z3 bool  (k is None for while loops)
        self.modifies = list(modifies)  # names / 'self.attr' paths beyond the syntactically assigned names
        self.schemas = schemas or {}
        self.name = name
        self.unroll = unroll


class Exec:
    def __init__(self, repo, lib, prefix=(), loops=None, summaries=None, axioms=(), feas_cache=None, opts=None):
        self.repo = repo
        self.lib = lib  # pyvc.models.Library
        self.prefix = list(prefix)
        self.taken = []
        self.alts = []  # indices of decisions first made on this run
        self.pc = []
        self.obligations = []
        self.ev = []  # ghost events
        self.frames = []
        self.loops = loops or {}
        self.summaries = summaries or {}  # (cls, method) or fname -> callable(ex, self_obj, args, kwargs, node)
        self.axioms = list(axioms)
        self.fresh_n = itertools.count()
        self.loop_counter = {}
        self.feas_cache = feas_cache if feas_cache is not None else {}
        self.opts = opts or {}
        self.assumptions_used = set()
        self.ghost = {}
        self.cur_fn = None
        self.call_depth = 0

    # ------------------------------------------------------------------ utilities
    def fresh(self, base, sort):
        return z3.Const(f"{base}!{next(self.fresh_n)}", sort)

    def assume(self, c):
        c = toz(c)
        if not z3.is_true(c):
            self.pc.append(c)

    def oblige(self, name, goal, kind="assert", node=None):
        goal = toz(goal)
        if z3.is_true(goal):
            return
        where = f"{self.cur_fn}:{getattr(node, 'lineno', '?')}" if node is not None else self.cur_fn
        self.obligations.append(Obligation(name, self.pc, goal, kind, where))
        self.pc.append(goal)

    def feasible(self, extra):
        qf = [h for h in self.pc if not _has_quant(h)] + [extra]
        key = tuple(h.get_id() for h in qf)
        if key in self.feas_cache:
            return self.feas_cache[key]
        s = z3.Solver()
        s.set(rlimit=2000000)  # no timeout: z3 timer threads do not survive the fork of the solver pool
        s.add(qf)
        r = s.check() != z3.unsat
        self.feas_cache[key] = r
        # keep terms alive so ids stay unique
        self.feas_cache.setdefault("_keep", []).append(qf)
        return r

    def decide(self, cond):
        """concrete truth value of a (possibly symbolic) condition on this path"""
        if not is_sym(cond):
            return bool(cond)
        c = z3.simplify(cond)
        if z3.is_true(c):
            return True
        if z3.is_false(c):
            return False
        ft, ff = self.feasible(c), self.feasible(z3.Not(c))
        if ft and not ff:
            self.pc.append(c)
            return True
        if ff and not ft:
            self.pc.append(z3.Not(c))
            return False
        if not ft and not ff:
            raise CutPath("infeasible")
        i = len(self.taken)
        if i < len(self.prefix):
            val = self.prefix[i]
        else:
            val = True
            self.alts.append(i)
        self.taken.append(val)
        self.pc.append(c if val else z3.Not(c))
        return val

    def scoped(self, cond, fn):
        """evaluate fn() under the temporary assumption cond; facts learnt inside are kept as implications"""
        mark = len(self.pc)
        self.pc.append(cond)
        try:
            return fn()
        finally:
            extra = self.pc[mark + 1:]
            del self.pc[mark:]
            for h in extra:
                self.pc.append(z3.Implies(cond, h))

    def truth(self, v):
        if is_sym(v):
            if v.sort() == BOOL:
                return v
            if v.sort() in (INT, REAL):
                return v != 0
            raise Unsupported("truth of non-numeric term")
        if isinstance(v, Seq):
            return v.length() > 0
        if hasattr(v, "items_list") and hasattr(v, "length"):      # concrete deque model
            return v.length() > 0
        if isinstance(v, Arr):
            raise Unsupported("truth value of an array")
        if isinstance(v, (Rec, Closure, BoundMethod, Opaque, EnumV, ClassRef)):
            return True
        return bool(v)

    # ------------------------------------------------------------------ names
    @property
    def frame(self):
        return self.frames[-1]

    def lookup(self, name, node=None):
        fr = self.frame
        if name in fr.env:
            return fr.env[name]
        for e in fr.parents:
            if name in e:
                return e[name]
        return self.module_global(fr.module, name)

    def module_global(self, module, name):
        g = module.toplevel()
        if name in g:
            ent = g[name]
            if ent[0] == "def":
                return Closure(ent[1], [], module)
            if ent[0] == "class":
                return self.class_value(module, ent[1])
            if ent[0] == "import":
                rp = self.repo.dotted_to_relpath(ent[1])
                if rp:
                    return self.lib.repo_module(self, rp)
                return self.lib.namespace(ent[1])
            if ent[0] == "from":
                rp = self.repo.dotted_to_relpath(ent[1] + "." + ent[2])
                if rp:
                    return self.lib.repo_module(self, rp)
                rp = self.repo.dotted_to_relpath(ent[1])
                if rp:
                    return self.module_global(self.repo.module(rp), ent[2])
                return self.lib.namespace(ent[1]).get(ent[2])
            if ent[0] == "assign":
                # a module-level assignment is evaluated once per (fresh) interpreter state, as at import: a mutable module global (a table, a threading.local) keeps
                # its identity and whatever the analysed code stores in it for the rest of the path
                cache = self.__dict__.setdefault("module_cache", {})
                key = (module.relpath, name)
                if key not in cache:
                    cache[key] = self.eval_in_module(module, ent[1])
                return cache[key]
        b = self.lib.builtin(name)
        if b is not None:
            return b
        raise Unsupported(f"unknown name {name!r} in {module.relpath}")

    def eval_in_module(self, module, node):
        self.frames.append(Frame({}, [], module, "<module>"))
        try:
            return self.expr(node)
        finally:
            self.frames.pop()

    def class_value(self, module, node):
        # Enum classes -> namespace of members
        for b in node.bases:
            bn = b.id if isinstance(b, ast.Name) else getattr(b, "attr", None)
            if bn == "Enum":
                members = {}
                for st in node.body:
                    if isinstance(st, ast.Assign) and isinstance(st.targets[0], ast.Name):
                        members[st.targets[0].id] = EnumV(node.name, st.targets[0].id)
                ns = NS(node.name, members)
                ns.is_enum = True
                return ns
        return ClassRef(module, node.name, node)

    # ------------------------------------------------------------------ running a function
    def call_closure(self, clo, args, kwargs, node=None):
        fn = clo.node
        self.call_depth += 1
        if self.call_depth > 40:
            raise Unsupported("call depth > 40 (recursion is not modelled)")
        rkey = None
        if self.opts.get("reentry_raises") and clo.self_obj is not None:
            # recursion rule (opt-in, for pure methods): re-entering a method on the object it is already running on, with nothing changed in
            # between, recurses without bound; CPython ends that with RecursionError (trusted: the interpreter's recursion limit)
            rkey = (id(fn), id(clo.self_obj))
            active = self.__dict__.setdefault("active_calls", set())
            if rkey in active:
                self.call_depth -= 1
                self.assumptions_used.add("unbounded recursion of a pure method (re-entered on the same object) ends in CPython's RecursionError")
                raise RaiseEx("RecursionError", getattr(node, "lineno", None), msg="maximum recursion depth exceeded")
            active.add(rkey)
        try:
            env = self.bind_args(clo, fn, args, kwargs)
            parents = clo.env_chain
            saved_fn = self.cur_fn
            self.frames.append(Frame(env, parents, clo.module, clo.name))
            if self.cur_fn is None or self.opts.get("track_fn", True):
                self.cur_fn = f"{clo.module.relpath}::{(clo.cls + '.') if clo.cls else ''}{clo.name}"
            try:
                if isinstance(fn, ast.Lambda):
                    return self.expr(fn.body)
                if _is_generator(fn):
                    # generator function: the body is run eagerly and the yielded values are handed over as a list (exact for a generator whose body has no
                    # side effects that its consumer could observe between two items; every use is recorded as an assumption)
                    self.assumptions_used.add("generator functions are run eagerly (their items as a list): exact when the generator body has no side effect the consumer observes between items")
                    self.frame.yields = []
                    try:
                        self.block(fn.body)
                    except ReturnEx:
                        pass
                    return list(self.frame.yields)
                try:
                    self.block(fn.body)
                except ReturnEx as r:
                    return r.value
                return None
            finally:
                self.frames.pop()
                self.cur_fn = saved_fn
        finally:
            self.call_depth -= 1
            if rkey is not None:
                self.active_calls.discard(rkey)

    def bind_args(self, clo, fn, args, kwargs):
        a = fn.args
        params = [p.arg for p in a.posonlyargs + a.args]
        env = {}
        args = list(args)
        if clo.self_obj is not None:
            args = [clo.self_obj] + args
        defaults = list(a.defaults)
        dmap = dict(zip(params[len(params) - len(defaults):], defaults))
        for i, p in enumerate(params):
            if i < len(args):
                env[p] = args[i]
            elif p in kwargs:
                env[p] = kwargs.pop(p)
            elif p in dmap:
                env[p] = self.eval_default(clo, dmap[p])
            else:
                raise Unsupported(f"missing argument {p} calling {clo.name}")
        if len(args) > len(params):
            if a.vararg:
                env[a.vararg.arg] = tuple(args[len(params):])
            else:
                raise Unsupported(f"too many arguments calling {clo.name}")
        elif a.vararg:
            env[a.vararg.arg] = ()
        for p, d in zip(a.kwonlyargs, a.kw_defaults):
            if p.arg in kwargs:
                env[p.arg] = kwargs.pop(p.arg)
            elif d is not None:
                env[p.arg] = self.eval_default(clo, d)
            else:
                raise Unsupported(f"missing kw-only argument {p.arg}")
        if a.kwarg:
            env[a.kwarg.arg] = dict(kwargs)
        elif kwargs:
            raise Unsupported(f"unexpected keyword arguments {list(kwargs)} calling {clo.name}")
        return env

    def eval_default(self, clo, node):
        pre = getattr(clo, "default_values", {}).get(id(node))
        if pre is not None:
            if pre[0] == "u":
                raise Unsupported(pre[1])
            return pre[1]
        self.frames.append(Frame({}, clo.env_chain, clo.module, clo.name))
        try:
            return self.expr(node)
        finally:
            self.frames.pop()

    # ------------------------------------------------------------------ statements
    def block(self, stmts):
        for st in stmts:
            self.stmt(st)

    def stmt(self, n):
        m = getattr(self, "s_" + type(n).__name__, None)
        if m is None:
            raise Unsupported(f"statement {type(n).__name__} at line {n.lineno}")
        m(n)

    def s_Expr(self, n):
        v = n.value
        if isinstance(v, ast.Constant):
            return
        if isinstance(v, ast.Call) and _is_log(v):
            return  # extraction drops logging (DESIGN 3.1)
        self.expr(v)

    def s_Pass(self, n):
        pass

    def s_Global(self, n):
        pass

    def s_Nonlocal(self, n):
        pass

    def s_Assign(self, n):
        v = self.expr(n.value)
        for t in n.targets:
            self.assign(t, v)

    def s_AnnAssign(self, n):
        if n.value is not None:
            self.assign(n.target, self.expr(n.value))

    def s_AugAssign(self, n):
        cur = self.expr(_as_load(n.target))
        v = self.binop(n.op, cur, self.expr(n.value), n)
        self.assign(n.target, v)

    def s_Return(self, n):
        raise ReturnEx(self.expr(n.value) if n.value is not None else None)

    def s_If(self, n):
        if self.decide(self.truth(self.expr(n.test))):
            self.block(n.body)
        else:
            self.block(n.orelse)

    def s_Assert(self, n):
        c = self.truth(self.expr(n.test))
        if is_sym(c):
            if self.opts.get("assert_raises"):       # opt-in: the assert is the function's documented way of refusing an input, not a safety condition
                if not self.decide(c):
                    raise RaiseEx("AssertionError", n.lineno)
                return
            self.oblige(f"assert@{n.lineno}", c, kind="code-assert", node=n)
        elif not c:
            raise RaiseEx("AssertionError", n.lineno)

    def s_Raise(self, n):
        name = "Exception"
        if n.exc is not None:
            e = n.exc
            if isinstance(e, ast.Call):
                e = e.func
            name = e.id if isinstance(e, ast.Name) else (e.attr if isinstance(e, ast.Attribute) else "Exception")
            fr = self.frame
            if isinstance(n.exc, ast.Name) and n.exc.id in fr.env and isinstance(fr.env[n.exc.id], RaiseEx):
                raise fr.env[n.exc.id]
            if isinstance(n.exc, ast.Call) and len(n.exc.args) == 1 and not n.exc.keywords:
                try:
                    m = self.expr(n.exc.args[0])
                except Unsupported:
                    m = None
                raise RaiseEx(name, n.lineno, msg=m if isinstance(m, str) else None)
        raise RaiseEx(name, n.lineno)

    def s_Break(self, n):
        raise BreakEx()

    def s_Continue(self, n):
        raise ContinueEx()

    def s_FunctionDef(self, n):
        fr = self.frame
        self.frame.env[n.name] = self._with_defaults(Closure(n, [fr.env] + fr.parents, fr.module))

    def s_Delete(self, n):
        for t in n.targets:
            if isinstance(t, ast.Name):
                self.frame.env.pop(t.id, None)
            elif isinstance(t, ast.Subscript):
                o = self.expr(t.value)
                i = self.expr(t.slice)
                if isinstance(o, dict):
                    k = self.key(i)
                    if k not in o:
                        raise RaiseEx("KeyError", t.lineno)
                    del o[k]
                elif isinstance(o, list) and isinstance(i, int):
                    if not -len(o) <= i < len(o):
                        raise RaiseEx("IndexError", t.lineno)
                    del o[i]
                else:
                    raise Unsupported("del on a symbolic container")
            else:
                raise Unsupported("del of this target")

    def s_With(self, n):
        for it in n.items:
            if it.optional_vars is not None:
                self.assign(it.optional_vars, Opaque("ctx"))
        self.block(n.body)

    def s_Try(self, n):
        try:
            self.block(n.body)
        except RaiseEx as e:
            for h in n.handlers:
                names = []
                if h.type is None:
                    names = None
                elif isinstance(h.type, ast.Tuple):
                    names = [_exc_name(x) for x in h.type.elts]
                else:
                    names = [_exc_name(h.type)]
                if names is None or e.exc in names or "Exception" in names:
                    if h.name:
                        self.frame.env[h.name] = e
                    self.block(h.body)
                    break
            else:
                self.block(n.finalbody)
                raise
        else:
            self.block(n.orelse)
        self.block(n.finalbody)

    def s_Import(self, n):
        # function-level `import a.b as c` (used in rex to avoid circular imports): bound like the module-level form
        for al in n.names:
            rp = self.repo.dotted_to_relpath(al.name)
            mod = self.lib.repo_module(self, rp) if rp else self.lib.namespace(al.name)
            if al.asname is None and "." in al.name:
                raise Unsupported("import a.b without an alias inside a function")
            self.frame.env[al.asname or al.name] = mod

    def s_ImportFrom(self, n):
        raise Unsupported("import inside function")

    def s_ClassDef(self, n):
        fr = self.frame
        fr.env[n.name] = ClassRef(fr.module, n.name, n)
        fr.env[n.name].env_chain = [fr.env] + fr.parents

    # loops ------------------------------------------------------------
    def loop_id(self, n):
        fn = self.frame.fname
        k = self.loop_counter.setdefault(fn, {})
        if n.lineno not in k:
            k[n.lineno] = len(k) + 1
        return (fn, k[n.lineno])

    def s_For(self, n):
        it = self.expr(n.iter)
        items = self.concrete_iter(it)
        if items is not None:
            for x in items:
                self.assign(n.target, x)
                try:
                    self.block(n.body)
                except BreakEx:
                    break
                except ContinueEx:
                    continue
            else:
                self.block(n.orelse)
            return
        self.symbolic_for(n, it)

    def concrete_iter(self, it):
        if isinstance(it, (list, tuple)):
            return list(it)
        if isinstance(it, dict):
            return list(it.keys())
        if isinstance(it, (_DictView,)):
            return it.items()
        if isinstance(it, range):
            return list(it)
        if isinstance(it, _Zip):
            cols = [self.concrete_iter(x) for x in it.cols]
            if any(c is None for c in cols):
                return None
            return list(zip(*cols))
        if isinstance(it, _Enumerate):
            c = self.concrete_iter(it.inner)
            return None if c is None else list(enumerate(c, it.start))
        if isinstance(it, set) or isinstance(it, frozenset):
            return sorted(it, key=repr)
        if hasattr(it, "dims") and isinstance(it.dims, tuple):   # array shape
            return list(it.dims)
        if hasattr(it, "pyvc_iter"):
            return it.pyvc_iter()
        return None

    def _drop_k_loop(self, n, it):
        """recognised idiom, summarised exactly (the statement form of `[q.popleft() for _ in range(k)]`):
               for _ in range(k): q.popleft()
        removes the k oldest entries of q in order; k <= len(q) is a safety obligation. The loop variable must be unused."""
        if not (isinstance(it, _SymRange) and len(n.body) == 1 and isinstance(n.body[0], ast.Expr) and not n.orelse and isinstance(n.target, ast.Name)):
            return False
        c = n.body[0].value
        if not (isinstance(c, ast.Call) and isinstance(c.func, ast.Attribute) and c.func.attr == "popleft" and not c.args and not c.keywords):
            return False
        if any(isinstance(x, ast.Name) and x.id == n.target.id for x in ast.walk(c)):
            return False
        q = self.expr(c.func.value)
        if not isinstance(q, Seq):
            return False
        self.assumptions_used.add("for _ in range(k): q.popleft() removes the k oldest entries in order (loop summary; k <= len(q) is an obligation)")
        k = it.n
        self.oblige("drop-k-heads-available", z3.And(k >= 0, k <= q.length()), kind="safety", node=n)
        q.lo = q.lo + k
        return True

    def symbolic_for(self, n, it):
        lid = self.loop_id(n)
        spec = self.loops.get(lid) or self.loops.get(lid[0] + "#" + str(lid[1]))
        if spec is None and self._drop_k_loop(n, it):
            return
        if spec is None:
            raise Unsupported(f"loop {lid} over a symbolic range needs an invariant")
        if isinstance(it, _SymRange):
            length = it.n
            elem = lambda k: it.start + k
        elif isinstance(it, Seq):
            length = it.length()
            seq0 = it
            elem = None
        elif isinstance(it, Arr):
            length = it.n
            elem = lambda k: z3.Select(it.a, k)
        elif hasattr(it, "length") and hasattr(it, "at"):
            length = it.length()
            elem = lambda k: it.at(k)
        else:
            raise Unsupported(f"for over {type(it).__name__}")
        self.loop_pre = V.clone({"env": self.frame.env}, {})
        self.oblige(f"loop{lid[1]}.init", spec.inv(self, z3.IntVal(0)), kind="loop-init", node=n)
        k = self.fresh(f"k{lid[1]}", INT)
        self.havoc_loop(n, spec)
        self.assume(k >= 0)
        self.assume(k <= length)
        self.assume(spec.inv(self, k))
        if self.decide(k < length):
            if elem is None:
                x = seq0.at(k)  # the loop must not mutate the sequence it iterates (checked by havoc list)
            else:
                x = elem(k)
            self.assign(n.target, x)
            try:
                self.block(n.body)
            except BreakEx:
                return  # leaves the loop with inv(k) and the break condition on the path
            except ContinueEx:
                pass
            self.oblige(f"loop{lid[1]}.preserve", spec.inv(self, k + 1), kind="loop-preserve", node=n)
            raise CutPath("loop body done")
        else:
            self.assume(k == length)
            self.block(n.orelse)

    def s_While(self, n):
        lid = self.loop_id(n)
        spec = self.loops.get(lid) or self.loops.get(lid[0] + "#" + str(lid[1]))
        if spec is None:
            # concrete unrolling as long as the test is concrete
            for _ in range(10000):
                c = self.truth(self.expr(n.test))
                if is_sym(c):
                    raise Unsupported(f"while loop {lid} with a symbolic test needs an invariant")
                if not c:
                    self.block(n.orelse)
                    return
                try:
                    self.block(n.body)
                except BreakEx:
                    return
                except ContinueEx:
                    continue
            raise Unsupported("while loop did not terminate concretely")
        self.loop_pre = V.clone({"env": self.frame.env}, {})
        self.oblige(f"loop{lid[1]}.init", spec.inv(self, None), kind="loop-init", node=n)
        self.havoc_loop(n, spec)
        self.assume(spec.inv(self, None))
        if self.decide(self.truth(self.expr(n.test))):
            try:
                self.block(n.body)
            except BreakEx:
                return
            except ContinueEx:
                pass
            self.oblige(f"loop{lid[1]}.preserve", spec.inv(self, None), kind="loop-preserve", node=n)
            raise CutPath("loop body done")
        else:
            self.block(n.orelse)

    def havoc_loop(self, n, spec):
        names = set()
        for x in ast.walk(n):
            tg = []
            if isinstance(x, ast.Assign):
                tg = x.targets
            elif isinstance(x, (ast.AugAssign, ast.AnnAssign)):
                tg = [x.target]
            elif isinstance(x, ast.For) and x is not n:
                tg = [x.target]
            for t in tg:
                for y in ast.walk(t):
                    if isinstance(y, ast.Name) and isinstance(y.ctx, ast.Store):
                        names.add(y.id)
        if isinstance(n, ast.For):
            for y in ast.walk(n.target):
                if isinstance(y, ast.Name):
                    names.discard(y.id)
        paths = set(spec.modifies)
        for x in ast.walk(n):
            if isinstance(x, (ast.Assign, ast.AugAssign)):
                for t in (x.targets if isinstance(x, ast.Assign) else [x.target]):
                    if isinstance(t, ast.Attribute):
                        paths.add(ast.unparse(t))
            if isinstance(x, ast.Call) and isinstance(x.func, ast.Attribute) and x.func.attr in ("append", "popleft", "extend", "pop", "appendleft", "clear", "update", "add"):
                paths.add(ast.unparse(x.func.value))
        env = self.frame.env
        for nm in sorted(names):
            if nm in env:
                env[nm] = self.havoc_value(env[nm], nm, spec)
        for p in sorted(paths):
            try:
                node = ast.parse(p, mode="eval").body
            except SyntaxError:
                continue
            try:
                cur = self.expr(node)
            except (Unsupported, KeyError):
                continue
            if isinstance(node, ast.Name):
                if node.id in env:
                    env[node.id] = self.havoc_value(cur, node.id, spec)
            else:
                self.assign(_as_store(node), self.havoc_value(cur, p, spec), force=True)

    def havoc_value(self, cur, name, spec):
        tag = name.replace(".", "_")
        if name in spec.schemas:
            sch = spec.schemas[name]
            s = Seq.fresh(f"{tag}!h{next(self.fresh_n)}", sch, kind="list")
            self.assume(s.wf())
            return s
        if isinstance(cur, list) and len(cur) == 0:
            raise Unsupported(f"loop modifies list {name!r}: give its element schema in the loop spec")
        return self.havoc(cur, tag + "!h")

    def havoc(self, cur, tag):
        """fresh symbolic value of the same shape"""
        tag = tag.replace(".", "_")
        if is_sym(cur):
            return self.fresh(tag, cur.sort())
        if isinstance(cur, Seq):
            s = Seq.fresh(f"{tag}!{next(self.fresh_n)}", cur.schema, kind=cur.kind)
            self.assume(s.wf())
            return s
        if isinstance(cur, Rec) and cur.frozen:
            r = Rec(cur.cls, {k: self.havoc(v, tag + "_" + k) for k, v in cur.f.items()}, module=cur.module, frozen=True)
            if hasattr(cur, "local_class"):
                r.local_class = cur.local_class
            return r
        if isinstance(cur, Arr):
            return Arr(self.fresh(tag, cur.a.sort()), cur.n)
        if isinstance(cur, dict):
            return {k: self.havoc(v, tag + "_" + str(k)) for k, v in cur.items()}
        if isinstance(cur, tuple):
            return tuple(self.havoc(v, tag + "_" + str(i)) for i, v in enumerate(cur))
        if cur is None or isinstance(cur, (str, EnumV)):
            return cur
        if isinstance(cur, bool):
            return self.fresh(tag, BOOL)
        if isinstance(cur, int):
            return self.fresh(tag, INT)
        if isinstance(cur, float):
            return self.fresh(tag, REAL)
        raise Unsupported(f"cannot havoc {tag!r} of type {type(cur).__name__}")

    # ------------------------------------------------------------------ assignment
    def assign(self, t, v, force=False):
        if isinstance(t, ast.Name):
            self.frame.env[t.id] = v
        elif isinstance(t, (ast.Tuple, ast.List)):
            stars = [i for i, e in enumerate(t.elts) if isinstance(e, ast.Starred)]
            if stars:
                if len(stars) != 1 or not isinstance(v, (tuple, list)):
                    raise Unsupported("starred assignment from a symbolic sequence")
                k, after = stars[0], len(t.elts) - stars[0] - 1
                if len(v) < len(t.elts) - 1:
                    raise RaiseEx("ValueError")
                vals = list(v[:k]) + [list(v[k:len(v) - after])] + list(v[len(v) - after:] if after else [])
                for tt, vv in zip(t.elts, vals):
                    self.assign(tt.value if isinstance(tt, ast.Starred) else tt, vv)
                return
            vals = self.unpack(v, len(t.elts))
            for tt, vv in zip(t.elts, vals):
                self.assign(tt, vv)
        elif isinstance(t, ast.Attribute):
            o = self.expr(t.value)
            if isinstance(o, Rec):
                if o.frozen and not force:
                    raise RaiseEx("FrozenInstanceError", t.lineno)
                self.on_setattr(o, t.attr, v)
                o.f[t.attr] = v
            else:
                raise Unsupported(f"attribute assignment on {type(o).__name__}")
        elif isinstance(t, ast.Subscript):
            o = self.expr(t.value)
            i = self.expr(t.slice)
            if isinstance(o, dict):
                o[self.key(i)] = v
            elif isinstance(o, list) and isinstance(i, int):
                o[i] = v
            else:
                self.lib.setitem(self, o, i, v, t)
        elif isinstance(t, ast.Starred):
            raise Unsupported("starred assignment")
        else:
            raise Unsupported(f"assignment target {type(t).__name__}")

    def on_setattr(self, o, attr, v):
        pass

    def unpack(self, v, n):
        if isinstance(v, (tuple, list)):
            if len(v) != n:
                raise RaiseEx("ValueError")
            return list(v)
        if isinstance(v, _Unpackable) or hasattr(v, "unpack"):
            return v.unpack(self, n)
        raise Unsupported(f"cannot unpack {type(v).__name__} into {n}")

    def key(self, k):
        if is_sym(k):
            k2 = z3.simplify(k)
            if z3.is_int_value(k2):
                return k2.as_long()
            raise Unsupported("symbolic dict key")
        return k

    # ------------------------------------------------------------------ expressions
    def expr(self, n):
        m = getattr(self, "e_" + type(n).__name__, None)
        if m is None:
            raise Unsupported(f"expression {type(n).__name__} at line {getattr(n, 'lineno', '?')}")
        return m(n)

    def e_Constant(self, n):
        return n.value

    def e_Name(self, n):
        return self.lookup(n.id, n)

    def e_Yield(self, n):
        if not hasattr(self.frame, "yields"):
            raise Unsupported("yield outside a generator function call")
        self.frame.yields.append(self.expr(n.value) if n.value is not None else None)
        return None

    def e_JoinedStr(self, n):
        parts, raw, symbolic = [], [], False
        for v in n.values:
            if isinstance(v, ast.Constant):
                parts.append(str(v.value))
                raw.append(str(v.value))
            else:
                try:
                    x = self.expr(v.value)
                except Unsupported:
                    x = "<?>"
                conc = isinstance(x, (str, int, float)) and not isinstance(x, bool)
                symbolic |= not conc
                raw.append(x)
                parts.append(str(x) if conc else "<sym>")
        if symbolic and self.opts.get("fstring"):
            # a string built from symbolic values that the analysed code uses as a KEY (e.g. f"{kind}_{seq}"): the unit supplies an injective representation
            r = self.opts["fstring"](self, raw)
            if r is not None:
                return r
        return "".join(parts)

    def e_Tuple(self, n):
        return tuple(self.seq_display(n.elts))

    def e_List(self, n):
        return list(self.seq_display(n.elts))

    def e_Set(self, n):
        return set(self.seq_display(n.elts))

    def seq_display(self, elts):
        out = []
        for e in elts:
            if isinstance(e, ast.Starred):
                v = self.expr(e.value)
                c = self.concrete_iter(v)
                if c is None:
                    raise Unsupported("starred symbolic sequence")
                out.extend(c)
            else:
                out.append(self.expr(e))
        return out

    def e_Dict(self, n):
        d = {}
        for k, v in zip(n.keys, n.values):
            if k is None:
                x = self.expr(v)
                d.update(x)
            else:
                d[self.key(self.expr(k))] = self.expr(v)
        return d

    def e_Lambda(self, n):
        fr = self.frame
        return self._with_defaults(Closure(n, [fr.env] + fr.parents, fr.module))

    def _with_defaults(self, clo):
        """default values of a function defined while executing are evaluated NOW (python semantics), not at call time"""
        a = clo.node.args
        vals = {}
        for d in list(a.defaults) + [d for d in a.kw_defaults if d is not None]:
            try:
                vals[id(d)] = ("v", self.expr(d))
            except Unsupported as e:
                vals[id(d)] = ("u", str(e))      # reported only if the default is actually used
        clo.default_values = vals
        return clo

    def e_Attribute(self, n):
        o = self.expr(n.value)
        return self.getattr(o, n.attr, n)

    def e_Subscript(self, n):
        o = self.expr(n.value)
        i = self.expr(n.slice)
        return self.getitem(o, i, n)

    def e_Slice(self, n):
        return slice(self.expr(n.lower) if n.lower else None, self.expr(n.upper) if n.upper else None, self.expr(n.step) if n.step else None)

    def e_BinOp(self, n):
        return self.binop(n.op, self.expr(n.left), self.expr(n.right), n)

    def e_UnaryOp(self, n):
        a = self.expr(n.operand)
        if isinstance(n.op, ast.Not):
            t = self.truth(a)
            return z3.Not(t) if is_sym(t) else (not t)
        if isinstance(n.op, ast.USub):
            return self.lib.neg(self, a)
        if isinstance(n.op, ast.UAdd):
            return a
        if isinstance(n.op, ast.Invert):
            if is_sym(a) and a.sort() == BOOL:
                return z3.Not(a)
            return self.lib.invert(self, a)
        raise Unsupported("unary op")

    def e_BoolOp(self, n):
        isand = isinstance(n.op, ast.And)

        def go(i):
            v = self.expr(n.values[i])
            if i == len(n.values) - 1:
                return v
            t = self.truth(v)
            if not is_sym(t):
                if isand:
                    return go(i + 1) if t else v
                return v if t else go(i + 1)
            t = z3.simplify(t)
            vbool = is_sym(v) and v.sort() == BOOL
            if not vbool:
                # python's and/or return the OPERAND, not its truth value: for a non-boolean symbolic operand the path forks
                if self.decide(t):
                    return go(i + 1) if isand else v
                return v if isand else go(i + 1)
            if z3.is_true(t):
                return go(i + 1) if isand else True
            if z3.is_false(t):
                return False if isand else go(i + 1)
            # the remaining operands are evaluated only when t is true (and) / false (or)
            cond = t if isand else z3.Not(t)
            rest = self.scoped(cond, lambda: go(i + 1))
            if not (isinstance(rest, bool) or (is_sym(rest) and rest.sort() == BOOL)):
                raise Unsupported("and/or of a symbolic boolean with a non-boolean operand (the result is that operand, not a truth value)")
            rt = self.truth(rest)
            if isand:
                return z3.And(t, toz(rt))
            return z3.Or(t, toz(rt))

        return go(0)

    def e_Compare(self, n):
        left = self.expr(n.left)
        res = []
        for op, rn in zip(n.ops, n.comparators):
            r = self.expr(rn)
            c = self.compare(op, left, r, n)
            if isinstance(c, Arr) or getattr(c, "pyvc_arraylike", False):
                if len(n.ops) != 1:
                    raise Unsupported("chained comparison of arrays")
                return c
            if not is_sym(c) and not c:
                return False if not res else z3.BoolVal(False)
            if is_sym(c):
                res.append(c)
            left = r
        if not res:
            return True
        return res[0] if len(res) == 1 else z3.And(res)

    def e_IfExp(self, n):
        c = self.truth(self.expr(n.test))
        if not is_sym(c):
            return self.expr(n.body if c else n.orelse)
        c = z3.simplify(c)
        if z3.is_true(c):
            return self.expr(n.body)
        if z3.is_false(c):
            return self.expr(n.orelse)
        ft, ff = self.feasible(c), self.feasible(z3.Not(c))
        if ft and not ff:
            self.pc.append(c)
            return self.expr(n.body)
        if ff and not ft:
            self.pc.append(z3.Not(c))
            return self.expr(n.orelse)
        # try a value-level merge when both arms are side-effect free scalars
        if not self.opts.get("no_ifexp_merge") and _pure_expr(n.body) and _pure_expr(n.orelse):
            mark = len(self.pc)
            nob = len(self.obligations)
            a = self.scoped(c, lambda: self.expr(n.body))
            b = self.scoped(z3.Not(c), lambda: self.expr(n.orelse))
            m = self.merge(c, a, b)
            if m is not _NOMERGE:
                return m
            del self.obligations[nob:]
            del self.pc[mark:]
        if self.decide(c):
            return self.expr(n.body)
        return self.expr(n.orelse)

    def merge(self, c, a, b):
        if a is b:
            return a
        if a is None or b is None:
            return _NOMERGE
        if isinstance(a, (int, float, bool)) and isinstance(b, (int, float, bool)) and a == b and type(a) == type(b):
            return a
        if (is_sym(a) or isinstance(a, (int, float, bool))) and (is_sym(b) or isinstance(b, (int, float, bool))):
            try:
                x, y = num2(a, b)
            except Unsupported:
                return _NOMERGE
            return z3.If(c, x, y)
        if isinstance(a, Arr) and isinstance(b, Arr) and a.a.sort() == b.a.sort():
            return Arr(z3.If(c, a.a, b.a), z3.If(c, a.n, b.n) if not a.n.eq(b.n) else a.n)
        if isinstance(a, tuple) and isinstance(b, tuple) and len(a) == len(b):
            out = tuple(self.merge(c, x, y) for x, y in zip(a, b))
            return _NOMERGE if any(o is _NOMERGE for o in out) else out
        if isinstance(a, Rec) and isinstance(b, Rec) and a.cls == b.cls and a.frozen and b.frozen and set(a.f) == set(b.f):
            out = {k: self.merge(c, a.f[k], b.f[k]) for k in a.f}
            if any(o is _NOMERGE for o in out.values()):
                return _NOMERGE
            return Rec(a.cls, out, module=a.module, frozen=True)
        if isinstance(a, EnumV) and isinstance(b, EnumV) and a == b:
            return a
        return _NOMERGE

    def e_Call(self, n):
        if _is_log(n):
            return None
        f = self.expr(n.func)
        args = []
        for a in n.args:
            if isinstance(a, ast.Starred):
                v = self.expr(a.value)
                c = self.concrete_iter(v)
                if c is None:
                    raise Unsupported("*args of symbolic length")
                args.extend(c)
            else:
                args.append(self.expr(a))
        kwargs = {}
        for k in n.keywords:
            if k.arg is None:
                kwargs.update(self.expr(k.value))
            else:
                kwargs[k.arg] = self.expr(k.value)
        return self.call(f, args, kwargs, n)

    def e_NamedExpr(self, n):
        v = self.expr(n.value)
        self.frame.env[n.target.id] = v
        return v

    def e_ListComp(self, n):
        return self.comprehension(n, "list")

    def e_GeneratorExp(self, n):
        return self.comprehension(n, "gen")

    def e_SetComp(self, n):
        return set(self.comprehension(n, "list"))

    def e_DictComp(self, n):
        out = {}

        def rec(i):
            if i == len(n.generators):
                out[self.key(self.expr(n.key))] = self.expr(n.value)
                return
            g = n.generators[i]
            items = self.concrete_iter(self.expr(g.iter))
            if items is None:
                raise Unsupported("dict comprehension over symbolic iterable")
            for x in items:
                self.assign(g.target, x)
                if all(self.decide(self.truth(self.expr(c))) for c in g.ifs):
                    rec(i + 1)

        self.with_scope(lambda: rec(0))
        return out

    def with_scope(self, fn):
        fr = self.frame
        self.frames.append(Frame({}, [fr.env] + fr.parents, fr.module, fr.fname))
        try:
            return fn()
        finally:
            self.frames.pop()

    def comprehension(self, n, kind):
        g0 = n.generators[0]
        it = self.expr(g0.iter)
        items = self.concrete_iter(it)
        if items is None:
            if len(n.generators) != 1:
                raise Unsupported("nested comprehension over symbolic iterable")
            return self.lib.symbolic_comprehension(self, n, it, kind)
        out = []

        def rec(i, items):
            g = n.generators[i]
            for x in items:
                self.assign(g.target, x)
                ok = True
                for c in g.ifs:
                    if not self.decide(self.truth(self.expr(c))):
                        ok = False
                        break
                if not ok:
                    continue
                if i + 1 == len(n.generators):
                    out.append(self.expr(n.elt))
                else:
                    nxt = self.concrete_iter(self.expr(n.generators[i + 1].iter))
                    if nxt is None:
                        raise Unsupported("nested comprehension over symbolic iterable")
                    rec(i + 1, nxt)

        self.with_scope(lambda: rec(0, items))
        return out

    # ------------------------------------------------------------------ operators
    def binop(self, op, a, b, node=None):
        return self.lib.binop(self, op, a, b, node)

    def compare(self, op, a, b, node=None):
        return self.lib.compare(self, op, a, b, node)

    # ------------------------------------------------------------------ attribute / item / call
    def getattr(self, o, attr, node=None):
        if isinstance(o, Rec):
            if attr in o.f:
                return o.f[attr]
            return self.class_attr(o, attr, node)
        if isinstance(o, NS):
            return o.get(attr)
        if isinstance(o, ClassRef):
            mem = self.repo.class_member(o.module.relpath, o.name, attr)
            if mem is None:
                return self.lib.class_attr(self, o, attr, node)
            m, st = mem
            if isinstance(st, ast.FunctionDef):
                decos = [_deco_name(d) for d in st.decorator_list]
                if "classmethod" in decos:
                    return Closure(st, [], m, self_obj=o, cls=o.name)
                return Closure(st, [], m, cls=o.name)
            return self.eval_in_module(m, st.value)
        return self.lib.getattr(self, o, attr, node)

    def class_attr(self, o, attr, node):
        if o.module is None:
            return self.lib.rec_attr(self, o, attr, node)
        mem = self.repo.class_member(o.module, o.cls, attr)
        if mem is None:
            return self.lib.rec_attr(self, o, attr, node)
        m, st = mem
        if isinstance(st, ast.FunctionDef):
            decos = [_deco_name(d) for d in st.decorator_list]
            clo = Closure(st, [], m, self_obj=o, cls=o.cls)
            if "property" in decos:
                s = self.summaries.get((o.cls, attr))
                if s is not None:
                    return s(self, o, [], {}, node)
                return self.call_closure(clo, [], {}, node)
            if "staticmethod" in decos:
                return Closure(st, [], m, cls=o.cls)
            if "classmethod" in decos:
                return Closure(st, [], m, self_obj=ClassRef(m, o.cls, None), cls=o.cls)
            return BoundMethod(o, attr, clo)
        return self.eval_in_module(m, st.value)

    def getitem(self, o, i, node=None):
        if isinstance(o, dict):
            k = self.key(i)
            if k not in o:
                raise RaiseEx("KeyError", getattr(node, "lineno", None), msg=repr(k))
            return o[k]
        if isinstance(o, (list, tuple)) and not is_sym(i):
            if isinstance(i, slice):
                if any(is_sym(x) for x in (i.start, i.stop, i.step)):
                    raise Unsupported("symbolic slice of concrete list")
                return o[i]
            if isinstance(i, int):
                if not -len(o) <= i < len(o):
                    raise RaiseEx("IndexError", getattr(node, "lineno", None))
                return o[i]
        if isinstance(o, (list, tuple)) and is_sym(i):
            i2 = z3.simplify(i)
            if z3.is_int_value(i2):
                return self.getitem(o, i2.as_long(), node)
        return self.lib.getitem(self, o, i, node)

    def call(self, f, args, kwargs, node=None):
        if isinstance(f, BoundMethod):
            s = self.summaries.get((f.obj.cls, f.name)) if isinstance(f.obj, Rec) else None
            if s is not None:
                return s(self, f.obj, args, kwargs, node)
            return self.call_closure(f.closure, args, kwargs, node)
        if isinstance(f, Closure):
            s = self.summaries.get((f.cls, f.name)) if f.cls else None
            if s is None and (f.self_obj is None or isinstance(f.self_obj, ClassRef)):
                s = self.summaries.get(f.name)
            if s is not None:
                return s(self, f.self_obj, args, kwargs, node)
            return self.call_closure(f, args, kwargs, node)
        if isinstance(f, Partial):
            kw = dict(f.kwargs)
            kw.update(kwargs)
            return self.call(f.f, f.args + list(args), kw, node)
        if isinstance(f, ClassRef):
            return self.construct(f, args, kwargs, node)
        if callable(f):
            return f(self, *args, **kwargs)
        if hasattr(f, "pyvc_call"):
            return f.pyvc_call(self, *args, **kwargs)
        raise Unsupported(f"call of {f!r}")

    def construct(self, cref, args, kwargs, node=None):
        s = self.summaries.get((cref.name, "__new__"))
        if s is not None:
            return s(self, cref, args, kwargs, node)
        decos = [_deco_name(d) for d in cref.node.decorator_list] if cref.node is not None else []
        if "struct.dataclass" in decos or "dataclass" in decos:
            names = self.repo.dataclass_fields(cref.module.relpath, cref.name)
            if cref.name not in cref.module.toplevel():
                # locally defined dataclass (inside a function): own fields + bases
                names = []
                for b in cref.node.bases:
                    if isinstance(b, ast.Name):
                        bv = self.lookup(b.id)
                        if isinstance(bv, ClassRef):
                            names += self.repo.dataclass_fields(bv.module.relpath, bv.name)
                for st in cref.node.body:
                    if isinstance(st, ast.AnnAssign) and st.target.id not in names:
                        names.append(st.target.id)
            if len(args) > len(names):
                raise Unsupported(f"too many positional args for dataclass {cref.name}")
            f = dict(zip(names, args))
            for k, v in kwargs.items():
                if k not in names:
                    raise RaiseEx("TypeError", getattr(node, "lineno", None))
                f[k] = v
            defaults = self.repo.dataclass_defaults(cref.module.relpath, cref.name)
            for k in names:
                if k not in f:
                    if k in defaults:
                        f[k] = self.dataclass_default(*defaults[k])
                    else:
                        raise RaiseEx("TypeError", getattr(node, "lineno", None), msg=f"missing field {k}")
            r = Rec(cref.name, f, module=cref.module.relpath, frozen=True)
            if cref.name not in cref.module.toplevel():
                r.local_class = cref
            return r
        mem = self.repo.class_member(cref.module.relpath, cref.name, "__init__")
        o = Rec(cref.name, {}, module=cref.module.relpath)
        if mem is not None:
            m, st = mem
            self.call_closure(Closure(st, [], m, self_obj=o, cls=cref.name), args, kwargs, node)
        return o

    def dataclass_default(self, module, node):
        # struct.field(pytree_node=False, default=X) / plain default
        if isinstance(node, ast.Call) and ast.unparse(node.func) in ("struct.field", "field"):
            for k in node.keywords:
                if k.arg == "default":
                    return self.eval_in_module(module, k.value)
            for k in node.keywords:
                if k.arg == "default_factory":
                    f = self.eval_in_module(module, k.value)
                    self.frames.append(Frame({}, [], module, "<default_factory>"))
                    try:
                        return self.call(f, [], {})
                    finally:
                        self.frames.pop()
            raise Unsupported("dataclass field without default")
        return self.eval_in_module(module, node)


# ---------------------------------------------------------------------- helpers
class _NoMerge:
    pass


_NOMERGE = _NoMerge()


class _Unpackable:
    def unpack(self, ex, n):
        raise Unsupported("unpack")


class _DictView:
    def __init__(self, d, what):
        self.d, self.what = d, what

    def items(self):
        if self.what == "items":
            return list(self.d.items())
        if self.what == "values":
            return list(self.d.values())
        return list(self.d.keys())


def _is_generator(fn):
    """does this def contain a yield of its own (not one of a nested def / lambda)?"""
    stack = list(fn.body)
    while stack:
        x = stack.pop()
        if isinstance(x, (ast.Yield, ast.YieldFrom)):
            return True
        if isinstance(x, (ast.FunctionDef, ast.AsyncFunctionDef, ast.Lambda, ast.ClassDef)):
            continue
        stack.extend(ast.iter_child_nodes(x))
    return False


class _Zip:
    def __init__(self, cols):
        self.cols = cols
        if cols and all(isinstance(c, Arr) for c in cols):
            # zip over 1-D arrays of symbolic length: min of the lengths, element k is the tuple of the k-th entries
            n = cols[0].n
            for c in cols[1:]:
                n = z3.If(toz(c.n) < toz(n), c.n, n)
            self.length = lambda n=n: n
            self.at = lambda k: tuple(z3.Select(c.a, k) for c in cols)


class _Enumerate:
    def __init__(self, inner, start=0):
        self.inner, self.start = inner, start


class _SymRange:
    def __init__(self, start, n):
        self.start, self.n = toz(start), toz(n)


def _is_log(call):
    try:
        name = ast.unparse(call.func)
    except Exception:
        return False
    return name in LOG_CALLS or name.endswith(".log") and name.split(".")[0] in ("self", "utils", "node", "i", "o")


def _as_load(t):
    import copy

    t2 = copy.copy(t)
    t2.ctx = ast.Load()
    return t2


def _as_store(t):
    import copy

    t2 = copy.copy(t)
    t2.ctx = ast.Store()
    return t2


def _exc_name(n):
    return n.id if isinstance(n, ast.Name) else (n.attr if isinstance(n, ast.Attribute) else "?")


def _deco_name(d):
    if isinstance(d, ast.Call):
        d = d.func
    try:
        return ast.unparse(d)
    except Exception:
        return "?"


def _has_quant(e):
    seen = set()
    stack = [e]
    while stack:
        x = stack.pop()
        if x.get_id() in seen:
            continue
        seen.add(x.get_id())
        if z3.is_quantifier(x):
            return True
        stack.extend(x.children())
    return False


def _pure_expr(n):
    for x in ast.walk(n):
        if isinstance(x, ast.Call):
            try:
                nm = ast.unparse(x.func)
            except Exception:
                return False
            if nm.split(".")[-1] in ("popleft", "append", "pop", "extend", "set_result", "cancel", "result", "_submit", "update", "add"):
                return False
        if isinstance(x, (ast.NamedExpr, ast.Await, ast.Yield)):
            return False
    return True
