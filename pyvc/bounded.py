"""Bounded stand-ins: native checks of real functions PyVC cannot reach. Always labelled bounded, never counted as proved."""
import json, os, subprocess, tempfile

VERIF = os.path.dirname(os.path.dirname(os.path.abspath(__file__)))


def run_native(script, args, timeout=1500):
    repo = os.environ.get("REX_REPO", "/repo")
    env = dict(os.environ, JAX_PLATFORMS="cpu", PYTHONPATH=repo, PYTHONWARNINGS="ignore", REX_REPO=repo)
    out = tempfile.NamedTemporaryFile(suffix=".json", delete=False).name
    try:
        p = subprocess.run(["/venv/bin/python", "-W", "ignore", os.path.join(VERIF, "bounded", script)] + list(args) + ["--out", out], capture_output=True, text=True, timeout=timeout, env=env)
        try:
            return json.load(open(out))
        except Exception:
            return {"error": (p.stderr or p.stdout or "no output")[-600:]}
    except subprocess.TimeoutExpired:
        return {"error": "bounded stand-in timed out"}
    finally:
        if os.path.exists(out):
            os.unlink(out)


def report(pid, name, res, script):
    """-> (violation lines, evidence entry, error or None)"""
    if "error" not in res and not res.get("cases"):
        res = {"error": "no case could be run: " + "; ".join(res.get("errors", [])[:3])}
    if "error" in res:
        return [], {"what": name, "status": "error", "detail": res["error"]}, res["error"]
    rdir = os.environ.get("VERIF_REPLAY_DIR") or os.path.join(VERIF, "replay", "out")
    os.makedirs(rdir, exist_ok=True)
    lines = []
    for i, bc in enumerate(res.get("bad_cases", [])[:3]):
        import re
        path = os.path.join(rdir, f"{pid}_bounded_{re.sub('[^A-Za-z0-9_.-]+', '_', name)}_{i}.json")
        json.dump(dict(property=pid, obligation=f"bounded:{name}", replay_cmd=f"/venv/bin/python bounded/{script} --replay {path}", **bc), open(path, "w"), indent=1)
        lines.append(f"VIOLATION property={pid} replay={os.path.relpath(path, VERIF)} obligation=bounded:{name}")
    ev = {"what": name, "status": "bounded (NOT a proof)", "cases": res.get("cases"), "distinct_cases": res.get("distinct"), "checks": res.get("reads") or res.get("checks"),
          "violating_cases": len(res.get("bad_cases", [])), "wall_s": res.get("wall_s"), "samples": res.get("samples", [])[:2], "errors": res.get("errors", [])[:3]}
    return lines, ev, None


def model_differential(n, seed):
    """spot check of the assumed library contracts against the real numpy / jax functions (tools/model_diff.py)"""
    out = tempfile.NamedTemporaryFile(suffix=".json", delete=False).name
    try:
        p = subprocess.run(["python3-vt", "-W", "ignore", os.path.join(VERIF, "tools", "model_diff.py"), "--n", str(n), "--seed", str(seed), "--out", out], capture_output=True, text=True, timeout=900)
        try:
            d = json.load(open(out))
        except Exception:
            return {"error": (p.stderr or p.stdout)[-400:]}
        return {"cases": d["cases"], "checked": sum(v["checked"] for v in d["per_op"].values()), "disagreements": sum(v["disagree"] for v in d["per_op"].values()),
                "ops": sorted(d["per_op"]), "first_disagreements": d["disagreements"][:3]}
    finally:
        if os.path.exists(out):
            os.unlink(out)
