"""Bounded stand-ins: native checks of real functions PyVC cannot reach. Always labelled bounded, never counted as proved."""
import json, os, subprocess, tempfile

VERIF = os.path.dirname(os.path.dirname(os.path.abspath(__file__)))


def run_native(script, args, timeout=1500):
    repo = os.environ.get("REX_REPO", "/repo")
    env = dict(os.environ, JAX_PLATFORMS="cpu", PYTHONPATH=repo, PYTHONWARNINGS="ignore", REX_REPO=repo)
    out = tempfile.NamedTemporaryFile(suffix=".json", delete=False).name
    try:
        p = subprocess.run(["/venv/bin/python", "-W", "ignore", os.path.join(VERIF, "bounded", script)] + list(args) + ["--out", out], capture_output=True, text=True, timeout=timeout, env=env)
        try:
            return json.load(open(out))
        except Exception:
            return {"error": (p.stderr or p.stdout or "no output")[-600:]}
    except subprocess.TimeoutExpired:
        return {"error": "bounded stand-in timed out"}
    finally:
        if os.path.exists(out):
            os.unlink(out)


def report(pid, name, res, script):
    """-> (violation lines, evidence entry, error or None).  A bad case may carry `kinds` (tags of what is wrong); kinds listed for this script in
    KNOWN_FINDINGS.json are known findings: they are printed as KNOWN-FINDING lines by the caller (ev['known_finding_lines']) and do not make a violation;
    any other kind in the same or another case still does."""
    if "error" not in res and not res.get("cases"):
        res = {"error": "no case could be run: " + "; ".join(res.get("errors", [])[:3])}
    if "error" in res:
        return [], {"what": name, "status": "error", "detail": res["error"]}, res["error"]
    rdir = os.environ.get("VERIF_REPLAY_DIR") or os.path.join(VERIF, "replay", "out")
    os.makedirs(rdir, exist_ok=True)
    try:
        kf = [f for f in json.load(open(os.path.join(VERIF, "KNOWN_FINDINGS.json"))).get("findings", []) if f.get("property") == pid and f.get("bounded") == script]
    except Exception:
        kf = []
    known_kinds = {f["kind"]: f for f in kf}
    import re
    lines, known_lines, n_new = [], [], 0
    seen_known = {}
    for bc in res.get("bad_cases", []):
        kinds = bc.get("kinds")
        new_kinds = [k for k in kinds if k not in known_kinds] if kinds is not None else None
        for k in (kinds or []):
            if k in known_kinds and k not in seen_known:
                seen_known[k] = bc
        if kinds is not None and not new_kinds:
            continue
        if n_new < 3:
            path = os.path.join(rdir, f"{pid}_bounded_{re.sub('[^A-Za-z0-9_.-]+', '_', name)}_{n_new}.json")
            d = dict(property=pid, obligation=f"bounded:{name}", replay_cmd=f"/venv/bin/python bounded/{script} --replay {path}", **bc)
            if new_kinds is not None:
                d["kinds"] = new_kinds
                d["wrong"] = [w for w in bc.get("wrong", []) if any(w.startswith(k) for k in new_kinds)] or bc.get("wrong", [])
            json.dump(d, open(path, "w"), indent=1)
            lines.append(f"VIOLATION property={pid} replay={os.path.relpath(path, VERIF)} obligation=bounded:{name}")
        n_new += 1
    for k, bc in seen_known.items():
        path = os.path.join(rdir, f"{pid}_known_{re.sub('[^A-Za-z0-9_.-]+', '_', k)}.json")
        json.dump(dict(property=pid, obligation=f"bounded:{name}", known_finding=True, kinds=[k], replay_cmd=f"/venv/bin/python bounded/{script} --replay {path}", case=bc["case"],
                       wrong=[w for w in bc.get("wrong", []) if w.startswith(k)]), open(path, "w"), indent=1)
        known_lines.append(f"KNOWN-FINDING: property={pid} {known_kinds[k]['what']} (bounded:{name}, replay={os.path.relpath(path, VERIF)})")
    ev = {"what": name, "status": "bounded (NOT a proof)", "cases": res.get("cases"), "distinct_cases": res.get("distinct"), "checks": res.get("reads") or res.get("checks"),
          "violating_cases": n_new, "cases_showing_only_known_findings": len([b for b in res.get("bad_cases", []) if b.get("kinds") is not None and all(k in known_kinds for k in b["kinds"])]),
          "wall_s": res.get("wall_s"), "samples": res.get("samples", [])[:2], "errors": res.get("errors", [])[:3], "known_finding_lines": known_lines}
    return lines, ev, None


def model_differential(n, seed):
    """spot check of the assumed library contracts against the real numpy / jax functions (tools/model_diff.py)"""
    out = tempfile.NamedTemporaryFile(suffix=".json", delete=False).name
    try:
        p = subprocess.run(["python3-vt", "-W", "ignore", os.path.join(VERIF, "tools", "model_diff.py"), "--n", str(n), "--seed", str(seed), "--out", out], capture_output=True, text=True, timeout=900)
        try:
            d = json.load(open(out))
        except Exception:
            return {"error": (p.stderr or p.stdout)[-400:]}
        return {"cases": d["cases"], "checked": sum(v["checked"] for v in d["per_op"].values()), "disagreements": sum(v["disagree"] for v in d["per_op"].values()),
                "ops": sorted(d["per_op"]), "first_disagreements": d["disagreements"][:3]}
    finally:
        if os.path.exists(out):
            os.unlink(out)


def async_episodes(pid, tier, seed):
    """whole-runtime bounded stand-in shared by the threaded-runtime properties: bounded/c03_async_episodes.py restricted to the kinds of `pid`"""
    n = 16 if tier == "quick" else 160
    res = run_native("c03_async_episodes.py", ["--n", str(n), "--seed", str(seed), "--props", pid])
    lines, ev, err = report(pid, "episodes of the real threaded runtime (simulated clock, probe nodes) against the statement", res, "c03_async_episodes.py")
    ev = dict(ev, bound=f"{n} random 3-node graphs (rates 5-40 Hz, windows 1-3, blocking / skip / advance / PHASE mixes, jittery and overrunning delays, truncated records), 2-3 episodes each on the same graph object "
                        "from the same initial state; the kinds checked for this property are those prefixed " + pid)
    return lines, ev, err


def compiled_api(pid, tier, seed):
    """whole compiled-runtime bounded stand-in shared by C09 / C06 / C13: bounded/c09_compiled_api.py restricted to the kinds of `pid`"""
    n = 10 if tier == "quick" else 120
    res = run_native("c09_compiled_api.py", ["--n", str(n), "--seed", str(seed), "--props", pid], timeout=3000 if tier == "quick" else 9000)
    lines, ev, err = report(pid, "the real generate_graphs -> Graph pipeline with probe nodes against the statement", res, "c09_compiled_api.py")
    ev = dict(ev, bound=f"{n} random 3-node systems (rates 2-25 Hz, windows 1-3, all supergraph modes, prune on/off, skip lists, a node whose name extends another's, 1-3 episodes, starting step / episode in and out of range, "
                        "given params, jit on/off, 1-4 steps): run^n vs reset/step^n vs rollout on every field, own step result vs internal step, executed (node, seq) pairs vs the schedule, "
                        "recording on vs off and record rows vs executed steps; the kinds checked for this property are those prefixed " + pid)
    return lines, ev, err


def finish_with_bounded(pid, code, lines, err):
    """common tail of a check that has a bounded stand-in: violations of the stand-in are violations, a stand-in that could not run is a checker error"""
    if lines:
        for l in lines:
            print(l)
        return 1
    if err and code == 0:
        print(f"ERROR property={pid} bounded stand-in failed to run: {err[-300:]}")
        return 3
    return code
