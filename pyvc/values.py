"""Symbolic value domain of PyVC."""
import itertools
import z3

Leaf = z3.DeclareSort("Leaf")  # opaque pytree payloads, rng keys, distributions, futures, ...
INT, REAL, BOOL = z3.IntSort(), z3.RealSort(), z3.BoolSort()

R6 = z3.Function("R6", REAL, REAL)  # round(x, 6)
PYMOD = z3.Function("pymod", INT, INT, INT)  # Python a % b on ints (elementwise use; scalars use quotient witnesses)
PYDIV = z3.Function("pydiv", INT, INT, INT)
RDIV = z3.Function("rdiv", REAL, REAL, REAL)  # opt-in abstraction of x / y by a symbolic y (units whose argument never looks inside the quotient)

_oid = itertools.count(1)


class Unsupported(Exception):
    """construct or value outside the supported subset -> obligation UNDECIDED, never a violation"""


def is_sym(v):
    return isinstance(v, z3.ExprRef)


def toz(v):
    if is_sym(v):
        return v
    if isinstance(v, bool):
        return z3.BoolVal(v)
    if isinstance(v, int):
        return z3.IntVal(v)
    if isinstance(v, float):
        if v != v or v in (float("inf"), float("-inf")):
            raise Unsupported(f"non-finite float constant {v}")
        return z3.RealVal(repr(v))
    raise Unsupported(f"cannot turn {type(v).__name__} into a term: {v!r}")


def num2(a, b):
    a, b = toz(a), toz(b)
    if a.sort() != b.sort():
        if a.sort() == INT and b.sort() == REAL:
            a = z3.ToReal(a)
        elif b.sort() == INT and a.sort() == REAL:
            b = z3.ToReal(b)
        elif a.sort() == BOOL and b.sort() in (INT, REAL):
            a = z3.If(a, 1, 0)
            return num2(a, b)
        elif b.sort() == BOOL and a.sort() in (INT, REAL):
            b = z3.If(b, 1, 0)
            return num2(a, b)
        else:
            raise Unsupported(f"sort mismatch {a.sort()} vs {b.sort()}")
    return a, b


def coerce(v, sort):
    """python/z3 value -> term of `sort`"""
    t = toz(v)
    if t.sort() == sort:
        return t
    if t.sort() == INT and sort == REAL:
        return z3.ToReal(t)
    if t.sort() == BOOL and sort == INT:
        return z3.If(t, 1, 0)
    if t.sort() == BOOL and sort == REAL:
        return z3.If(t, z3.RealVal(1), z3.RealVal(0))
    raise Unsupported(f"cannot coerce {t.sort()} to {sort}")


class EnumV:
    """member of an enum.Enum defined in the repo (concrete)"""

    def __init__(self, cls, name):
        self.cls, self.name = cls, name

    def __repr__(self):
        return f"{self.cls}.{self.name}"

    def __eq__(self, o):
        return isinstance(o, EnumV) and (self.cls, self.name) == (o.cls, o.name)

    def __hash__(self):
        return hash((self.cls, self.name))


class Rec:
    """object with fields (dataclass instance or plain object)"""

    def __init__(self, cls, fields=None, module=None, frozen=False):
        self.cls = cls
        self.f = dict(fields or {})
        self.module = module  # repo-relative path of the defining module, for method lookup
        self.frozen = frozen
        self.oid = next(_oid)

    def __repr__(self):
        return f"<{self.cls}#{self.oid}>"


# ---- element schemas for symbolic-length sequences -------------------------------------
class RecSchema:
    def __init__(self, cls, fields, module=None):
        self.cls, self.fields, self.module = cls, dict(fields), module


class ConstSchema:
    def __init__(self, value):
        self.value = value


class ArrSchema:
    """element that is a 1-leading-axis array"""

    def __init__(self, sort):
        self.sort = sort


class DictSchema:
    """element that is a dict with concrete keys"""

    def __init__(self, fields):
        self.fields = dict(fields)


class SeqSchema:
    """element that is itself a sequence of symbolic length (arrays of arrays + its own lo/hi)"""

    def __init__(self, inner):
        self.inner = inner


def schema_leaves(schema, path=()):
    if isinstance(schema, z3.SortRef):
        yield path, schema
    elif isinstance(schema, tuple):
        for i, s in enumerate(schema):
            yield from schema_leaves(s, path + (i,))
    elif isinstance(schema, RecSchema):
        for k, s in schema.fields.items():
            yield from schema_leaves(s, path + (k,))
    elif isinstance(schema, ConstSchema):
        return
    elif isinstance(schema, ArrSchema):
        yield path + ("@a",), z3.ArraySort(INT, schema.sort)
        yield path + ("@n",), INT
    elif isinstance(schema, DictSchema):
        for k, s in schema.fields.items():
            yield from schema_leaves(s, path + (k,))
    elif isinstance(schema, SeqSchema):
        for p, srt in schema_leaves(schema.inner):
            yield path + ("@arr",) + p, z3.ArraySort(INT, srt)
        yield path + ("@lo",), INT
        yield path + ("@hi",), INT
    else:
        raise Unsupported(f"bad schema {schema!r}")


class Seq:
    """deque / list of symbolic length: one z3 array per schema leaf, live range [lo, hi)"""

    def __init__(self, schema, arrs, lo, hi, kind="deque"):
        self.schema = schema
        self.arrs = dict(arrs)  # leaf path -> array
        self.lo, self.hi = lo, hi
        self.kind = kind
        self.oid = next(_oid)

    @staticmethod
    def fresh(name, schema, kind="deque", empty=False):
        arrs = {p: z3.Array(f"{name}{_pname(p)}", INT, s) for p, s in schema_leaves(schema)}
        if empty:
            return Seq(schema, arrs, z3.IntVal(0), z3.IntVal(0), kind)
        return Seq(schema, arrs, z3.Int(name + "!lo"), z3.Int(name + "!hi"), kind)

    def length(self):
        return self.hi - self.lo

    def wf(self):
        return self.lo <= self.hi

    def at_abs(self, idx):
        """element at absolute index idx (no range obligation here)"""
        return _build(self.schema, lambda p: z3.Select(self.arrs[p], idx), ())

    def at(self, k):
        return self.at_abs(self.lo + toz(k))

    def leaf(self, path, k):
        if not isinstance(path, tuple):
            path = (path,)
        return z3.Select(self.arrs[path], self.lo + toz(k))

    def store_abs(self, idx, value):
        for p, s in schema_leaves(self.schema):
            self.arrs[p] = z3.Store(self.arrs[p], idx, coerce(_get(value, p), s))
        _check_consts(self.schema, value)

    def copy(self):
        s = Seq(self.schema, self.arrs, self.lo, self.hi, self.kind)
        return s

    def __repr__(self):
        return f"<Seq#{self.oid} {self.kind}>"


def _pname(p):
    return "".join("!" + str(x) for x in p)


def _build(schema, sel, path):
    if isinstance(schema, z3.SortRef):
        return sel(path)
    if isinstance(schema, tuple):
        return tuple(_build(s, sel, path + (i,)) for i, s in enumerate(schema))
    if isinstance(schema, RecSchema):
        return Rec(schema.cls, {k: _build(s, sel, path + (k,)) for k, s in schema.fields.items()}, module=schema.module, frozen=True)
    if isinstance(schema, ConstSchema):
        return schema.value
    if isinstance(schema, ArrSchema):
        return Arr(sel(path + ("@a",)), sel(path + ("@n",)))
    if isinstance(schema, DictSchema):
        return {k: _build(s, sel, path + (k,)) for k, s in schema.fields.items()}
    if isinstance(schema, SeqSchema):
        arrs = {p: sel(path + ("@arr",) + p) for p, _ in schema_leaves(schema.inner)}
        return Seq(schema.inner, arrs, sel(path + ("@lo",)), sel(path + ("@hi",)), kind="list")
    raise Unsupported("schema")


def _get(value, path):
    for i, p in enumerate(path):
        if isinstance(value, Arr):
            return value.a if p == "@a" else value.n
        if isinstance(value, Seq):
            if p == "@lo":
                return value.lo
            if p == "@hi":
                return value.hi
            if p == "@arr":
                return value.arrs[tuple(path[i + 1:])]
        if isinstance(value, Rec):
            value = value.f[p]
        else:
            value = value[p]
    return value


def _check_consts(schema, value):
    if isinstance(schema, ConstSchema):
        if not (value is schema.value or value == schema.value):
            raise Unsupported(f"sequence element {value!r} does not match constant slot {schema.value!r}")
    elif isinstance(schema, tuple):
        if not isinstance(value, (tuple, list)) or len(value) != len(schema):
            raise Unsupported(f"sequence element {value!r} does not match tuple schema")
        for s, v in zip(schema, value):
            _check_consts(s, v)
    elif isinstance(schema, ArrSchema):
        if not isinstance(value, Arr):
            raise Unsupported(f"sequence element {value!r} is not an array")
    elif isinstance(schema, DictSchema):
        if not isinstance(value, dict) or set(value) != set(schema.fields):
            raise Unsupported(f"sequence element {value!r} does not match dict schema")
        for k, s in schema.fields.items():
            _check_consts(s, value[k])
    elif isinstance(schema, SeqSchema):
        if not isinstance(value, Seq):
            raise Unsupported(f"sequence element {value!r} is not a symbolic sequence")
    elif isinstance(schema, RecSchema):
        if not isinstance(value, Rec):
            raise Unsupported("sequence element is not a record")
        for k, s in schema.fields.items():
            if k not in value.f:
                raise Unsupported(f"record element lacks field {k}")
            _check_consts(s, value.f[k])


class Arr:
    """1-leading-axis array (jax / numpy): z3 array Int -> elem sort, symbolic length n; immutable"""

    def __init__(self, a, n):
        self.a, self.n = a, toz(n)

    @staticmethod
    def fresh(name, sort, n):
        return Arr(z3.Array(name, INT, sort), n)

    def sort(self):
        return self.a.sort().range()

    def __repr__(self):
        return f"<Arr {self.a.sort().range()}[{self.n}]>"


class Closure:
    def __init__(self, node, env_chain, module, self_obj=None, name=None, cls=None):
        self.node, self.env_chain, self.module, self.self_obj = node, env_chain, module, self_obj
        self.name = name or getattr(node, "name", "<lambda>")
        self.cls = cls

    def __repr__(self):
        return f"<fn {self.name}>"


class BoundMethod:
    def __init__(self, obj, name, closure):
        self.obj, self.name, self.closure = obj, name, closure

    def __repr__(self):
        return f"<bound {self.obj}.{self.name}>"


class Partial:
    def __init__(self, f, args, kwargs):
        self.f, self.args, self.kwargs = f, list(args), dict(kwargs)


class ClassRef:
    def __init__(self, module, name, node):
        self.module, self.name, self.node = module, name, node

    def __repr__(self):
        return f"<class {self.name}>"


class NS:
    """namespace of library models"""

    def __init__(self, name, entries=None):
        self.name = name
        self.entries = dict(entries or {})

    def get(self, attr):
        if attr not in self.entries:
            raise Unsupported(f"no library model for {self.name}.{attr}")
        return self.entries[attr]

    def __repr__(self):
        return f"<ns {self.name}>"


class Opaque:
    """a concrete-identity object we know nothing about (futures, devices, ...)"""

    def __init__(self, tag):
        self.tag = tag
        self.oid = next(_oid)

    def __repr__(self):
        return f"<opaque {self.tag}>"


class TypeTag:
    """a type used only in isinstance tests"""

    def __init__(self, name):
        self.name = name

    def __repr__(self):
        return f"<type {self.name}>"


class CallableTag(TypeTag):
    """a type that is also constructed by the analysed code (e.g. concurrent.futures.Future)"""

    def __init__(self, name, ctor):
        super().__init__(name)
        self.ctor = ctor

    def __call__(self, ex, *a, **k):
        return self.ctor(ex, *a, **k)


def clone(v, memo):
    """deep copy of the mutable object graph (z3 terms are immutable and shared)"""
    if isinstance(v, Rec):
        if id(v) in memo:
            return memo[id(v)]
        r = Rec.__new__(Rec)
        r.cls, r.module, r.frozen, r.oid = v.cls, v.module, v.frozen, v.oid
        memo[id(v)] = r
        r.f = {k: clone(x, memo) for k, x in v.f.items()}
        return r
    if isinstance(v, Seq):
        if id(v) in memo:
            return memo[id(v)]
        s = Seq.__new__(Seq)
        s.schema, s.arrs, s.lo, s.hi, s.kind, s.oid = v.schema, dict(v.arrs), v.lo, v.hi, v.kind, v.oid
        memo[id(v)] = s
        return s
    if isinstance(v, list):
        if id(v) in memo:
            return memo[id(v)]
        l = []
        memo[id(v)] = l
        l.extend(clone(x, memo) for x in v)
        return l
    if isinstance(v, dict):
        if id(v) in memo:
            return memo[id(v)]
        d = {}
        memo[id(v)] = d
        for k, x in v.items():
            d[k] = clone(x, memo)
        return d
    if isinstance(v, tuple):
        return tuple(clone(x, memo) for x in v)
    return v
