"""Builtin and third-party library models (assumed contracts).  See models.py."""
import ast
import z3
from .values import *
from .interp import RaiseEx, _DictView, _Zip, _Enumerate, _SymRange, CutPath
from . import interp as I
from .models import used, is_num, _Concat, _SymGen, Shape, norm_index, AtIdx


def axiomatize_max(ex, items_concrete, seq=None, kind="max"):
    """max / min over concrete scalars plus an optional symbolic sequence of scalars"""
    cmp_ge = (lambda a, b: a >= b) if kind == "max" else (lambda a, b: a <= b)
    terms = [toz(x) for x in items_concrete]
    if seq is None:
        if not terms:
            raise RaiseEx("ValueError", msg="max() of empty sequence")
        r = terms[0]
        for x in terms[1:]:
            r, x = num2(r, x)
            r = z3.If(cmp_ge(x, r), x, r) if kind == "max" else z3.If(x < r, x, r)
        return r
    # symbolic part
    if isinstance(seq, Seq):
        if len(seq.arrs) != 1:
            raise Unsupported("max over sequence of tuples")
        (p, arr), = seq.arrs.items()
        lo, hi = seq.lo, seq.hi
    else:
        arr, lo, hi = seq.a, toz(0), seq.n
    sort = arr.sort().range()
    terms = [coerce(t, sort) if t.sort() != sort else t for t in terms]
    if not terms:
        ex.oblige("max-of-nonempty", hi > lo, kind="safety")
    used(ex, f"{kind}() over a sequence: result bounds every element and is attained (by an element or a listed constant)")
    m = ex.fresh(kind, sort)
    j = z3.Int("j!mx")
    ex.assume(z3.ForAll([j], z3.Implies(z3.And(lo <= j, j < hi), cmp_ge(m, z3.Select(arr, j)))))
    for t in terms:
        ex.assume(cmp_ge(m, t))
    w = ex.fresh("w", INT)
    ex.assume(z3.Or([m == t for t in terms] + [z3.And(lo <= w, w < hi, m == z3.Select(arr, w))]))
    return m


def install(lib):
    B = lib.builtins

    # ------------------------------------------------------------------ python builtins
    def b_len(ex, x):
        if hasattr(x, "pyvc_len"):
            return x.pyvc_len(ex)
        if isinstance(x, Seq):
            return x.length()
        if isinstance(x, Arr):
            return x.n
        if isinstance(x, (list, tuple, dict, str, set)):
            return len(x)
        if isinstance(x, _EmptyDeque):
            return len(x.items)
        if isinstance(x, _DictView):
            return len(x.d)
        if isinstance(x, _SymGen):
            if x.node.generators[0].ifs:
                raise Unsupported("len of filtered symbolic comprehension")
            return x.length()
        if isinstance(x, Rec):
            m = ex.repo.class_member(x.module, x.cls, "__len__") if x.module else None
            if m:
                return ex.call_closure(Closure(m[1], [], m[0], self_obj=x, cls=x.cls), [], {})
        if isinstance(x, _Concat):
            return len(x.head) + x.seq.length()
        if isinstance(x, Shape):
            return len(x.dims)
        raise Unsupported(f"len of {type(x).__name__}")

    def b_float(ex, x=0.0):
        if is_sym(x):
            if x.sort() == INT:
                return z3.ToReal(x)
            if x.sort() == BOOL:
                return z3.If(x, z3.RealVal(1), z3.RealVal(0))
            return x
        if isinstance(x, Arr):
            raise Unsupported("float(array)")
        return float(x)

    def b_int(ex, x=0):
        if is_sym(x):
            if x.sort() == INT:
                return x
            if x.sort() == REAL:
                if z3.is_app(x) and x.decl().kind() == z3.Z3_OP_TO_REAL:
                    return x.arg(0)
                used(ex, "int(x) truncates toward zero (floats as reals)")
                return z3.If(x >= 0, z3.ToInt(x), -z3.ToInt(-x))
            if x.sort() == BOOL:
                return z3.If(x, 1, 0)
        return int(x)

    def b_bool(ex, x=False):
        return ex.truth(x)

    def b_round(ex, x, nd=None):
        if not is_sym(x):
            return round(x, nd) if nd is not None else round(x)
        if nd == 6:
            used(ex, "round(x, 6) = R6(x): monotone, idempotent, |R6(x) - x| <= 5e-7 (floats as reals)")
            x = toz(x)
            if x.sort() == INT:
                x = z3.ToReal(x)
            return R6(x)
        raise Unsupported("round with symbolic argument and ndigits != 6")

    def b_max(ex, *a, **k):
        return _maxmin(ex, a, k, "max")

    def b_min(ex, *a, **k):
        return _maxmin(ex, a, k, "min")

    def _maxmin(ex, a, k, kind):
        if "key" in k:
            raise Unsupported("max/min with key")
        if len(a) == 1:
            x = a[0]
            if isinstance(x, _Concat):
                return axiomatize_max(ex, x.head, x.seq, kind)
            if isinstance(x, (Seq, Arr)):
                return axiomatize_max(ex, [], x, kind)
            items = ex.concrete_iter(x)
            if items is None:
                raise Unsupported(f"{kind} over {type(x).__name__}")
            if not items:
                if "default" in k:
                    return k["default"]
                raise RaiseEx("ValueError", msg=f"{kind}() arg is an empty sequence")
            a = items
        if all(is_num(x) for x in a):
            return max(a) if kind == "max" else min(a)
        return axiomatize_max(ex, list(a), None, kind)

    def b_abs(ex, x):
        if is_sym(x):
            return z3.If(x >= 0, x, -x)
        return abs(x)

    def b_sum(ex, x, start=0):
        items = ex.concrete_iter(x)
        if items is None:
            raise Unsupported("sum over symbolic sequence")
        r = start
        for it in items:
            r = ex.binop(ast.Add(), r, it)
        return r

    def b_any(ex, x):
        return _anyall(ex, x, True)

    def b_all(ex, x):
        return _anyall(ex, x, False)

    def _anyall(ex, x, is_any):
        if isinstance(x, _SymGen):
            used(ex, "any()/all() over a sequence is the bounded existential / universal over its positions")
            j = z3.Int(f"j!q{next(ex.fresh_n)}")
            g, v = x.instantiate(ex, j - (x.it.lo if False else 0))
            lo, hi = toz(0), x.length()
            body = toz(ex.truth(v))
            if is_any:
                return z3.Exists([j], z3.And(lo <= j, j < hi, g, body))
            return z3.ForAll([j], z3.Implies(z3.And(lo <= j, j < hi, g), body))
        items = ex.concrete_iter(x)
        if items is None:
            raise Unsupported("any/all over symbolic iterable")
        parts = []
        for it in items:
            t = ex.truth(it)
            if not is_sym(t):
                if is_any and t:
                    return True
                if not is_any and not t:
                    return False
            else:
                parts.append(t)
        if not parts:
            return not is_any
        return z3.Or(parts) if is_any else z3.And(parts)

    def b_range(ex, *a):
        if all(isinstance(x, int) and not isinstance(x, bool) for x in a):
            return range(*a)
        a = [z3.simplify(toz(x)) if is_sym(x) else x for x in a]
        a = [x.as_long() if is_sym(x) and z3.is_int_value(x) else x for x in a]
        if all(isinstance(x, int) for x in a):
            return range(*a)
        if len(a) == 1:
            return _SymRange(0, a[0])
        if len(a) == 2:
            return _SymRange(a[0], toz(a[1]) - toz(a[0]))
        raise Unsupported("range with step and symbolic bounds")

    def b_isinstance(ex, x, t):
        ts = t if isinstance(t, tuple) else (t,)
        rev = {id(B[k]): k for k in ("float", "int", "bool", "str", "list", "tuple", "dict", "set")}
        ts = tuple(TypeTag(rev[id(tt)]) if id(tt) in rev else tt for tt in ts)
        for tt in ts:
            r = _isinst(ex, x, tt)
            if is_sym(r):
                return r
            if r:
                return True
        return False

    def _isinst(ex, x, t):
        h = ex.opts.get("isinstance")
        if h is not None and isinstance(t, (ClassRef, TypeTag)):
            r = h(ex, x, t.name)
            if r is not None:
                return r
        if isinstance(t, ClassRef):
            if isinstance(x, Rec):
                if x.cls == t.name:
                    return True
                return any(c.name == t.name for m, c in ex.repo.class_mro(x.module, x.cls)) if x.module else False
            return False
        if isinstance(t, TypeTag):
            if t.name == "str":
                return isinstance(x, str)
            if t.name == "dict":
                return isinstance(x, dict)
            if t.name == "bool":
                return isinstance(x, bool) or (is_sym(x) and x.sort() == BOOL)
            if t.name == "int":
                return (isinstance(x, int) and not isinstance(x, bool)) or (is_sym(x) and x.sort() == INT)
            if t.name == "float":
                return isinstance(x, float) or (is_sym(x) and x.sort() == REAL)
            if t.name in ("list", "tuple"):
                return isinstance(x, list if t.name == "list" else tuple)
            if t.name == "NoneType":
                return x is None
            if t.name in ("jax.Array", "jnp.ndarray", "onp.ndarray", "ndarray"):
                return isinstance(x, Arr) or is_sym(x)
            if isinstance(x, Rec):
                return x.cls == t.name.split(".")[-1]
            if isinstance(x, Opaque):
                return x.tag == t.name.split(".")[-1]
            return False
        if isinstance(t, NS) and getattr(t, "is_enum", False):
            return isinstance(x, EnumV) and x.cls == t.name
        raise Unsupported(f"isinstance against {t!r}")

    def b_hasattr(ex, o, name):
        if isinstance(o, Rec):
            if name in o.f:
                return True
            return o.module is not None and ex.repo.class_member(o.module, o.cls, name) is not None
        if name == "block_until_ready":
            return isinstance(o, Arr) or is_sym(o)
        return False

    def b_getattr(ex, o, name, *default):
        try:
            return ex.getattr(o, name)
        except RaiseEx:
            if default:
                return default[0]
            raise

    def b_reversed(ex, x):
        if isinstance(x, Seq):
            from .models import _RevSeq
            return _RevSeq(x)        # same view as x[::-1]
        items = ex.concrete_iter(x)
        if items is None:
            raise Unsupported("reversed of symbolic sequence")
        return list(reversed(list(items)))

    def b_sorted(ex, x, key=None, reverse=False):
        items = ex.concrete_iter(x)
        if items is None:
            raise Unsupported("sorted of symbolic sequence")
        if key is None:
            if all(isinstance(i, (int, float, str)) for i in items):
                return sorted(items, reverse=reverse)
            raise Unsupported("sorted of symbolic values")
        keys = [ex.call(key, [i], {}) for i in items]
        if all(isinstance(k, (int, float, str)) for k in keys):
            return [i for k, i in sorted(zip(keys, items), key=lambda t: t[0], reverse=reverse)]
        if reverse or not all(is_sym(k) or is_num(k) for k in keys):
            raise Unsupported("sorted with symbolic keys (reverse / non-numeric)")
        # a concrete list with symbolic numeric keys: stable insertion sort, forking on every comparison the path condition does not decide (one path per consistent order)
        used(ex, "sorted(list, key=...) is a stable sort by the key (symbolic keys: one path per order consistent with the path condition)")
        out = []
        for k, i in zip(keys, items):
            pos = len(out)
            while pos > 0 and ex.decide(ex.truth(toz(k) < toz(out[pos - 1][0]))):
                pos -= 1
            out.insert(pos, (k, i))
        return [i for _, i in out]

    def b_zip(ex, *cols):
        return _Zip(list(cols))

    def b_enumerate(ex, x, start=0):
        return _Enumerate(x, start)

    def b_list(ex, x=()):
        if isinstance(x, (Seq,)):
            return Seq(x.schema, x.arrs, x.lo, x.hi, kind="list")
        items = ex.concrete_iter(x)
        if items is None:
            if isinstance(x, _SymGen):
                return x
            raise Unsupported(f"list({type(x).__name__})")
        return list(items)

    def b_tuple(ex, x=()):
        if isinstance(x, Seq):
            return x
        if isinstance(x, (Arr,)):
            return x
        items = ex.concrete_iter(x)
        if items is None:
            raise Unsupported("tuple of symbolic iterable")
        return tuple(items)

    def b_dict(ex, x=None, **k):
        d = {}
        if x is not None:
            if isinstance(x, dict):
                d.update(x)
            else:
                for kk, vv in ex.concrete_iter(x):
                    d[ex.key(kk)] = vv
        d.update(k)
        return d

    def b_dict_fromkeys(ex, keys, value=None):
        """dict.fromkeys(keys, value): every key maps to the SAME value object (aliasing kept: a mutable value is shared)"""
        return {ex.key(kk): value for kk in ex.concrete_iter(keys)}
    b_dict.pyvc_attrs = {"fromkeys": b_dict_fromkeys}

    def b_set(ex, x=()):
        items = ex.concrete_iter(x)
        if items is None:
            raise Unsupported("set of symbolic iterable")
        return set(items)

    def b_filter(ex, f, x):
        items = ex.concrete_iter(x)
        if items is None:
            raise Unsupported("filter over symbolic iterable")
        out = []
        for it in items:
            t = ex.truth(it if f is None else ex.call(f, [it], {}))
            if ex.decide(t):
                out.append(it)
        return out

    def b_map(ex, f, *xs):
        cols = [ex.concrete_iter(x) for x in xs]
        if any(c is None for c in cols):
            raise Unsupported("map over symbolic iterable")
        return [ex.call(f, list(a), {}) for a in zip(*cols)]

    def b_next(ex, x, *d):
        items = ex.concrete_iter(x)
        if items is None:
            raise Unsupported("next")
        if not items:
            if d:
                return d[0]
            raise RaiseEx("StopIteration")
        return items[0]

    def b_iter(ex, x):
        return x

    def b_str(ex, x=""):
        if isinstance(x, RaiseEx):
            return x.msg if isinstance(x.msg, str) else ""
        return str(x) if isinstance(x, (str, int, float)) else "<str>"

    def b_type(ex, x):
        if isinstance(x, Rec):
            return TypeTag(x.cls)
        return TypeTag(type(x).__name__)

    B.update(len=b_len, float=b_float, int=b_int, bool=b_bool, round=b_round, max=b_max, min=b_min, abs=b_abs, sum=b_sum, any=b_any, all=b_all,
             range=b_range, isinstance=b_isinstance, hasattr=b_hasattr, getattr=b_getattr, sorted=b_sorted, zip=b_zip, enumerate=b_enumerate,
             list=b_list, tuple=b_tuple, dict=b_dict, set=b_set, filter=b_filter, map=b_map, next=b_next, iter=b_iter, str=b_str, type=b_type,
             repr=b_str, id=lambda ex, x: getattr(x, "oid", 0), reversed=b_reversed)
    for nm in ("str", "dict", "bool", "int", "float", "list", "tuple"):
        pass
    for exc in ("ValueError", "RuntimeError", "NotImplementedError", "TypeError", "RecursionError", "AssertionError", "KeyError", "IndexError",
                "DeprecationWarning", "Exception", "CancelledError", "StopIteration"):
        B[exc] = TypeTag(exc)
    B["True"], B["False"], B["None"] = True, False, None

    # typing names evaluate to tags
    typing = NS("typing", {k: TypeTag(k) for k in ("Any", "Dict", "List", "Tuple", "Union", "Optional", "Callable", "Sequence", "TYPE_CHECKING", "Deque")})
    typing.entries["TYPE_CHECKING"] = False
    lib.ns["typing"] = typing

    # ------------------------------------------------------------------ collections / functools / concurrent
    def deque_new(ex, *a, **k):
        if a and ex.concrete_iter(a[0]):
            raise Unsupported("deque(iterable)")
        return _EmptyDeque()

    lib.ns["collections"] = NS("collections", {"deque": deque_new})

    def partial(ex, f, *a, **k):
        return Partial(f, a, k)

    lib.ns["functools"] = NS("functools", {"partial": partial})

    def FrozenDict(ex, d=None, **k):
        used(ex, "flax FrozenDict behaves as an immutable dict")
        out = dict(d or {})
        out.update(k)
        return out

    lib.ns["flax.core"] = NS("flax.core", {"FrozenDict": CallableTag("FrozenDict", FrozenDict)})
    lib.ns["flax"] = NS("flax", {"struct": NS("flax.struct", {"dataclass": lambda ex, c: c, "field": lambda ex, **k: k.get("default")}),
                                 "core": lib.ns["flax.core"]})

    # ------------------------------------------------------------------ numpy / jax.numpy (scalars + 1-D leading axis)
    def np_array(ex, x, dtype=None, **k):
        used(ex, "dtype casts (astype / onp.array / jnp.array on scalars) keep the mathematical value (machine arithmetic as mathematical)")
        if isinstance(x, list) and x and all(is_sym(i) or is_num(i) for i in x):
            sort = REAL if any(isinstance(i, float) or (is_sym(i) and i.sort() == REAL) for i in x) else INT
            a = z3.K(INT, coerce(0, sort))
            for idx, v in enumerate(x):
                a = z3.Store(a, idx, coerce(v, sort))
            return Arr(a, len(x))
        return x

    def np_where(ex, c, a, b):
        used(ex, "jnp.where(c, a, b) selects pointwise")
        if isinstance(c, Arr) or isinstance(a, Arr) or isinstance(b, Arr):
            arr = next(x for x in (c, a, b) if isinstance(x, Arr))
            j = z3.Int("j!ew")
            el = lambda v: z3.Select(v.a, j) if isinstance(v, Arr) else toz(v)
            x, y = num2(el(a), el(b))
            return Arr(z3.Lambda([j], z3.If(el(c), x, y)), arr.n)
        c = ex.truth(c)
        if not is_sym(c):
            return a if c else b
        m = ex.merge(c, a, b)
        if m is I._NOMERGE:
            raise Unsupported("where on non-scalars")
        return m

    def np_clip(ex, x, lo=None, hi=None, **k):
        used(ex, "clip(x, lo, hi) = min(max(x, lo), hi)")
        lo = k.get("a_min", k.get("min", lo))
        hi = k.get("a_max", k.get("max", hi))
        if isinstance(x, Arr):
            j = z3.Int("j!ew")
            return Arr(z3.Lambda([j], _clip(z3.Select(x.a, j), lo, hi)), x.n)
        if not is_sym(x) and not is_sym(lo) and not is_sym(hi):
            r = x
            if lo is not None:
                r = max(r, lo)
            if hi is not None:
                r = min(r, hi)
            return r
        return _clip(toz(x), lo, hi)

    def _clip(x, lo, hi):
        r = x
        if lo is not None and not _is_inf(lo):
            r, l = num2(r, lo)
            r = z3.If(r < l, l, r)
        if hi is not None and not _is_inf(hi):
            r, h = num2(r, hi)
            r = z3.If(r > h, h, r)
        return r

    def _is_inf(v):
        return isinstance(v, float) and v in (float("inf"), float("-inf")) or v is _INF or v is _NINF

    def np_roll(ex, a, shift, axis=0):
        used(ex, "jnp.roll(a, -1, axis=0)[j] = a[(j+1) mod n]")
        if shift != -1 or axis != 0:
            raise Unsupported("roll other than shift=-1 axis=0")
        j = z3.Int("j!ew")
        return Arr(z3.Lambda([j], z3.Select(a.a, z3.If(j + 1 < a.n, j + 1, 0))), a.n)

    def np_take(ex, a, i, axis=0, **k):
        used(ex, "jnp.take(a, i): negative indices wrap; an out-of-range index yields an unspecified fill value (mode='fill'), not an error")
        if not isinstance(a, Arr) or axis not in (0, None):
            return ex.getitem(a, i)
        if isinstance(i, Arr):
            jv = z3.Int("j!ew")
            idx = norm_index(z3.Select(i.a, jv), a.n)
            fill = z3.Function(f"take_fill!{next(ex.fresh_n)}", INT, a.sort())
            return Arr(z3.Lambda([jv], z3.If(z3.And(idx >= 0, idx < a.n), z3.Select(a.a, idx), fill(jv))), i.n)
        idx = norm_index(i, a.n)
        return z3.If(z3.And(idx >= 0, idx < a.n), z3.Select(a.a, idx), ex.fresh("take_fill", a.sort()))

    def np_maximum(ex, a, b):
        a, b = num2(a, b)
        return z3.If(a >= b, a, b)

    def np_minimum(ex, a, b):
        a, b = num2(a, b)
        return z3.If(a <= b, a, b)

    def np_isnan(ex, x):
        h = ex.opts.get("isnan")
        if h is None:
            raise Unsupported("isnan without a NaN encoding")
        return h(ex, x)

    def np_ceil(ex, x):
        if not is_sym(x):
            import math
            return float(math.ceil(x))
        used(ex, "ceil(x) = -floor(-x) (floats as reals)")
        x = toz(x)
        if x.sort() == INT:
            return z3.ToReal(x)
        return z3.ToReal(-z3.ToInt(-x))

    def np_floor(ex, x):
        x = toz(x)
        return z3.ToReal(z3.ToInt(x)) if x.sort() == REAL else z3.ToReal(x)

    def np_sqrt(ex, x):
        used(ex, "sqrt(x): the non-negative s with s*s = x (x >= 0 is an obligation)")
        x = toz(x)
        ex.oblige("sqrt-of-nonnegative", x >= 0, kind="safety")
        s = ex.fresh("sqrt", REAL)
        ex.assume(z3.And(s >= 0, s * s == x))
        return s

    def np_zeros_like(ex, x):
        if isinstance(x, Arr):
            return Arr(z3.K(INT, coerce(0, x.sort())), x.n)
        if is_sym(x):
            return coerce(0, x.sort())
        return type(x)(0)

    def np_ones_like(ex, x):
        if isinstance(x, Arr):
            return Arr(z3.K(INT, coerce(1, x.sort())), x.n)
        if is_sym(x):
            return coerce(1, x.sort())
        return type(x)(1)

    def np_asarray(ex, x, *a, **k):
        dt = k.get("dtype", a[0] if a else None)
        if isinstance(dt, TypeTag) and dt.name == "integer-result" and (is_sym(x) or is_num(x)):
            # a value cast to an integer dtype is truncated toward zero (numpy / jax casting of floats to ints)
            used(ex, "casting a float to an integer dtype truncates toward zero")
            z = toz(x)
            if z.sort() == REAL:
                return z3.If(z >= 0, z3.ToReal(z3.ToInt(z)), -z3.ToReal(z3.ToInt(-z)))
            return z
        return np_array(ex, x)

    def np_result_type(ex, *xs):
        """jnp.result_type of scalars: an integer dtype exactly when every operand is integer-typed (python int / integer array), else a float dtype"""
        used(ex, "jnp.result_type(*xs) is an integer dtype iff every operand is integer-typed")
        allint = all((isinstance(v, int) and not isinstance(v, bool)) or (is_sym(v) and v.sort() == INT) for v in xs)
        return TypeTag("integer-result" if allint else "float-result")

    def np_stack(ex, xs, axis=0):
        """jnp.stack of k scalars / leaves along a new leading axis: an array of length k whose i-th row is xs[i]"""
        used(ex, "jnp.stack(xs, axis=0) of k equally shaped leaves is the length-k array with rows xs[0..k-1]")
        if axis != 0 or not isinstance(xs, (list, tuple)) or not xs or not all(is_sym(i) or is_num(i) for i in xs):
            raise Unsupported("jnp.stack of anything but a non-empty list of leaves along axis 0")
        zs = [toz(i) for i in xs]
        if len({z.sort() for z in zs}) != 1:
            return np_array(ex, list(xs))
        a = z3.K(INT, zs[0])
        for idx, v in enumerate(zs):
            a = z3.Store(a, idx, v)
        return Arr(a, len(zs))

    def np_logical(op):
        def f(ex, a, b):
            if isinstance(a, Arr) or isinstance(b, Arr):
                arr = a if isinstance(a, Arr) else b
                jv = z3.Int("j!ew")
                el = lambda v: z3.Select(v.a, jv) if isinstance(v, Arr) else toz(ex.truth(v))
                return Arr(z3.Lambda([jv], z3.And(el(a), el(b)) if op == "and" else z3.Or(el(a), el(b))), arr.n)
            ta, tb = toz(ex.truth(a)), toz(ex.truth(b))
            return z3.And(ta, tb) if op == "and" else z3.Or(ta, tb)
        return f

    def np_logical_not(ex, a):
        return z3.Not(toz(ex.truth(a)))

    def np_exp(ex, x):
        used(ex, "exp/log: exp > 0, strictly monotone, log(exp(x)) = x, exp(log(y)) = y for y > 0 (uninterpreted otherwise)")
        return EXP(coerce(x, REAL))

    def np_log(ex, x):
        used(ex, "exp/log: exp > 0, strictly monotone, log(exp(x)) = x, exp(log(y)) = y for y > 0 (uninterpreted otherwise)")
        return LOG(coerce(x, REAL))

    def np_tanh(ex, x):
        used(ex, "tanh/arctanh: tanh in (-1,1), strictly monotone, arctanh(tanh(x)) = x, tanh(arctanh(y)) = y on (-1,1)")
        return TANH(coerce(x, REAL))

    def np_arctanh(ex, x):
        used(ex, "tanh/arctanh: tanh in (-1,1), strictly monotone, arctanh(tanh(x)) = x, tanh(arctanh(y)) = y on (-1,1)")
        return ATANH(coerce(x, REAL))

    def np_arange(ex, *a, **k):
        if len(a) == 1:
            n = a[0]
            j = z3.Int("j!ew")
            return Arr(z3.Lambda([j], j), n)
        if len(a) == 2:
            lo, hi = toz(a[0]), toz(a[1])
            j = z3.Int("j!ew")
            return Arr(z3.Lambda([j], j + lo), z3.If(hi > lo, hi - lo, 0))
        if len(a) == 3 and isinstance(a[2], int) and a[2] != 0:
            lo, hi, st = toz(a[0]), toz(a[1]), a[2]
            j = z3.Int("j!ew")
            span = (hi - lo) if st > 0 else (lo - hi)
            cnt = (span + abs(st) - 1) / abs(st)          # integer division on z3 Ints: ceil(span / |step|) for span > 0
            return Arr(z3.Lambda([j], lo + j * st), z3.If(span > 0, cnt, 0))
        raise Unsupported("arange(lo, hi, step) with a symbolic or zero step")

    def np_interp(ex, x, xp, fp):
        """jnp.interp(x, xp, fp): piecewise-linear interpolation through the knots (xp[k], fp[k]), clamped outside; xp non-decreasing"""
        used(ex, "jnp.interp(x, xp, fp): piecewise linear through the knots, constant outside [xp[0], xp[-1]]; xp must be non-decreasing (segment-witness axioms)")
        if not (isinstance(x, Arr) and isinstance(xp, Arr) and isinstance(fp, Arr)):
            raise Unsupported("interp on non-arrays")
        n = xp.n
        uid = next(ex.fresh_n)
        if fp.sort() != REAL:
            # integer / opaque leaves: the interpolated value is cast back to the leaf's dtype - not modelled numerically
            val = z3.Function(f"interp_cast!{uid}", INT, fp.sort())
            jv = z3.Int("j!ew")
            return Arr(z3.Lambda([jv], val(jv)), x.n)
        val = z3.Function(f"interp_val!{uid}", INT, REAL)
        seg = z3.Function(f"interp_seg!{uid}", INT, INT)
        jv = z3.Int("j!ip")
        q = z3.Select(x.a, jv)
        X = lambda t: z3.Select(xp.a, t)
        F = lambda t: z3.Select(fp.a, t)
        k = seg(jv)
        ex.assume(z3.ForAll([jv], z3.Implies(z3.And(0 <= jv, jv < x.n), z3.And(
            z3.Implies(q <= X(0), val(jv) == F(0)),
            z3.Implies(q >= X(n - 1), val(jv) == F(n - 1)),
            z3.Implies(z3.And(X(0) < q, q < X(n - 1)), z3.And(0 <= k, k < n - 1, X(k) <= q, q <= X(k + 1), X(k) < X(k + 1),
                                                           val(jv) * (X(k + 1) - X(k)) == F(k) * (X(k + 1) - q) + F(k + 1) * (q - X(k)))))),
            patterns=[val(jv)]))
        ex.ghost.setdefault("interp", []).append(dict(x=x, xp=xp, fp=fp, val=val, seg=seg))
        jw = z3.Int("j!ew")
        return Arr(z3.Lambda([jw], val(jw)), x.n)

    class _ArgWhere:
        def __init__(self, r):
            self.r = r

        def pyvc_getitem(self, ex, i):
            if i == (0, 0) or i == 0:
                return self.r
            raise Unsupported("argwhere index")

    def np_argwhere(ex, cond, size=None, fill_value=None):
        used(ex, "jnp.argwhere(c, size=1, fill_value=f)[0, 0] = first index where c holds, f if none")
        if size != 1 or not isinstance(cond, Arr):
            raise Unsupported("argwhere other than size=1 on a 1-D array")
        r = ex.fresh("argwhere", INT)
        jv = z3.Int("j!aw")
        f = toz(fill_value)
        c = lambda t: z3.Select(cond.a, t)
        ex.assume(z3.Or(z3.And(r == f, z3.ForAll([jv], z3.Implies(z3.And(0 <= jv, jv < cond.n), z3.Not(c(jv))))),
                        z3.And(0 <= r, r < cond.n, c(r), z3.ForAll([jv], z3.Implies(z3.And(0 <= jv, jv < r), z3.Not(c(jv)))))))
        ex.ghost.setdefault("argwhere", []).append(r)      # the witness, so that contracts need no existential
        return _ArgWhere(r)

    def np_flip(ex, a, axis=None):
        used(ex, "jnp.flip(a)[j] = a[n - 1 - j]")
        if not isinstance(a, Arr):
            raise Unsupported("flip on non-array")
        jv = z3.Int("j!ew")
        return Arr(z3.Lambda([jv], z3.Select(a.a, a.n - 1 - jv)), a.n)

    def np_searchsorted(ex, a, v, side="left", **k):
        used(ex, "jnp.searchsorted(a, v, side): for a non-decreasing a, the first index whose entry is >= v (side='left') / > v (side='right'), len(a) if none")
        if not isinstance(a, Arr):
            raise Unsupported("searchsorted on non-array")
        r = ex.fresh("searchsorted", INT)
        jv = z3.Int("j!ss")
        v = coerce(v, a.sort())
        before = (lambda t: z3.Select(a.a, t) < v) if side == "left" else (lambda t: z3.Select(a.a, t) <= v)
        ex.assume(z3.And(0 <= r, r <= a.n, z3.ForAll([jv], z3.Implies(z3.And(0 <= jv, jv < r), before(jv))), z3.Or(r == a.n, z3.Not(before(r)))))
        return r

    def np_ones(ex, shape=(), **k):
        if shape == () or shape == []:
            return 1.0
        if isinstance(shape, (tuple, list)) and len(shape) == 1:
            return Arr(z3.K(INT, z3.RealVal(1)), shape[0])
        raise Unsupported("ones(shape)")

    def np_zeros(ex, shape=(), **k):
        if shape == () or shape == []:
            return 0.0
        if isinstance(shape, (tuple, list)) and len(shape) == 1:
            return Arr(z3.K(INT, z3.RealVal(0)), shape[0])
        raise Unsupported("zeros(shape)")

    def np_argmax(ex, x, axis=None, **k):
        """first index of a maximal entry (for a boolean array: the first True, 0 if there is none); NaN-free arrays only"""
        if not isinstance(x, Arr):
            raise Unsupported("argmax of a non-array")
        used(ex, "jnp.argmax(x): the FIRST index of a maximal entry (booleans ordered False < True, so 0 when no entry is True)")
        val = (lambda t: z3.If(z3.Select(x.a, t), 1, 0)) if x.sort() == BOOL else (lambda t: z3.Select(x.a, t))
        r = ex.fresh("argmax", INT)
        i = z3.Int(f"i!amx{next(ex.fresh_n)}")
        ex.oblige("argmax-of-nonempty", x.n >= 1, kind="safety")
        ex.assume(z3.And(0 <= r, r < x.n))
        ex.assume(z3.ForAll([i], z3.Implies(z3.And(0 <= i, i < x.n), val(i) <= val(r))))
        ex.assume(z3.ForAll([i], z3.Implies(z3.And(0 <= i, i < r), val(i) < val(r))))
        return r

    def np_full(ex, shape, fill_value, dtype=None, **k):
        used(ex, "numpy.full(shape, v): an array of that shape with every entry v")
        if isinstance(shape, (tuple, list)) and len(shape) == 1:
            return Arr(z3.K(INT, toz(coerce(fill_value, REAL) if not is_sym(fill_value) or toz(fill_value).sort() != INT else fill_value)), shape[0])
        raise Unsupported("full with a multi-dimensional shape")

    def np_issubdtype(ex, d, kind):
        used(ex, "dtype predicates (issubdtype) are unknown booleans: both outcomes are explored (floats are reals, dtypes are opaque tags)")
        return ex.fresh("issubdtype", BOOL)

    def np_all(ex, x, axis=None, **k):
        if isinstance(x, Arr):
            jv = z3.Int(f"j!all{next(ex.fresh_n)}")
            return z3.ForAll([jv], z3.Implies(z3.And(0 <= jv, jv < x.n), z3.Select(x.a, jv)))
        return ex.truth(x)

    def np_any(ex, x, axis=None, **k):
        if isinstance(x, Arr):
            jv = z3.Int(f"j!any{next(ex.fresh_n)}")
            return z3.Exists([jv], z3.And(0 <= jv, jv < x.n, z3.Select(x.a, jv)))
        return ex.truth(x)

    def np_amax(ex, x, axis=None, **k):
        if isinstance(x, Arr):
            return axiomatize_max(ex, [], x, "max")
        if is_sym(x) and x.sort() == Leaf:
            return z3.Function("vector_max", Leaf, Leaf)(x)      # reduction of an opaque vector: a different value, not the vector
        return x

    def np_amin(ex, x, axis=None, **k):
        if isinstance(x, Arr):
            return axiomatize_max(ex, [], x, "min")
        if is_sym(x) and x.sort() == Leaf:
            return z3.Function("vector_min", Leaf, Leaf)(x)
        return x

    common = dict(result_type=np_result_type, stack=np_stack, argmax=np_argmax, full=np_full, issubdtype=np_issubdtype, floating=TypeTag("floating"), integer=TypeTag("integer"), all=np_all, any=np_any, flip=np_flip, searchsorted=np_searchsorted, max=np_amax, min=np_amin, amax=np_amax, amin=np_amin, zeros=np_zeros, interp=np_interp, argwhere=np_argwhere, ones=np_ones, arange=np_arange, array=np_array, asarray=np_asarray, where=np_where, clip=np_clip, roll=np_roll, take=np_take, maximum=np_maximum, minimum=np_minimum,
                  isnan=np_isnan, ceil=np_ceil, floor=np_floor, sqrt=np_sqrt, zeros_like=np_zeros_like, ones_like=np_ones_like,
                  logical_and=np_logical("and"), logical_or=np_logical("or"), logical_not=np_logical_not, exp=np_exp, log=np_log, tanh=np_tanh,
                  arctanh=np_arctanh, abs=b_abs, square=lambda ex, x: ex.binop(ast.Mult(), x, x),
                  int32=lambda ex, x=0: x, float32=lambda ex, x=0.0: b_float(ex, x), int64=lambda ex, x=0: x, float64=lambda ex, x=0.0: b_float(ex, x),
                  ndarray=TypeTag("ndarray"), inf=None, pi=3.141592653589793)
    jnp = NS("jax.numpy", dict(common))
    jnp.entries["inf"] = _INF
    onp = NS("numpy", dict(common))
    onp.entries["inf"] = _INF
    lib.ns["jax.numpy"] = jnp
    lib.ns["numpy"] = onp

    # ------------------------------------------------------------------ jax.tree_util / lax
    def tree_leaves_of(x):
        """generic pytree flattening of our value domain: None is an empty subtree"""
        if x is None:
            return []
        if isinstance(x, (list, tuple)):
            out = []
            for i in x:
                out += tree_leaves_of(i)
            return out
        if isinstance(x, dict):
            out = []
            for k in sorted(x.keys(), key=repr):
                out += tree_leaves_of(x[k])
            return out
        if isinstance(x, Rec) and x.frozen:
            out = []
            for k in x.f:
                if k in _static_fields(x):
                    continue
                out += tree_leaves_of(x.f[k])
            return out
        return [x]

    def _static_fields(rec):
        return STATIC_FIELDS.get(rec.cls, ())

    def tree_map_impl(ex, f, trees, is_leaf=None):
        t0 = trees[0]
        if t0 is None:
            return None
        if is_leaf is not None and ex.decide(ex.truth(ex.call(is_leaf, [t0], {}))):
            return ex.call(f, list(trees), {})
        if isinstance(t0, (list, tuple)):
            for t in trees[1:]:
                if not isinstance(t, (list, tuple)) or len(t) != len(t0):
                    raise RaiseEx("ValueError", msg="tree structure mismatch")
            out = [tree_map_impl(ex, f, [t[i] for t in trees], is_leaf) for i in range(len(t0))]
            return type(t0)(out) if isinstance(t0, tuple) else out
        if isinstance(t0, dict):
            for t in trees[1:]:
                if not isinstance(t, dict) or set(t.keys()) != set(t0.keys()):
                    raise RaiseEx("ValueError", msg="tree structure mismatch")
            return {k: tree_map_impl(ex, f, [t[k] for t in trees], is_leaf) for k in t0}
        if isinstance(t0, Rec) and t0.frozen:
            for t in trees[1:]:
                if not isinstance(t, Rec) or t.cls != t0.cls:
                    raise RaiseEx("ValueError", msg="tree structure mismatch")
            st = _static_fields(t0)
            f2 = {k: (t0.f[k] if k in st else tree_map_impl(ex, f, [t.f[k] for t in trees], is_leaf)) for k in t0.f}
            r = Rec(t0.cls, f2, module=t0.module, frozen=True)
            if hasattr(t0, "local_class"):
                r.local_class = t0.local_class
            return r
        # at a leaf of the first tree the other trees are taken as they are (flatten_up_to), including None
        return ex.call(f, list(trees), {})

    def tree_map(ex, f, *trees, is_leaf=None):
        used(ex, "jax.tree_util.tree_map applies f leafwise over matching pytrees (dict/list/tuple/dataclass nodes, None = empty subtree)")
        if not trees:
            raise RaiseEx("TypeError", msg="tree_map() missing 1 required positional argument: 'tree'")
        return tree_map_impl(ex, f, list(trees), is_leaf)

    def tree_leaves(ex, x, is_leaf=None):
        used(ex, "jax.tree_util.tree_leaves flattens a pytree in a fixed order")
        return tree_leaves_of(x)

    def tree_reduce(ex, f, tree, *init):
        used(ex, "jax.tree_util.tree_reduce folds f over the leaves in order")
        leaves = tree_leaves_of(tree)
        if init:
            acc = init[0]
        elif leaves:
            acc, leaves = leaves[0], leaves[1:]
        else:
            raise RaiseEx("TypeError", msg="reduce of empty tree")
        for l in leaves:
            acc = ex.call(f, [acc, l], {})
        return acc

    class _TreeDef:
        """structure of a pytree of our value domain (the tree itself with its leaves ignored)"""
        def __init__(self, template):
            self.template = template

        def pyvc_getattr(self, ex, attr):
            if attr == "num_leaves":
                return len(tree_leaves_of(self.template))
            raise Unsupported(f"treedef attribute {attr}")

    def tree_rebuild(t, it):
        if t is None:
            return None
        if isinstance(t, (list, tuple)):
            out = [tree_rebuild(i, it) for i in t]
            return tuple(out) if isinstance(t, tuple) else out
        if isinstance(t, dict):
            vals = {k: tree_rebuild(t[k], it) for k in sorted(t.keys(), key=repr)}
            return {k: vals[k] for k in t}
        if isinstance(t, Rec) and t.frozen:
            st = _static_fields(t)
            r = Rec(t.cls, {k: (t.f[k] if k in st else tree_rebuild(t.f[k], it)) for k in t.f}, module=t.module, frozen=True)
            return r
        return next(it)

    def tree_flatten(ex, x, is_leaf=None):
        used(ex, "jax.tree_util.tree_flatten / tree_unflatten / tree_structure: leaves in a fixed order + the structure; unflatten(structure, leaves) puts them back in that order")
        if is_leaf is not None:
            raise Unsupported("tree_flatten with is_leaf")
        return (tree_leaves_of(x), _TreeDef(x))

    def tree_structure(ex, x, is_leaf=None):
        return tree_flatten(ex, x, is_leaf)[1]

    def tree_unflatten(ex, treedef, leaves):
        if not isinstance(treedef, _TreeDef):
            raise Unsupported("tree_unflatten with an unknown treedef")
        ls = ex.concrete_iter(leaves)
        if ls is None and hasattr(leaves, "unpack"):
            ls = leaves.unpack(ex, len(tree_leaves_of(treedef.template)))
        if ls is None:
            raise Unsupported("tree_unflatten of symbolic leaves")
        ls = list(ls)
        if len(ls) != len(tree_leaves_of(treedef.template)):
            raise RaiseEx("ValueError", msg="tree_unflatten: wrong number of leaves")
        return tree_rebuild(treedef.template, iter(ls))

    tree_util = NS("jax.tree_util", {"tree_map": tree_map, "tree_leaves": tree_leaves, "tree_reduce": tree_reduce, "tree_flatten": tree_flatten,
                                     "tree_unflatten": tree_unflatten, "tree_structure": tree_structure})

    def lax_cond(ex, pred, tf, ff, *ops):
        used(ex, "jax.lax.cond(p, f, g, *ops) evaluates exactly one branch: f(*ops) if p else g(*ops) (un-vmapped)")
        if ex.opts.get("cond_raises"):
            # the tracing-time failure mode of lax.cond: the two branches' results cannot be unified (TypeError), neither result is available
            raise RaiseEx(ex.opts["cond_raises"], None)
        if ex.decide(ex.truth(pred)):
            return ex.call(tf, list(ops), {})
        return ex.call(ff, list(ops), {})

    def lax_dynamic_slice(ex, x, start, sizes):
        used(ex, "jax.lax.dynamic_slice(x, [s], [w]) = x[s':s'+w]: a negative start is first wrapped (s + len), then clamped into [0, len - w] (JAX semantics; checked by tools/model_diff.py)")
        if not isinstance(x, Arr) or len(start) != 1 or len(sizes) != 1:
            raise Unsupported("dynamic_slice on other than a 1-D leading axis")
        w = toz(sizes[0])
        s0 = toz(start[0])
        ex.oblige("dynamic-slice-size-fits", z3.And(w >= 0, w <= x.n), kind="safety")
        s1 = z3.If(s0 < 0, s0 + x.n, s0)
        sc = z3.If(s1 < 0, 0, z3.If(s1 > x.n - w, x.n - w, s1))
        jv = z3.Int("j!ew")
        return Arr(z3.Lambda([jv], z3.Select(x.a, sc + jv)), w)

    def lax_fori_loop(ex, lo, hi, body, init):
        h = ex.opts.get("fori_loop")
        if h is None:
            raise Unsupported("jax.lax.fori_loop needs an iteration contract (opts['fori_loop'])")
        used(ex, "jax.lax.fori_loop(lo, hi, body, x) = body(hi-1, ... body(lo, x)) (iteration contract; body verified on an arbitrary carry)")
        return h(ex, lo, hi, body, init)

    def lax_scan(ex, f, init, xs=None, length=None, **k):
        h = ex.opts.get("scan")
        if h is None:
            raise Unsupported("jax.lax.scan needs a fold contract (opts['scan'])")
        used(ex, "jax.lax.scan(f, c, xs) folds f over the leading axis of xs and stacks the per-step outputs (fold contract; f verified on an arbitrary carry)")
        return h(ex, f, init, xs, length)

    def lax_while_loop(ex, cond, body, init):
        """invariant rule for jax.lax.while_loop (sidecar invariant under the key ('lax.while_loop', 1))"""
        used(ex, "jax.lax.while_loop(c, b, x) iterates b while c holds (invariant rule; termination not proved)")
        spec = ex.loops.get(("lax.while_loop", 1))
        if spec is None:
            raise Unsupported("lax.while_loop needs an invariant")
        ex.oblige("while_loop.init", spec.inv(ex, init), kind="loop-init")
        x = ex.havoc(init, "while_carry")
        ex.assume(spec.inv(ex, x))
        if ex.decide(ex.truth(ex.call(cond, [x], {}))):
            x2 = ex.call(body, [x], {})
            ex.oblige("while_loop.preserve", spec.inv(ex, x2), kind="loop-preserve")
            raise CutPath("while_loop body done")
        return x

    lax = NS("jax.lax", {"while_loop": lax_while_loop, "cond": lax_cond, "stop_gradient": lambda ex, x: x, "fori_loop": lax_fori_loop, "scan": lax_scan, "dynamic_slice": lax_dynamic_slice})
    SPLIT = z3.Function("rng_split", Leaf, INT, Leaf)

    class _Keys:
        def __init__(self, rng, n):
            self.rng, self.n = rng, n

        def unpack(self, ex, k):
            return [SPLIT(self.rng, i) for i in range(k)]

        def pyvc_iter(self):
            return [SPLIT(self.rng, i) for i in range(self.n)] if isinstance(self.n, int) else None

        def pyvc_getattr(self, ex, attr):
            if attr == "reshape":
                return lambda ex_, *shape: self          # (n, 2) -> (n, 2): the key array keeps one key per row
            raise Unsupported(f"attribute {attr!r} of a key array")

        def pyvc_getitem(self, ex, i):
            if isinstance(i, slice):
                if isinstance(self.n, int) and all(x is None or isinstance(x, int) for x in (i.start, i.stop, i.step)):
                    return [SPLIT(self.rng, t) for t in range(self.n)[i]]
                return _KeySlice(self, i)
            return SPLIT(self.rng, toz(i))

    class _KeySlice:
        def __init__(self, keys, sl):
            self.keys, self.sl = keys, sl

    def rnd_split(ex, rng, num=2):
        used(ex, "jax.random.split(key, n) returns n keys that are functions of (key, index)")
        return _Keys(rng, num)

    rnd = NS("jax.random", {"split": rnd_split, "PRNGKey": lambda ex, seed: z3.Const(f"PRNGKey({seed})", Leaf)})
    lib.KeysType = _Keys
    jaxns = NS("jax", {"tree_util": tree_util, "lax": lax, "numpy": jnp, "random": rnd, "Array": TypeTag("jax.Array"),
                       "tree_map": tree_map, "tree_leaves": tree_leaves})
    jaxns.entries["dtypes"] = NS("jax.dtypes", {"canonicalize_dtype": lambda ex, d: d})
    jaxns.entries["errors"] = NS("jax.errors", {"TracerArrayConversionError": TypeTag("TracerArrayConversionError")})
    lib.ns["jax"] = jaxns
    lib.ns["jax.tree_util"] = tree_util
    lib.ns["jax.lax"] = lax
    lib.ns["jax.random"] = rnd
    lib.tree_leaves_of = tree_leaves_of
    lib.tree_map_impl = tree_map_impl

    # time: wall clock values are havoc
    def time_time(ex):
        used(ex, "time.time() returns an arbitrary real (wall clock is havoc)")
        return ex.fresh("wallclock", REAL)

    lib.ns["time"] = NS("time", {"time": time_time, "sleep": lambda ex, s: None})
    lib.ns["distrax"] = NS("distrax", {"Distribution": TypeTag("distrax.Distribution")})
    def eqx_tree_at(ex, where, tree, replace, is_leaf=None):
        """functional update of the sub-tree selected by `where` (a lambda made of attribute / constant-subscript accesses)"""
        used(ex, "equinox.tree_at(where, tree, replace) returns a copy of tree whose node selected by `where` is `replace`")
        if not isinstance(where, Closure) or not isinstance(where.node, ast.Lambda):
            raise Unsupported("tree_at with a non-lambda selector")
        path = []
        n = where.node.body
        param = where.node.args.args[0].arg
        while not (isinstance(n, ast.Name) and n.id == param):
            if isinstance(n, ast.Attribute):
                path.append(("attr", n.attr))
                n = n.value
            elif isinstance(n, ast.Subscript):
                ex.frames.append(I.Frame({}, where.env_chain, where.module, "<where>"))
                try:
                    key = ex.key(ex.expr(n.slice))
                finally:
                    ex.frames.pop()
                path.append(("item", key))
                n = n.value
            else:
                raise Unsupported("tree_at selector shape")
        path.reverse()

        def upd(node, i):
            if i == len(path):
                return replace
            kind, k = path[i]
            if kind == "attr":
                if not isinstance(node, Rec) or k not in node.f:
                    raise RaiseEx("AttributeError", msg=str(k))
                f = dict(node.f)
                f[k] = upd(node.f[k], i + 1)
                r = Rec(node.cls, f, module=node.module, frozen=node.frozen)
                return r
            if not isinstance(node, dict) or k not in node:
                raise RaiseEx("KeyError", msg=str(k))
            d = dict(node)
            d[k] = upd(node[k], i + 1)
            return d
        return upd(tree, 0)

    lib.ns["equinox"] = NS("equinox", {"tree_at": eqx_tree_at})
    lib.ns["networkx"] = NS("networkx", {})
    lib.ns["supergraph"] = NS("supergraph", {})
    lib.ns["traceback"] = NS("traceback", {})
    def future_new(ex):
        used(ex, "concurrent.futures.Future: set_result stores a value, result() returns it or raises CancelledError if cancelled (blocking is not modelled)")
        return Rec("Future", dict(_result=None, _done=False, _cancelled=False), module=None)

    def fut_set_result(ex, o):
        def f(ex_, v):
            o.f["_result"], o.f["_done"] = v, True
        return f

    def fut_cancel(ex, o):
        def f(ex_):
            if not o.f["_done"]:
                o.f["_cancelled"] = True
            return o.f["_cancelled"]
        return f

    def fut_result(ex, o):
        def f(ex_, timeout=None):
            c = o.f["_cancelled"]
            if ex_.decide(ex_.truth(c)):
                raise RaiseEx("CancelledError")
            return o.f["_result"]
        return f

    lib.rec_methods[("Future", "set_result")] = fut_set_result
    lib.rec_methods[("Future", "cancel")] = fut_cancel
    lib.rec_methods[("Future", "result")] = fut_result
    lib.rec_methods[("Future", "add_done_callback")] = lambda ex, o: (lambda ex_, cb: None)
    lib.ns["concurrent.futures"] = NS("concurrent.futures", {"Future": CallableTag("Future", future_new), "CancelledError": TypeTag("CancelledError"),
                                                                "ThreadPoolExecutor": TypeTag("ThreadPoolExecutor")})
    lib.ns["threading"] = NS("threading", {"local": lambda ex: Rec("local", {}, module=None)})    # one analysed thread: thread-local storage is an attribute bag
    lib.ns["math"] = NS("math", {"ceil": lambda ex, x: b_int(ex, np_ceil(ex, x)), "floor": lambda ex, x: b_int(ex, np_floor(ex, x)), "inf": _INF})


class _EmptyDeque:
    """a deque() created by the analysed code: concrete contents (python list of values), the usual deque operations"""
    def __init__(self):
        self.items = []

    def items_list(self):
        return list(self.items)

    def length(self):
        return len(self.items)

    def pyvc_getattr(self, ex, attr):
        it = self.items
        if attr == "append":
            return lambda ex_, v: it.append(v)
        if attr == "appendleft":
            return lambda ex_, v: it.insert(0, v)
        if attr == "extend":
            def extend(ex_, vs):
                c = ex_.concrete_iter(vs)
                if c is None:
                    raise Unsupported("deque.extend with a symbolic iterable")
                it.extend(list(c))
            return extend
        if attr == "popleft":
            def popleft(ex_):
                if not it:
                    raise RaiseEx("IndexError", msg="pop from an empty deque")
                return it.pop(0)
            return popleft
        if attr == "pop":
            def pop(ex_):
                if not it:
                    raise RaiseEx("IndexError", msg="pop from an empty deque")
                return it.pop()
            return pop
        if attr == "clear":
            return lambda ex_: it.clear()
        raise Unsupported(f"attribute {attr!r} of a deque")

    def pyvc_getitem(self, ex, i):
        if isinstance(i, int) and -len(self.items) <= i < len(self.items):
            return self.items[i]
        if isinstance(i, int):
            raise RaiseEx("IndexError", msg="deque index out of range")
        raise Unsupported("symbolic index into a concrete deque")

    def pyvc_iter(self, ex):
        return list(self.items)


class _Inf:
    def __init__(self, sign):
        self.sign = sign

    def __neg__(self):
        return _NINF if self.sign > 0 else _INF


_INF = _Inf(1)
_NINF = _Inf(-1)

EXP = z3.Function("exp", REAL, REAL)
LOG = z3.Function("log", REAL, REAL)
TANH = z3.Function("tanh", REAL, REAL)
ATANH = z3.Function("arctanh", REAL, REAL)

STATIC_FIELDS = {
    "SlotVertex": ("kind", "generation"),
    "StaticDist": ("dist",) if False else (),
    "TrainableDist": ("min", "max", "interp"),
}
