"""Back ends: z3 (python API, one fresh context per query, process pool) and cvc5 (CLI on the SMT-LIB dump).

prove mode : axioms + hyps + not(goal)  -> unsat means discharged.
refute mode: quantified hypotheses instantiated on the index terms in use, library axioms grounded on the
             applications that occur, quantifiers dropped -> sat gives a candidate counterexample (arbiter: native replay).
"""
import time
import itertools, os, subprocess, tempfile, time, multiprocessing as mp
import z3
from .values import R6, REAL, INT, BOOL, PYMOD, PYDIV
from .libmodels import EXP, LOG, TANH, ATANH

_x, _y = z3.Reals("ax!x ax!y")


def library_axioms(formulas):
    """quantified axioms for the uninterpreted library functions that occur in `formulas`"""
    names = _decl_names(formulas)
    ax = []
    if "R6" in names:
        ax += [z3.ForAll([_x, _y], z3.Implies(_x <= _y, R6(_x) <= R6(_y)), patterns=[z3.MultiPattern(R6(_x), R6(_y))]),
               z3.ForAll([_x], R6(R6(_x)) == R6(_x), patterns=[R6(_x)]),
               z3.ForAll([_x], z3.And(R6(_x) - _x <= z3.RealVal("5e-7"), _x - R6(_x) <= z3.RealVal("5e-7")), patterns=[R6(_x)])]
    if "pymod" in names or "pydiv" in names:
        a, b = z3.Ints("ax!a ax!b")
        ax += [z3.ForAll([a, b], z3.Implies(b != 0, z3.And(a == PYDIV(a, b) * b + PYMOD(a, b),
                                                            z3.Implies(b > 0, z3.And(0 <= PYMOD(a, b), PYMOD(a, b) < b)),
                                                            z3.Implies(b < 0, z3.And(b < PYMOD(a, b), PYMOD(a, b) <= 0)))),
                         patterns=[PYMOD(a, b), PYDIV(a, b)])]
    if "exp" in names or "log" in names:
        ax += [z3.ForAll([_x], EXP(_x) > 0, patterns=[EXP(_x)]),
               z3.ForAll([_x], LOG(EXP(_x)) == _x, patterns=[EXP(_x)]),
               z3.ForAll([_x], z3.Implies(_x > 0, EXP(LOG(_x)) == _x), patterns=[LOG(_x)]),
               z3.ForAll([_x, _y], z3.Implies(_x < _y, EXP(_x) < EXP(_y)), patterns=[z3.MultiPattern(EXP(_x), EXP(_y))])]
    if "tanh" in names or "arctanh" in names:
        ax += [z3.ForAll([_x], z3.And(TANH(_x) > -1, TANH(_x) < 1), patterns=[TANH(_x)]),
               z3.ForAll([_x], ATANH(TANH(_x)) == _x, patterns=[TANH(_x)]),
               z3.ForAll([_x], z3.Implies(z3.And(_x > -1, _x < 1), TANH(ATANH(_x)) == _x), patterns=[ATANH(_x)]),
               z3.ForAll([_x, _y], z3.Implies(_x < _y, TANH(_x) < TANH(_y)), patterns=[z3.MultiPattern(TANH(_x), TANH(_y))])]
    return ax


def _decl_names(formulas):
    names = set()
    seen = set()
    stack = list(formulas)
    while stack:
        e = stack.pop()
        if e.get_id() in seen:
            continue
        seen.add(e.get_id())
        if z3.is_quantifier(e):
            stack.append(e.body())
        elif z3.is_app(e):
            if e.decl().kind() == z3.Z3_OP_UNINTERPRETED and e.num_args() > 0:
                names.add(e.decl().name())
            stack.extend(e.children())
    return names


def _collect(formulas, pred):
    out = {}
    seen = set()
    stack = list(formulas)
    while stack:
        e = stack.pop()
        if e.get_id() in seen:
            continue
        seen.add(e.get_id())
        if z3.is_quantifier(e):
            continue  # do not look under binders (bound variables)
        if z3.is_app(e):
            if pred(e):
                out[e.get_id()] = e
            stack.extend(e.children())
    return list(out.values())


def _has_var(e):
    seen = set()
    stack = [e]
    while stack:
        x = stack.pop()
        if x.get_id() in seen:
            continue
        seen.add(x.get_id())
        if z3.is_var(x):
            return True
        if z3.is_quantifier(x):
            stack.append(x.body())
        else:
            stack.extend(x.children())
    return False


def _flatten_and(e):
    if z3.is_and(e):
        out = []
        for c in e.children():
            out += _flatten_and(c)
        return out
    return [e]


def ground_library(formulas):
    """instances of the library axioms for exactly the applications that occur (what a trigger would instantiate)"""
    out = []
    apps = _collect(formulas, lambda e: e.decl().kind() == z3.Z3_OP_UNINTERPRETED and e.num_args() > 0 and e.decl().name() in ("pymod", "pydiv", "R6", "exp", "log", "tanh", "arctanh"))
    r6 = []
    for e in apps:
        nm = e.decl().name()
        if nm in ("pymod", "pydiv"):
            a, b = e.arg(0), e.arg(1)
            if _has_var(a) or _has_var(b):
                continue
            out.append(z3.Implies(b != 0, z3.And(a == PYDIV(a, b) * b + PYMOD(a, b), z3.Implies(b > 0, z3.And(0 <= PYMOD(a, b), PYMOD(a, b) < b)), z3.Implies(b < 0, z3.And(b < PYMOD(a, b), PYMOD(a, b) <= 0)))))
        elif nm == "R6" and not _has_var(e.arg(0)):
            t = e.arg(0)
            r6.append(t)
            out += [R6(R6(t)) == R6(t), R6(t) - t <= z3.RealVal("5e-7"), t - R6(t) <= z3.RealVal("5e-7")]
        elif nm == "exp" and not _has_var(e.arg(0)):
            out += [EXP(e.arg(0)) > 0, LOG(EXP(e.arg(0))) == e.arg(0)]
        elif nm == "log" and not _has_var(e.arg(0)):
            out.append(z3.Implies(e.arg(0) > 0, EXP(LOG(e.arg(0))) == e.arg(0)))
        elif nm == "tanh" and not _has_var(e.arg(0)):
            out += [TANH(e.arg(0)) > -1, TANH(e.arg(0)) < 1, ATANH(TANH(e.arg(0))) == e.arg(0)]
        elif nm == "arctanh" and not _has_var(e.arg(0)):
            out.append(z3.Implies(z3.And(e.arg(0) > -1, e.arg(0) < 1), TANH(ATANH(e.arg(0))) == e.arg(0)))
    for i, t in enumerate(r6[:40]):
        for u in r6[:40]:
            if t.get_id() != u.get_id():
                out.append(z3.Implies(t <= u, R6(t) <= R6(u)))
    return out


def ground(hyps, goal, cap=400):
    """quantifier-free weakening of hyps (sound for refutation *candidates* only)."""
    neg = z3.Not(goal)
    flat = []
    for h in list(hyps) + [neg]:
        flat += _flatten_and(h)
    qf = [h for h in flat if not z3.is_quantifier(h)]
    quants = [h for h in flat if z3.is_quantifier(h) and h.is_forall()]
    other = [h for h in flat if z3.is_quantifier(h) and not h.is_forall()]
    # skolemise existentials at top level
    for h in other:
        vs = [z3.FreshConst(h.var_sort(i), "sk") for i in range(h.num_vars())]
        body = z3.substitute_vars(h.body(), *reversed(vs))
        qf += _flatten_and(body)
    out = list(qf)
    for _round in range(2):
        idx_int = _collect(out, lambda e: e.decl().kind() == z3.Z3_OP_SELECT)
        int_terms = {}
        for s in idx_int:
            t = s.arg(1)
            if t.sort() == INT and not _has_var(t):
                int_terms[t.get_id()] = t
        for e in _collect(out, lambda e: e.sort() == INT and e.decl().kind() == z3.Z3_OP_UNINTERPRETED and e.num_args() == 0):
            int_terms.setdefault(e.get_id(), e)
        real_terms = {}
        for e in _collect(out, lambda e: e.decl().kind() == z3.Z3_OP_UNINTERPRETED and e.num_args() == 1 and e.arg(0).sort() == REAL):
            real_terms[e.arg(0).get_id()] = e.arg(0)
        new = []
        for h in quants:
            n = h.num_vars()
            sorts = [h.var_sort(i) for i in range(n)]
            pools = []
            for s in sorts:
                if s == INT:
                    base = list(int_terms.values())
                    pools.append(base + [t + 1 for t in base[:6]] + [t - 1 for t in base[:6]] + [z3.IntVal(0)])
                elif s == REAL:
                    pools.append(list(real_terms.values()) or [z3.RealVal(0)])
                else:
                    pools.append([])
            if any(not p for p in pools):
                continue
            for combo in itertools.islice(itertools.product(*pools), cap):
                try:
                    new.append(z3.substitute_vars(h.body(), *reversed(combo)))
                except z3.Z3Exception:
                    pass
        out = qf + new
    return [h for h in out if not _contains_quant(h)]


def _contains_quant(e):
    seen = set()
    stack = [e]
    while stack:
        x = stack.pop()
        if x.get_id() in seen:
            continue
        seen.add(x.get_id())
        if z3.is_quantifier(x):
            return True
        stack.extend(x.children())
    return False


def is_nonlinear(e):
    """contains a product / quotient of two non-constant terms"""
    seen = set()
    stack = [e]
    while stack:
        x = stack.pop()
        if x.get_id() in seen:
            continue
        seen.add(x.get_id())
        if z3.is_quantifier(x):
            stack.append(x.body())
            continue
        if z3.is_app(x):
            k = x.decl().kind()
            if k in (z3.Z3_OP_MUL, z3.Z3_OP_DIV, z3.Z3_OP_IDIV, z3.Z3_OP_MOD):
                nonconst = [c for c in x.children() if not (z3.is_rational_value(c) or z3.is_int_value(c))]
                if len(nonconst) >= 2 or (k != z3.Z3_OP_MUL and not (z3.is_rational_value(x.arg(1)) or z3.is_int_value(x.arg(1)))):
                    return True
            stack.extend(x.children())
    return False


def to_smt2(assertions):
    s = z3.Solver()
    s.add(assertions)
    return s.to_smt2()


# ---------------------------------------------------------------------------------------- workers
def _solve_z3(smt2, timeout_ms, want_model, probes=()):
    ctx = z3.Context()
    s = z3.Solver(ctx=ctx)
    s.set(timeout=timeout_ms)
    t0 = time.time()
    try:
        s.from_string(smt2)
        r = s.check()
    except z3.Z3Exception as e:
        return {"result": "error", "reason": str(e)[:300], "time": time.time() - t0}
    out = {"result": str(r), "time": time.time() - t0}
    if r == z3.unknown:
        out["reason"] = s.reason_unknown()
    if r == z3.sat and want_model:
        m = s.model()
        d = {}
        for decl in m.decls():
            try:
                v = m[decl]
                d[decl.name()] = _val_str(v)
            except Exception:
                pass
        out["model"] = d
    return out


def _val_str(v):
    if z3.is_rational_value(v) or z3.is_int_value(v) or z3.is_true(v) or z3.is_false(v) or z3.is_algebraic_value(v):
        return str(v)
    s = str(v)
    return s if len(s) < 2000 else s[:2000] + "..."


def _solve_cvc5(smt2, timeout_ms):
    t0 = time.time()
    text = "(set-logic ALL)\n" + "\n".join(l for l in smt2.splitlines() if not l.startswith("(set-info")) + "\n"
    with tempfile.NamedTemporaryFile("w", suffix=".smt2", delete=False) as f:
        f.write(text)
        path = f.name
    try:
        p = subprocess.run(["/usr/bin/cvc5", "--lang=smt2", f"--tlimit={timeout_ms}", path], capture_output=True, text=True, timeout=timeout_ms / 1000 + 10)
        res = p.stdout.strip().splitlines()[0] if p.stdout.strip() else "error"
        if res not in ("sat", "unsat", "unknown"):
            res = "unknown"
        return {"result": res, "time": time.time() - t0, "reason": (p.stderr or "")[:200]}
    except subprocess.TimeoutExpired:
        return {"result": "unknown", "time": time.time() - t0, "reason": "timeout"}
    finally:
        os.unlink(path)


_OBS = []      # obligations of the current discharge() call; workers inherit them through fork (no serialisation)
_CFG = {}


def _check(assertions, timeout_ms, want_model=False, probes=None):
    s = z3.Solver()
    s.set(timeout=timeout_ms)
    s.add(assertions)
    t0 = time.time()
    try:
        r = s.check()
    except z3.Z3Exception as e:
        return {"result": "error", "reason": str(e)[:300], "time": time.time() - t0}
    out = {"result": str(r), "time": time.time() - t0}
    if r == z3.unknown:
        out["reason"] = s.reason_unknown()
    if r == z3.sat and want_model:
        m = s.model()
        d = {}
        for decl in m.decls():
            try:
                d[decl.name()] = _val_str(m[decl])
            except Exception:
                pass
        out["model"] = d
        pv = {}
        for k, t in (probes or {}).items():
            try:
                pv[k] = str(m.eval(t, model_completion=True))
            except Exception as e:
                pv[k] = None
        out["probes"] = pv
    return out



def _to_sympy(e, atoms):
    """z3 real / int arithmetic term -> sympy expression over opaque atoms (None if something else occurs)"""
    import sympy
    if z3.is_rational_value(e) or z3.is_int_value(e):
        return sympy.Rational(e.numerator_as_long(), e.denominator_as_long()) if z3.is_rational_value(e) else sympy.Integer(e.as_long())
    if z3.is_algebraic_value(e):
        return None
    k = e.decl().kind()
    ch = e.children()
    if k in (z3.Z3_OP_TO_REAL,):
        return _to_sympy(ch[0], atoms)
    if k == z3.Z3_OP_ADD:
        xs = [_to_sympy(c, atoms) for c in ch]
        return None if any(x is None for x in xs) else sympy.Add(*xs)
    if k == z3.Z3_OP_MUL:
        xs = [_to_sympy(c, atoms) for c in ch]
        return None if any(x is None for x in xs) else sympy.Mul(*xs)
    if k == z3.Z3_OP_SUB:
        xs = [_to_sympy(c, atoms) for c in ch]
        if any(x is None for x in xs):
            return None
        out = xs[0]
        for x in xs[1:]:
            out = out - x
        return out
    if k == z3.Z3_OP_UMINUS:
        x = _to_sympy(ch[0], atoms)
        return None if x is None else -x
    if k == z3.Z3_OP_DIV:
        a, b = _to_sympy(ch[0], atoms), _to_sympy(ch[1], atoms)
        if a is None or b is None:
            return None
        atoms.setdefault("__den__", []).append(ch[1])
        return a / b
    if k == z3.Z3_OP_POWER and z3.is_int_value(ch[1]) and ch[1].as_long() >= 0:
        a = _to_sympy(ch[0], atoms)
        return None if a is None else a ** ch[1].as_long()
    if k == z3.Z3_OP_UNINTERPRETED and e.sort().kind() in (z3.Z3_REAL_SORT, z3.Z3_INT_SORT):
        key = e.sexpr()
        if key not in atoms:
            atoms[key] = sympy.Symbol(f"x{len(atoms)}")
        return atoms[key]
    return None


def ring_identity(hyps, goal, timeout_ms=5000):
    """Decides goals that are (conjunctions of) equalities between rational-function terms by normalisation in the field of rational functions (sympy cancel),
    after z3 has shown from the hypotheses that no denominator vanishes. Returns True (identity, denominators non-zero), or None (not applicable / not an identity)."""
    try:
        import sympy
    except Exception:
        return None
    eqs = [g for g in _flatten_and(goal)]
    if not eqs or not all(z3.is_eq(g) and g.children()[0].sort().kind() in (z3.Z3_REAL_SORT, z3.Z3_INT_SORT) for g in eqs):
        return None
    atoms = {}
    for g in eqs:
        a, b = (_to_sympy(c, atoms) for c in g.children())
        if a is None or b is None:
            return None
        try:
            if sympy.cancel(sympy.together(a - b)) != 0:
                return None
        except Exception:
            return None
    for d in atoms.get("__den__", []):
        r = _check(list(hyps) + [d == 0], timeout_ms)
        if r["result"] != "unsat":
            return None
    return True


def _job(idx):
    """prove (short budget) -> [cvc5] -> refute (ground) -> prove again (confirm budget) before a refutation is believed"""
    ob = _OBS[idx]
    budget_ms, also_cvc5, refute = _CFG["budget_ms"], _CFG["also_cvc5"], _CFG["refute"]
    first_ms = min(5000, budget_ms)
    log = []
    ax = library_axioms(ob.hyps + [ob.goal])
    full = ax + ob.hyps + [z3.Not(ob.goal)]
    out = {"idx": idx, "log": log}

    def proved(backend):
        out["verdict"], out["backend"] = "proved", backend
        if also_cvc5:
            c = _solve_cvc5(to_smt2(full), budget_ms)
            log.append(("cvc5-prove", c["result"], round(c["time"], 3)))
            out["cvc5_agrees"] = c["result"] == "unsat"
            if c["result"] == "sat":
                out["verdict"] = "solver-disagreement"
        return out

    r = _check(full, first_ms, True, getattr(ob, "probes", None))
    log.append(("z3-prove", r["result"], round(r["time"], 3)))
    if r["result"] == "unsat":
        return proved("z3")
    if r["result"] == "sat":
        # the solver built a model of hyps + not(goal) for the full (possibly quantified) query: a refutation, not an open obligation
        out["verdict"], out["model"], out["probes"] = "refuted", r.get("model", {}), r.get("probes", {})
        return out
    if not refute:
        out["verdict"], out["reason"] = "unknown", r.get("reason")
        return out
    g = ground(ob.hyps, ob.goal)        # user hypotheses: instantiated on the index terms in use
    g = g + ground_library(g)             # library axioms: instantiated on the applications that occur
    f = _check(g, budget_ms, True, getattr(ob, "probes", None))
    log.append(("z3-refute", f["result"], round(f["time"], 3)))
    if f["result"] == "unsat":
        return proved("z3-ground")
    if f["result"] == "sat" and getattr(ob, "expect_refuted", False):
        out["verdict"], out["model"], out["probes"] = "refuted", f.get("model", {}), f.get("probes", {})
        return out
    # a candidate refutation (or nothing): give prove mode its full budget, then cvc5, before believing it
    r2 = _check(full, budget_ms if f["result"] != "sat" else max(first_ms, budget_ms // 3))
    log.append(("z3-prove-2", r2["result"], round(r2["time"], 3)))
    if r2["result"] == "unsat":
        return proved("z3")
    c = _solve_cvc5(to_smt2(full), max(first_ms, budget_ms // 3))
    log.append(("cvc5-prove", c["result"], round(c["time"], 3)))
    if c["result"] == "unsat":
        out["verdict"], out["backend"] = "proved", "cvc5"
        return out
    if f["result"] == "sat":
        # last resort before a grounded-only candidate is reported: prove mode with three times the budget (verdicts must not flip under load)
        r3 = _check(full, budget_ms * 3)
        log.append(("z3-prove-3", r3["result"], round(r3["time"], 3)))
        if r3["result"] == "unsat":
            return proved("z3")
        out["verdict"], out["model"], out["probes"] = "refuted", f.get("model", {}), f.get("probes", {})
    else:
        # nonlinear real arithmetic that both solvers left open: identities of rational functions are decided by normalisation (no search, no budget to flip under load)
        t0 = time.time()
        ri = ring_identity(ax + ob.hyps, ob.goal) if is_nonlinear(ob.goal) or True else None
        log.append(("ring-identity", "unsat" if ri else "n/a", round(time.time() - t0, 3)))
        if ri:
            out["verdict"], out["backend"] = "proved", "sympy-ring"
            return out
        out["verdict"], out["reason"] = "unknown", f.get("reason") or r2.get("reason")
    return out


def discharge(obligations, budget_s=20, jobs=None, also_cvc5=False, refute=True):
    """obligations: list of interp.Obligation -> list of result dicts (same order).
    Workers are forked after the obligations exist and use the inherited z3 terms directly.
    NOTE: the parent must not have used z3 timeouts before (timer threads do not survive fork): Exec uses rlimit."""
    global _OBS, _CFG
    jobs = jobs or min(16, os.cpu_count() or 4)
    _OBS = list(obligations)
    _CFG = dict(budget_ms=int(budget_s * 1000), also_cvc5=also_cvc5, refute=refute)
    n = len(_OBS)
    if n == 0:
        return []
    res = [None] * n
    if jobs == 1 or n == 1:
        for i in range(n):
            res[i] = _job(i)
        return res
    ctx = mp.get_context("fork")
    with ctx.Pool(min(jobs, n)) as pool:
        for r in pool.imap_unordered(_job, range(n), chunksize=4):
            res[r["idx"]] = r
    return res
