"""Engine self-test corpus: small pure functions exercising the Python constructs that the rex functions under contract use.
tools/engine_selftest.py runs each one (a) symbolically through the PyVC executor and (b) natively in CPython on the same random inputs,
and compares path choice and results. Arguments annotated int / float / bool become symbolic Int / Real / Bool."""
import math

K = 3
TABLE = {"a": 1, "b": 2}


def floordiv_mod_int(a: int, b: int):
    if b == 0:
        return (0, 0)
    return (a // b, a % b)


def floordiv_real(x: float, d: float):
    if d == 0:
        return -1
    return int(x // d)


def mod_real(x: float, d: float):
    if d <= 0:
        return 0.0
    return x % d


def int_trunc(x: float):
    return int(x)


def int_floor_ceil(x: float):
    return (math.floor(x), math.ceil(x))


def round6(x: float):
    return round(x, 6)


def minmax(a: float, b: float, c: float):
    return (min(a, b, c), max(a, b), min([a, c]), abs(a - b))


def chained(a: int, b: int, c: int):
    return a < b <= c


def chained_mixed(a: int, x: float):
    return 0 <= a < x


def bool_ops_value(a: int, b: int):
    return (a or b, a and b, not a)


def short_circuit(a: int, b: int):
    # the division is only evaluated when b != 0
    return b != 0 and a // b > 1


def ternary_mixed(c: bool, a: int, x: float):
    return a if c else x


def nested_if(a: int, b: int):
    if a > 0:
        if b > 0:
            r = 1
        elif b == 0:
            r = 2
        else:
            r = 3
    else:
        r = 4 if b > a else 5
    return r


def aug_assign(a: int, x: float):
    a += 2
    a *= 3
    a -= 1
    x /= 2
    x += a
    return (a, x)


def tuple_swap(a: int, b: int):
    a, b = b, a + b
    (c, d), e = (a, b), a - b
    return (a, b, c, d, e)


def list_ops(a: int, b: int, c: int):
    xs = [a, b]
    xs.append(c)
    xs.insert(0, a + b)
    last = xs.pop()
    first = xs[0]
    return (first, last, xs[-1], len(xs), xs[1:], xs[:-1], xs[::-1])


def list_index_symbolic_content(a: int, b: int):
    xs = [a, b, a + b, a * 2]
    return (xs[-2], xs[1:3], sum(xs), max(xs), min(xs))


def dict_ops(a: int):
    d = dict(TABLE)
    d["c"] = a
    g = d.get("z", 7)
    had = "a" in d
    d.setdefault("a", 100)
    d.setdefault("q", a + 1)
    tot = 0
    for k, v in d.items():
        tot += v
    return (g, had, tot, len(d), sorted(d.keys()))


def for_break_continue(a: int, b: int):
    tot = 0
    for i in range(6):
        if i == a:
            continue
        if i == b:
            break
        tot += i
    return tot


def for_else(a: int):
    for i in [1, 2, 3]:
        if i == a:
            r = i * 10
            break
    else:
        r = -1
    return r


def enumerate_zip(a: int, b: int):
    out = []
    for i, (p, q) in enumerate(zip([a, b, a], [b, a, 1])):
        out.append(i * p - q)
    return out


def comprehension(a: int, b: int):
    xs = [a, b, a - b, 4]
    return ([x * 2 for x in xs if x > 0], {i: x for i, x in enumerate(xs)}, sum(1 for x in xs if x < 0))


def closures(a: int, b: int):
    def add(k):
        return lambda v: v + k + a
    f = add(b)
    g = add(1)
    return (f(1), g(2))


def defaults_kwargs(a: int, b: int):
    def f(x, y=K, *rest, z=1, **kw):
        return x + 2 * y + 3 * z + sum(rest) + kw.get("w", 0)
    return (f(a), f(a, b), f(a, b, 1, 2), f(a, z=b), f(a, w=b, y=1))


def try_raise(a: int):
    try:
        if a < 0:
            raise ValueError("negative")
        r = a
    except ValueError:
        r = -a
    return r


def assert_raises(a: int):
    assert a != 3, "three"
    return a


def bool_arith(c: bool, d: bool, a: int):
    return (c + d + 1, a * c, int(c), c == d, c != d, c and not d)


def int_pow(a: int):
    return (a ** 2, a ** 0, 2 ** 3)


def mixed_compare(a: int, x: float):
    return (a == x, a < x, a + 0.5 > x, float(a) / 2)


def true_div(a: int, b: int):
    if b == 0:
        return None
    return a / b


def none_checks(a: int):
    v = None if a > 0 else a
    return (v is None, v is not None and v < -1)


def walrus(a: int):
    if (n := a * 2) > 4:
        return n
    return -n


def string_keys(a: int):
    name = "x" + str(1)
    d = {name: a, f"y{K}": a + 1}
    return (d["x1"], d["y3"], name == "x1")


def isinstance_checks(a: int, x: float):
    t = (a, x)
    l = [a]
    return (isinstance(t, tuple), isinstance(l, (list, dict)), isinstance(None, type(None)))


def any_all(a: int, b: int):
    xs = [a > 0, b > 0, a > b]
    return (any(xs), all(xs), any(x > 3 for x in [a, b]), all([]))


def clip_scalar(x: float, lo: float, hi: float):
    if lo > hi:
        return None
    return min(max(x, lo), hi)


def sign_and_abs(x: float):
    s = (x > 0) - (x < 0)
    return (s, abs(x), -x)


def phase_like(tick: int, rate: float, phase: float):
    """the arithmetic shape of the threaded runtime's scheduled times"""
    if rate <= 0:
        return None
    ts = round(tick / rate + phase, 6)
    n = int((ts - phase) * rate + 0.5)
    return (ts, n)


def count_like(t_low: float, t_high: float, phase: float, dt: float):
    """the arithmetic shape of the blocking message count"""
    if dt <= 0 or t_high < t_low:
        return None
    i = int((t_low - phase) // dt)
    cnt = 0
    for k in range(4):
        t = round((i + k) * dt + phase, 6)
        if t_low < t <= t_high and t >= phase:
            cnt += 1
    return (i, cnt)


# ------------------------------------------------------------------ objects, aliasing, containers
from collections import deque


class Pt:
    scale = 2

    def __init__(self, a, b=1):
        self.a = a
        self.b = b

    def total(self):
        return self.a + self.b * self.scale

    @property
    def twice(self):
        return 2 * self.a

    @staticmethod
    def make(v):
        return Pt(v, v)

    @classmethod
    def zero(cls):
        return cls(0, 0)


class Pt3(Pt):
    def __init__(self, a, b, c):
        super().__init__(a, b)
        self.c = c

    def total(self):
        return super().total() + self.c


def objects(a: int, b: int):
    p = Pt(a)
    q = Pt.make(b)
    p.a += 1
    z = Pt.zero()
    return (p.total(), q.total(), p.twice, z.total(), isinstance(p, Pt), isinstance(p, Pt3), hasattr(p, "c"), hasattr(p, "a"), getattr(p, "c", -1))


def objects_super(a: int, b: int):
    r = Pt3(a, b, 5)
    return (r.total(), isinstance(r, Pt), getattr(r, "c", -1))


def aliasing(a: int):
    xs = [a]
    ys = xs
    ys.append(a + 1)
    zs = list(xs)
    zs.append(0)
    d = {"k": xs}
    d["k"].append(7)
    p = Pt(a)
    q = p
    q.a = 9
    return (len(xs), len(zs), xs is ys, xs is zs, p.a, xs[-1])


def deque_ops(a: int, b: int):
    q = deque()
    q.append(a)
    q.append(b)
    q.appendleft(a - b)
    h = q.popleft()
    n = len(q)
    t = q[-1]
    q.clear()
    return (h, n, t, len(q), bool(q))


def star_unpack(a: int, b: int):
    first, *rest = [a, b, a + b]
    *init, last = (a, b, 3)
    return (first, rest, init, last)


def contains_symbolic(a: int, b: int):
    xs = [1, b, 5]
    return (a in xs, a not in xs, 5 in xs)


def while_concrete(a: int):
    i = 0
    tot = 0
    while i < 4:
        tot += a * i
        i += 1
    return tot


def try_finally(a: int):
    log = []
    try:
        if a > 2:
            raise KeyError("k")
        log.append(1)
    except KeyError:
        log.append(2)
    finally:
        log.append(3)
    return log


def nested_raise(a: int):
    def inner(v):
        if v == 0:
            raise RuntimeError("zero")
        return 10 // v
    try:
        return inner(a)
    except RuntimeError:
        return -1


def uncaught(a: int):
    if a > 5:
        raise NotImplementedError("big")
    return a


def early_return_loop(a: int, b: int):
    for i, v in enumerate([a, b, a + b]):
        if v < 0:
            return i
    return -1


def conditional_expression_chain(x: float):
    return 0 if x < 0 else (1 if x < 1 else (2 if x < 2 else 3))


def float_int_conversions(a: int, x: float):
    return (float(a) + x, int(x) + a, a / 4, bool(a), bool(x), a // 2 * 2 + a % 2 == a)


def negative_floor(a: int):
    return (a // 3, a % 3, -a // 3, (-a) % 3, a // -3, a % -3)


def real_floor_neg(x: float):
    return (x // 1, x % 1, x // -0.5, x % -0.5)


def max_default_key(a: int, b: int, c: int):
    xs = [a, b, c]
    return (max(xs), min(xs), max(a, b, c), sorted([3, 1, 2]), list(reversed([1, 2, 3])), max([a], default=0))


def dict_iteration_order(a: int):
    d = {}
    d["z"] = a
    d["a"] = a + 1
    d["m"] = a + 2
    del d["a"]
    return ([k for k in d], list(d.values()), list(d.items())[0])


def global_constant(a: int):
    return a * K + TABLE["b"]


def lambda_default_capture(a: int):
    fs = [(lambda v, i=i: v + i) for i in range(3)]
    gs = [lambda v: v + i for i in range(3)]       # late binding: every g sees the last i
    return ([f(a) for f in fs], [g(a) for g in gs])


def string_format(a: int):
    s = f"n{a}" if False else "fixed"
    return (s, "a" + "b", "x" in "xyz", len("abc"))


def tuple_compare(a: int, b: int):
    return ((a, b) == (b, a), (a, 1) == (a, 1))


def abs_round_int(x: float):
    return (abs(int(x)), int(abs(x)), round(x, 6) >= x - 1e-6)


def generator_function_and_set_update(a: int, b: int):
    def pairs(lo, hi):
        for i in range(lo, hi):
            if i % 2 == 0:
                yield (i, i + a)
    s = set()
    s.update(pairs(0, 5))
    s.update([(9, b)], [(1, 1)])
    d = dict.fromkeys(["x", "y"], [])
    d["x"].append(a)                       # the value object is shared between the keys
    return (len(s), (0, a) in s, (9, b) in s, (2, 2 + a) in s, (3, 3 + a) in s, d["y"], list(pairs(1, 4)), sum(x for x, _ in pairs(0, 7)))


def sorted_by_symbolic_key(a: int, b: int, c: int):
    items = [("x", a), ("y", b), ("z", c), ("w", a)]
    return [n for n, _ in sorted(items, key=lambda t: t[1])]
