"""C13 — recording is faithful and never changes the execution."""
from pyvc.driver import check_property
from . import async_node, async_conn, async_misc, async_record, compiled, graph_api

UNITS = [u for u in async_node.UNITS + async_conn.UNITS + async_misc.UNITS + async_record.UNITS + compiled.UNITS + graph_api.UNITS if "C13" in u.props]
EXTRA = dict(bounded=[], explanation="Async: the record appended by push_step is pinned field by field to the StepState handed to the step and to its result; everything except the record list and "
             "the discard counter is pinned by clauses that do not mention the record settings or max_records. Compiled: _run_generation writes exactly row `seq` and only when the slot runs; "
             "relational unit: identical step states / buffers with and without aux['record'].")


def check(tier, seed):
    from pyvc import bounded
    lines, ev, err = bounded.async_episodes("C13", tier, seed)
    lines2, ev2, err2 = bounded.compiled_api("C13", tier, seed)
    lines, err = lines + lines2, err or err2
    extra = dict(EXTRA)
    extra["bounded"] = list(extra.get("bounded", [])) + [ev, ev2]
    for l in ev.get("known_finding_lines", []) + ev2.get("known_finding_lines", []):
        print(l)
    code = check_property("C13", UNITS, tier, seed, extra=extra)
    return bounded.finish_with_bounded("C13", code, lines, err)
