"""C14 — records and graphs convert, stack, pad and filter without loss (rex/base.py Graph / EpisodeRecord / ExperimentRecord)."""
import z3
from pyvc.driver import Unit, check_property
from pyvc.values import *
from pyvc.interp import RaiseEx
from pyvc import smt
from . import aw
from .c16 import mk_node, mk_conn

BASE = "rex/base.py"


class Stacked:
    """result of onp.stack(rows, axis=0): concrete number of rows, each an Arr of the same length"""

    def __init__(self, rows):
        self.rows = rows

    def pyvc_getitem(self, ex, i):
        if isinstance(i, int):
            return self.rows[i]
        raise Unsupported("stacked index")

    def pyvc_getattr(self, ex, attr):
        if attr == "shape":
            from pyvc.models import Shape
            return Shape([len(self.rows), self.rows[0].n])
        raise Unsupported(attr)


def np_models(ex):
    onp = ex.lib.ns["numpy"]

    def pad(ex_, arr, widths, constant_values=0):
        ex_.assumptions_used.add("onp.pad(a, (0, k), constant_values=c) appends k copies of c")
        w = widths[0] if isinstance(widths, list) else widths
        if not (isinstance(w, tuple) and w[0] == 0):
            raise Unsupported("pad other than at the end")
        k = toz(w[1])
        j = z3.Int("j!ew")
        return Arr(z3.Lambda([j], z3.If(j < arr.n, z3.Select(arr.a, j), coerce(constant_values, arr.sort()))), arr.n + k)

    def stack(ex_, rows, axis=0):
        ex_.assumptions_used.add("onp.stack(rows, axis=0)[e] = rows[e] (equal lengths are an obligation)")
        rows = list(rows)
        for r in rows[1:]:
            ex_.oblige("stack-rows-equal-length", r.n == rows[0].n, kind="safety")
        return Stacked(rows)
    onp.entries["pad"] = pad
    onp.entries["stack"] = stack


class StackPad(Unit):
    name = "Graph.stack._stack"
    target = BASE + "::Graph.stack._stack"
    props = ("C14", "C01")

    def configs(self):
        yield "2 episodes", dict(e=2)
        yield "3 episodes", dict(e=3)

    def run(self, ctx):
        ex = ctx.ex
        np_models(ex)
        E = ctx.cfg["e"]
        lens = [z3.Int(f"len{i}") for i in range(E)]
        for l in lens:
            ctx.require(l >= 0)
        rows = [Arr.fresh(f"episode{i}", INT, lens[i]) for i in range(E)]
        out = ctx.call(args=rows)
        ok = isinstance(out, Stacked) and len(out.rows) == E
        ctx.ensure("one row per episode", z3.BoolVal(ok))
        if not ok:
            return
        j = z3.Int("j!sp")
        mx = out.rows[0].n
        ctx.ensure("all rows have the length of the longest episode", z3.And([r.n == mx for r in out.rows] + [mx >= l for l in lens] + [z3.Or([mx == l for l in lens])]))
        for i in range(E):
            ctx.ensure(f"C14 episode {i}: its own entries come first, unchanged; the padding is -1 (never a real sequence number / time)",
                       z3.ForAll([j], z3.Implies(z3.And(0 <= j, j < mx), z3.Select(out.rows[i].a, j) == z3.If(j < lens[i], z3.Select(rows[i].a, j), -1))))


class StackIndex(Unit):
    """an episode extracted from a stack equals the original episode on its own entries"""
    name = "Graph.__getitem__ / __len__"
    target = BASE + "::Graph.__getitem__"
    props = ("C14",)

    def run(self, ctx):
        ex = ctx.ex
        L = z3.Int("L")
        ctx.require(L >= 0)
        mk = lambda t: Stacked([Arr.fresh(f"{t}.e0", INT, L), Arr.fresh(f"{t}.e1", INT, L)])
        v = Rec("Vertex", dict(seq=mk("a.seq"), ts_start=mk("a.ts_start"), ts_end=mk("a.ts_end")), module=BASE, frozen=True)
        e = Rec("Edge", dict(seq_out=mk("ab.seq_out"), seq_in=mk("ab.seq_in"), ts_recv=mk("ab.ts_recv")), module=BASE, frozen=True)
        g = Rec("Graph", dict(vertices={"a": v}, edges={("a", "b"): e}), module=BASE, frozen=True)
        for idx in (0, 1):
            sub = ctx.call(self_obj=g, args=[idx])
            ok = isinstance(sub, Rec) and set(sub.f["vertices"]) == {"a"} and set(sub.f["edges"]) == {("a", "b")}
            ctx.ensure(f"C14 indexing episode {idx} keeps exactly the same vertices and edges", z3.BoolVal(ok))
            if ok:
                ctx.ensure(f"C14 indexing episode {idx} returns that episode's rows of every array",
                           z3.BoolVal(all(sub.f["vertices"]["a"].f[k] is v.f[k].rows[idx] for k in v.f) and all(sub.f["edges"][("a", "b")].f[k] is e.f[k].rows[idx] for k in e.f)))
        n = ex.call(ex.getattr(g, "__len__"), [], {})
        ctx.ensure("len(stacked graph) = number of episodes", z3.BoolVal(n == 2))


class ExperimentOps(Unit):
    """ExperimentRecord.to_graph / filter / stack: per-episode conversion in episode order, stacked by Graph.stack; stacking pads with -1 (what to_graph expects)"""
    name = "ExperimentRecord.to_graph / filter / stack"
    target = BASE + "::ExperimentRecord.to_graph"
    props = ("C14", "C01")

    def run(self, ctx):
        ex = ctx.ex
        G = [z3.Const(f"graph_of_episode{i}", Leaf) for i in range(3)]
        F = z3.Function("episode_filter", Leaf, Leaf, BOOL, Leaf)
        calls = []

        def mk_ep(i):
            return Rec("EpisodeRecord", dict(tag=z3.Const(f"episode{i}", Leaf), to_graph=lambda ex_, i=i: G[i],
                                             filter=lambda ex_, nodes, filter_connections=False, i=i: (calls.append((i, nodes, filter_connections)), F(z3.Const(f"episode{i}", Leaf), nodes, toz(filter_connections)))[1]), module=None)
        eps = [mk_ep(i) for i in range(3)]
        xr = Rec("ExperimentRecord", dict(episodes=eps), module=BASE, frozen=True)
        stacked = []
        cref = ex.module_global(ctx.repo.module(BASE), "Graph")
        ex.summaries[("Graph", "stack")] = lambda ex_, o, a, k, node: (stacked.append(a[0]), z3.Const("stacked_graph", Leaf))[1]
        out = ctx.call(self_obj=xr)
        ctx.ensure("C14 to_graph converts every episode once, keeps the episode order, and stacks the per-episode graphs with Graph.stack (its padding contract applies)",
                   z3.BoolVal(len(stacked) == 1 and isinstance(stacked[0], list) and len(stacked[0]) == 3 and all(stacked[0][i] is G[i] for i in range(3)) and is_sym(out) and z3.eq(out, z3.Const("stacked_graph", Leaf))))
        nodes, flag = z3.Const("selection", Leaf), z3.Bool("filter_connections")
        fx = ex.call(ex.getattr(xr, "filter"), [nodes], dict(filter_connections=flag))
        ok = isinstance(fx, Rec) and fx.cls == "ExperimentRecord" and isinstance(fx.f["episodes"], list) and len(fx.f["episodes"]) == 3
        ctx.ensure("C14 filtering an experiment filters every episode with the same selection and flag, in episode order (the episode-level contract applies to each)",
                   z3.And(z3.BoolVal(ok and [c[0] for c in calls] == [0, 1, 2] and all(c[1] is nodes for c in calls)),
                          *[toz(fx.f["episodes"][i]) == F(z3.Const(f"episode{i}", Leaf), nodes, flag) for i in range(3)]) if ok else z3.BoolVal(False))
        fills = []
        xr2 = Rec("ExperimentRecord", dict(episodes=eps, _padded_stack=lambda ex_, fill_value=None: (fills.append(fill_value), z3.Const("padded", Leaf))[1]), module=BASE)
        ex.call(ex.getattr(xr2, "stack"), [], {})
        ex.call(ex.getattr(xr2, "stack"), [], dict(method="padded"))
        ctx.ensure("C14 stacking records pads with -1 (the value to_graph and to_networkx treat as 'no vertex / no message')", z3.BoolVal(fills == [-1, -1]))


class RecordPad(Unit):
    """ExperimentRecord._padded_stack: equal-length episodes are stacked as they are; ragged ones are padded AT THE END with the fill value up to the longest episode"""
    name = "ExperimentRecord._padded_stack"
    target = BASE + "::ExperimentRecord._padded_stack"
    props = ("C14",)

    def configs(self):
        yield "2 episodes", dict(e=2)
        yield "3 episodes", dict(e=3)

    def run(self, ctx):
        ex = ctx.ex
        np_models(ex)
        onp = ex.lib.ns["numpy"]

        def array(ex_, x, *a, **k):
            ex_.assumptions_used.add("onp.array(rows) stacks equally long rows and raises ValueError for ragged ones (numpy >= 1.24)")
            rows = list(x)
            if not rows or not all(isinstance(r, Arr) for r in rows):
                raise Unsupported("onp.array of something else than rows")
            same = z3.And([r.n == rows[0].n for r in rows[1:]]) if len(rows) > 1 else z3.BoolVal(True)
            if ex_.decide(ex_.truth(same)):
                return Stacked(rows)
            raise RaiseEx("ValueError", None)
        saved = onp.entries.get("array")
        onp.entries["array"] = array
        E = ctx.cfg["e"]
        lens = [z3.Int(f"len{i}") for i in range(E)]
        for l in lens:
            ctx.require(l >= 0)
        fill = z3.Int("fill_value")
        rows = {k: [Arr.fresh(f"{k}.episode{i}", INT, lens[i]) for i in range(E)] for k in ("seq", "ts")}
        eps = [Rec("EpisodeRecord", dict(nodes={"a": Rec("StepRecord", dict(seq=rows["seq"][i], ts=rows["ts"][i]), module=BASE, frozen=True)}), module=BASE, frozen=True) for i in range(E)]
        xr = Rec("ExperimentRecord", dict(episodes=eps), module=BASE, frozen=True)
        try:
            out = ctx.call(self_obj=xr, args=[fill])
        finally:
            if saved is not None:
                onp.entries["array"] = saved
        ok = isinstance(out, Rec) and out.cls == "EpisodeRecord" and isinstance(out.f["nodes"].get("a"), Rec)
        ctx.ensure("the stacked record has the structure of one episode", z3.BoolVal(ok))
        if not ok:
            return
        j = z3.Int("j!rp")
        for k in ("seq", "ts"):
            st = out.f["nodes"]["a"].f[k]
            okk = isinstance(st, Stacked) and len(st.rows) == E
            ctx.ensure(f"{k}: one row per episode, in episode order", z3.BoolVal(okk))
            if not okk:
                continue
            mx = st.rows[0].n
            ctx.ensure(f"{k}: all rows have the length of the longest episode", z3.And([r.n == mx for r in st.rows] + [mx >= l for l in lens] + [z3.Or([mx == l for l in lens])]))
            for i in range(E):
                ctx.ensure(f"C14 {k}, episode {i}: its own entries come first, unchanged; the padding is the fill value",
                           z3.ForAll([j], z3.Implies(z3.And(0 <= j, j < mx), z3.Select(st.rows[i].a, j) == z3.If(j < lens[i], z3.Select(rows[k][i].a, j), fill))))


def topo(ctx, undeclared=()):
    """a -> b (shadow-named input), b -> c, c -> a, a -> c; vertices/edges carry opaque payloads.
    undeclared: recorded connections that the node objects handed to filter() do NOT declare (a selection of connections, not only of nodes)"""
    a, b, c = mk_node("a"), mk_node("b"), mk_node("c")
    if ("a", "b") not in undeclared:
        mk_conn(b, a, "a_shadow", "ab")
    if ("b", "c") not in undeclared:
        mk_conn(c, b, "b", "bc")
    if ("c", "a") not in undeclared:
        mk_conn(a, c, "c", "ca")
    if ("a", "c") not in undeclared:
        mk_conn(c, a, "a", "ac")
    return {"a": a, "b": b, "c": c}, [("a", "b"), ("b", "c"), ("c", "a"), ("a", "c")]


class GraphFilter(Unit):
    name = "Graph.filter"
    target = BASE + "::Graph.filter"
    props = ("C14",)

    def configs(self):
        import itertools
        for flag in (True, False):
            for sub in (("a",), ("a", "b"), ("b", "c"), ("a", "c"), ("a", "b", "c")):
                yield f"filter_edges={int(flag)},nodes={'+'.join(sub)}", dict(flag=flag, sub=sub)
            # the selection declares only part of the connections the graph holds (fan-out a -> b, a -> c with a -> c not declared; and the other way round)
            yield f"filter_edges={int(flag)},nodes=a+b+c,a->c not declared", dict(flag=flag, sub=("a", "b", "c"), undeclared=(("a", "c"),))
            yield f"filter_edges={int(flag)},nodes=a+b+c,a->b and c->a not declared", dict(flag=flag, sub=("a", "b", "c"), undeclared=(("a", "b"), ("c", "a")))

    def run(self, ctx):
        und = set(ctx.cfg.get("undeclared", ()))
        nodes, conns = topo(ctx, und)
        verts = {k: z3.Const(f"vertex.{k}", Leaf) for k in ("a", "b", "c", "extra")}
        edges = {k: z3.Const(f"edge.{k[0]}{k[1]}", Leaf) for k in conns + [("extra", "a")]}
        g = Rec("Graph", dict(vertices=dict(verts), edges=dict(edges)), module=BASE, frozen=True)
        sel = {k: nodes[k] for k in ctx.cfg["sub"]}
        out = ctx.call(self_obj=g, args=[sel], kwargs=dict(filter_edges=ctx.cfg["flag"]))
        ok = isinstance(out, Rec) and out.cls == "Graph"
        ctx.ensure("returns a Graph", z3.BoolVal(ok))
        if not ok:
            return
        want_v = set(ctx.cfg["sub"])
        want_e = {(u, v) for (u, v) in conns if u in want_v and v in want_v and not (ctx.cfg["flag"] and (u, v) in und)}
        ctx.ensure("C14 the filtered graph contains precisely the selected nodes, with their vertices unchanged", z3.BoolVal(set(out.f["vertices"]) == want_v and all(out.f["vertices"][k] is verts[k] for k in want_v)))
        ctx.ensure("C14 the filtered graph contains precisely the connections among the selected nodes (also those made with a shadow input name; with filter_edges only those the selection declares), unchanged",
                   z3.BoolVal(set(out.f["edges"]) == want_e and all(out.f["edges"][k] is edges[k] for k in want_e)))
        ctx.ensure("the original graph is not modified", z3.BoolVal(set(g.f["vertices"]) == set(verts) and set(g.f["edges"]) == set(edges)))


class RecordFilter(Unit):
    name = "EpisodeRecord.filter"
    target = BASE + "::EpisodeRecord.filter"
    props = ("C14",)

    def configs(self):
        for flag in (True, False):
            for sub in (("a", "b"), ("b", "c"), ("a", "b", "c")):
                yield f"filter_connections={int(flag)},nodes={'+'.join(sub)}", dict(flag=flag, sub=sub)
            yield f"filter_connections={int(flag)},nodes=a+b+c,a->c not declared", dict(flag=flag, sub=("a", "b", "c"), undeclared=(("a", "c"),))
            yield f"filter_connections={int(flag)},nodes=a+b+c,a->b and c->a not declared", dict(flag=flag, sub=("a", "b", "c"), undeclared=(("a", "b"), ("c", "a")))

    def run(self, ctx):
        und = set(ctx.cfg.get("undeclared", ()))
        nodes, conns = topo(ctx, und)

        def nrec(name):
            ins = {u: z3.Const(f"input_record.{u}{name}", Leaf) for (u, v) in conns if v == name}
            info = Rec("NodeInfo", dict(name=name, inputs={u: z3.Const(f"input_info.{u}{name}", Leaf) for u in ins}), module=BASE, frozen=True)
            return Rec("NodeRecord", dict(info=info, clock=None, real_time_factor=0, ts_start=0.0, params=None, inputs=ins, steps=z3.Const(f"steps.{name}", Leaf)), module=BASE, frozen=True)
        rec = Rec("EpisodeRecord", dict(nodes={k: nrec(k) for k in ("a", "b", "c")}), module=BASE, frozen=True)
        sel = {k: nodes[k] for k in ctx.cfg["sub"]}
        out = ctx.call(self_obj=rec, args=[sel], kwargs=dict(filter_connections=ctx.cfg["flag"]))
        want_v = set(ctx.cfg["sub"])
        ok = isinstance(out, Rec) and set(out.f["nodes"]) == want_v
        ctx.ensure("C14 the filtered record contains precisely the selected nodes", z3.BoolVal(ok))
        if not ok:
            return
        for n2 in want_v:
            want_in = {u for (u, v) in conns if v == n2 and u in want_v and not (ctx.cfg["flag"] and (u, v) in und)}
            got = out.f["nodes"][n2]
            ctx.ensure(f"C14 node {n2}: precisely the connections from selected senders (with filter_connections: those the selection declares INTO THIS NODE) are kept (inputs and info.inputs), step data untouched",
                       z3.BoolVal(set(got.f["inputs"]) == want_in and set(got.f["info"].f["inputs"]) == want_in and got.f["steps"] is rec.f["nodes"][n2].f["steps"]
                                  and all(got.f["inputs"][u] is rec.f["nodes"][n2].f["inputs"][u] for u in want_in)))


class RecordToGraph(Unit):
    name = "EpisodeRecord.to_graph"
    target = BASE + "::EpisodeRecord.to_graph"
    props = ("C14", "C01")

    def run(self, ctx):
        def nrec(name, senders):
            steps = Rec("StepRecord", dict(seq=z3.Const(f"{name}.seq", Leaf), ts_start=z3.Const(f"{name}.ts_start", Leaf), ts_end=z3.Const(f"{name}.ts_end", Leaf), eps=None, delay=None, rng=None, inputs=None, state=None, output=None), module=BASE, frozen=True)
            # the connection b <- a is made under a shadow input name (connect(..., name="obs")): InputInfo.name != the sender's name, InputInfo.output = the sender
            info = lambda u: Rec("InputInfo", dict(rate=z3.Real(f"{u}{name}.rate"), window=1, blocking=False, skip=False, jitter=None, phase=0.0, delay_dist=None, delay=0.0,
                                                   name=("obs" if (u, name) == ("a", "b") else u), output=u), module=BASE, frozen=True)
            ins = {u: Rec("InputRecord", dict(info=info(u), messages=Rec("MessageRecord", dict(seq_out=z3.Const(f"{u}{name}.seq_out", Leaf), seq_in=z3.Const(f"{u}{name}.seq_in", Leaf), ts_sent=z3.Const(f"{u}{name}.ts_sent", Leaf),
                                                                                                 ts_recv=z3.Const(f"{u}{name}.ts_recv", Leaf), delay=None), module=BASE, frozen=True)), module=BASE, frozen=True) for u in senders}
            return Rec("NodeRecord", dict(info=None, clock=None, real_time_factor=0, ts_start=0.0, params=None, inputs=ins, steps=steps), module=BASE, frozen=True)
        rec = Rec("EpisodeRecord", dict(nodes={"a": nrec("a", ["c"]), "b": nrec("b", ["a"]), "c": nrec("c", ["a", "b"])}), module=BASE, frozen=True)
        g = ctx.call(self_obj=rec)
        ok = isinstance(g, Rec) and set(g.f["vertices"]) == {"a", "b", "c"} and set(g.f["edges"]) == {("c", "a"), ("a", "b"), ("a", "c"), ("b", "c")}
        ctx.ensure("C14 one vertex set per recorded node and one edge set per recorded connection (sender, receiver)", z3.BoolVal(ok))
        if ok:
            for n in ("a", "b", "c"):
                v, s = g.f["vertices"][n], rec.f["nodes"][n].f["steps"]
                ctx.ensure(f"C14 vertices of {n} carry the recorded sequence numbers, start and end times", z3.And(toz(aw.same(v.f["seq"], s.f["seq"])), toz(aw.same(v.f["ts_start"], s.f["ts_start"])), toz(aw.same(v.f["ts_end"], s.f["ts_end"]))))
            for (u, v2), e in g.f["edges"].items():
                m = rec.f["nodes"][v2].f["inputs"][u].f["messages"]
                ctx.ensure(f"C14 edges {u}->{v2} carry the recorded sent / consumed sequence numbers and receive times", z3.And(toz(aw.same(e.f["seq_out"], m.f["seq_out"])), toz(aw.same(e.f["seq_in"], m.f["seq_in"])), toz(aw.same(e.f["ts_recv"], m.f["ts_recv"]))))


from .c14_nx import ToNetworkx
UNITS = [StackPad(), StackIndex(), GraphFilter(), RecordFilter(), RecordToGraph(), ExperimentOps(), RecordPad(), ToNetworkx()]


def check(tier, seed):
    from pyvc import bounded
    n = 12 if tier == "quick" else 80
    res = bounded.run_native("c14_convert.py", ["--n", str(n), "--seed", str(seed)])
    lines, ev, err = bounded.report("C14", "to_networkx_graph / stack / index on ragged episodes", res, "c14_convert.py")
    extra = dict(bounded=[dict(ev, bound=f"{n} random ragged multi-episode graphs: to_networkx_graph of the real code must contain exactly the vertices with seq != -1 and the edges with both ends != -1; "
                                          "an episode extracted from Graph.stack must give the same networkx graph as the original episode; records of real nodes with shadow-named connections converted by to_graph and filtered "
                                          "(Graph.filter, EpisodeRecord.filter, every subset, both flags) must keep precisely the selected nodes and the connections among them")],
                 assumptions=["filter / to_graph are analysed on an enumerated topology (3 nodes, shadow-named connection, all listed subsets) with symbolic payloads: bounded in topology",
                              "networkx.DiGraph is modelled by its abstract state (vertex set with attributes, edge set with attributes; add_edge creates missing endpoints); vertex names f'{kind}_{seq}' are kept as the pair (kind, seq); "
                              "to_networkx_graph is proved for two node kinds and one / two connections with arrays of any length (and re-checked on random ragged graphs by the bounded stand-in)"])
    code = check_property("C14", UNITS, tier, seed, extra=extra)
    if lines:
        for l in lines:
            print(l)
        return 1
    if err and code == 0:
        print(f"ERROR property=C14 bounded stand-in failed to run: {err[-300:]}")
        return 3
    return code
