"""C15 — delay distributions give non-negative, replayable samples and true quantiles (rex/base.py StaticDist / TrainableDist, rex/node.py defaults)."""
import z3
from pyvc.driver import Unit, check_property
from pyvc.values import *
from pyvc.interp import RaiseEx
from . import aw
from .c10 import DistAlgebra, DistCreate
from .c16 import Ctor
from .c12 import NodeStep

BASE = "rex/base.py"
DSAMPLE = z3.Function("dist_sample", Leaf, Leaf, REAL)
NDTRI = z3.Function("ndtri", REAL, REAL)


def mk_static(kind="generic"):
    did = z3.Const("dist", Leaf)
    f = dict(id=did, sample=lambda ex, sample_shape=(), seed=None: DSAMPLE(did, seed), mean=lambda ex: z3.Real("dist.mean"))
    if kind == "Normal":
        f.update(loc=z3.Real("dist.loc"), scale=z3.Real("dist.scale"))
    return Rec(kind if kind != "generic" else "Distribution", f, module=None, frozen=True), did


class StaticSample(Unit):
    name = "StaticDist.sample / reset"
    target = BASE + "::StaticDist.sample"
    props = ("C15", "C12")

    def run(self, ctx):
        ex = ctx.ex
        dist, did = mk_static()
        rng = z3.Const("rng", Leaf)
        D = Rec("StaticDist", dict(rng=rng, dist=dist), module=BASE, frozen=True)
        new, s = ctx.call(self_obj=D)
        keys = ex.lib.ns["jax.random"].entries["split"](ex, rng, 2).unpack(ex, 2)
        ctx.ensure("C15 every sampled delay is non-negative (raw sample clipped at 0)", z3.And(toz(s) >= 0, toz(s) == z3.If(DSAMPLE(did, keys[1]) < 0, 0, DSAMPLE(did, keys[1]))))
        ctx.ensure("C15 sampling is a pure function of the distribution's rng state and returns a distribution with the new rng state (same distribution otherwise)",
                   z3.And(toz(new.f["rng"]) == keys[0], z3.BoolVal(new.f["dist"] is dist and D.f["rng"] is rng)))
        r2 = z3.Const("rng2", Leaf)
        R = ex.call(ex.getattr(D, "reset"), [r2], {})
        ctx.ensure("C15 reset installs exactly the given rng (so resetting to the same rng replays the same delays)", z3.And(toz(R.f["rng"]) == r2, z3.BoolVal(R.f["dist"] is dist)))
        R2 = ex.call(ex.getattr(new, "reset"), [rng], {})
        n2, s2 = ex.call(ex.getattr(R2, "sample"), [], {})
        ctx.ensure("C15 replay: reset to the original rng, then sample, gives the original delay and rng state", z3.And(toz(s2) == toz(s), toz(n2.f["rng"]) == toz(new.f["rng"])))
        # a batched draw (what the graph generator uses for all communication delays of a connection at once) is clipped exactly like a scalar one
        nb, sb = ex.call(ex.getattr(D, "sample"), [], dict(shape=(z3.Int("n_batch"),)))
        nb2, sb2 = ex.call(ex.getattr(D, "sample"), [z3.Int("n_batch")], {})
        ctx.ensure("C15 batched draws (shape given as a tuple or an int) are non-negative as well: the raw samples are clipped at 0 whatever the shape; same rng bookkeeping",
                   z3.And(toz(sb) >= 0, toz(sb) == z3.If(DSAMPLE(did, keys[1]) < 0, 0, DSAMPLE(did, keys[1])), toz(sb2) >= 0, toz(nb.f["rng"]) == keys[0], toz(nb2.f["rng"]) == keys[0]))
        # StaticDist.create / mean / pdf: thin wrappers of the distrax object
        cref = ex.module_global(ctx.repo.module(BASE), "StaticDist")
        C1, C2 = ex.call(ex.getattr(cref, "create"), [dist], {}), ex.call(ex.getattr(cref, "create"), [dist], {})
        ok = isinstance(C1, Rec) and C1.cls == "StaticDist" and isinstance(C2, Rec)
        ctx.ensure("C15 create wraps the given distribution itself and starts every created distribution from the same fixed key (two creations of one distribution replay the same delays until reset)",
                   z3.And(z3.BoolVal(ok and C1.f["dist"] is dist and C2.f["dist"] is dist), toz(C1.f["rng"]) == toz(C2.f["rng"])) if ok else z3.BoolVal(False))
        if ok:
            (_, a1), (_, a2) = ex.call(ex.getattr(C1, "sample"), [], {}), ex.call(ex.getattr(C2, "sample"), [], {})
            ctx.ensure("C15 ... their first samples agree", toz(a1) == toz(a2))
        ctx.ensure("mean is the wrapped distribution's mean", toz(ex.call(ex.getattr(D, "mean"), [], {})) == z3.Real("dist.mean"))


class StaticQuantile(Unit):
    name = "StaticDist.quantile"
    target = BASE + "::StaticDist.quantile"
    props = ("C15",)

    def configs(self):
        yield "Deterministic", dict(kind="Deterministic")
        yield "Normal", dict(kind="Normal")
        yield "MixtureSameFamily", dict(kind="MixtureSameFamily")

    def opts(self, cfg):
        def isinst(ex, x, tname):
            if isinstance(x, Rec) and x.cls in ("Deterministic", "Normal", "MixtureSameFamily", "Distribution"):
                return x.cls == tname.split(".")[-1]
            if tname in ("jax.Array", "ndarray", "onp.ndarray", "Array"):
                return False
            return None
        return {"isinstance": isinst}

    def run(self, ctx):
        ex = ctx.ex
        ex.lib.ns["distrax"].entries.update(Deterministic=TypeTag("Deterministic"), Normal=TypeTag("Normal"), MixtureSameFamily=TypeTag("MixtureSameFamily"))
        ex.lib.ns["jax"].entries["scipy"] = NS("jax.scipy", {"special": NS("special", {"ndtri": lambda ex_, q: NDTRI(toz(q))})})
        ex.lib.ns["numpy"].entries["ones"] = lambda ex_, shape=(): 1.0
        if ctx.cfg["kind"] == "MixtureSameFamily":
            return self.run_mixture(ctx)
        dist, did = mk_static(ctx.cfg["kind"])
        D = Rec("StaticDist", dict(rng=z3.Const("rng", Leaf), dist=dist), module=BASE, frozen=True)
        q, q2 = z3.Reals("q q2")
        v = toz(ctx.call(self_obj=D, args=[q]))
        v2 = toz(ex.call(ex.getattr(D, "quantile"), [q2], {}))
        if ctx.cfg["kind"] == "Deterministic":
            ctx.ensure("C15 deterministic distribution: every quantile is its value", z3.And(v == z3.Real("dist.mean"), v2 == v))
        else:
            a, b = z3.Reals("a!m b!m")
            ctx.require(z3.ForAll([a, b], z3.Implies(a <= b, NDTRI(a) <= NDTRI(b))))     # the standard normal quantile function is non-decreasing (library contract)
            ctx.require(dist.f["scale"] >= 0)
            ctx.ensure("C15 normal distribution: quantile(q) = loc + scale * ndtri(q) (exact inverse of the normal CDF)", v == NDTRI(q) * dist.f["scale"] + dist.f["loc"])
            ctx.ensure("C15 quantile is non-decreasing in q", z3.Implies(q <= q2, v <= v2))

    def run_mixture(self, ctx):
        """the mixture branch hands THIS distribution and the asked probability to the grid search, over a grid that spans every component's 0.1% .. 99.9% range (with the
        10% margins of the code); two different mixtures asked one after the other each get the search on their own distribution"""
        ex = ctx.ex
        MQ = z3.Function("mixture_grid_quantile", Leaf, REAL, INT, REAL, REAL, REAL)
        calls = []

        def mdq(ex_, o, a, k, node):
            calls.append(k)
            probs = k["probs"]
            return [_Flat(MQ(k["dist"].f["id"], toz(probs), k["N_grid_points"], toz(k["grid_min"]), toz(k["grid_max"])))]
        ex.summaries["mixture_distribution_quantiles"] = mdq
        jnp = ex.lib.ns["jax.numpy"]
        saved = jnp.entries.get("array")
        jnp.entries["array"] = lambda ex_, x, *a, **k: _Flat(x)

        def mk(tag):
            n = 2
            # both mixtures have the SAME components and differ in their weights only (their identity `id` stands for the whole distribution)
            loc, scale = [z3.Real(f"m.loc{i}") for i in range(n)], [z3.Real(f"m.scale{i}") for i in range(n)]
            for s_ in scale:
                ctx.require(s_ > 0)
            comp = Rec("Normal", dict(loc=_Vec(loc), scale=_Vec(scale)), module=None, frozen=True)
            return Rec("MixtureSameFamily", dict(id=z3.Const(f"{tag}.id", Leaf), components_distribution=comp, mixture_distribution=z3.Const(f"{tag}.weights", Leaf)), module=None, frozen=True), loc, scale
        try:
            outs = []
            for tag in ("m1", "m2"):
                dist, loc, scale = mk(tag)
                D = Rec("StaticDist", dict(rng=z3.Const("rng", Leaf), dist=dist), module=BASE, frozen=True)
                q = z3.RealVal("0.99")         # the same probability both times (the default-delay query)
                v = ex.call(ex.getattr(D, "quantile"), [q], {}) if outs else ctx.call(self_obj=D, args=[q])
                outs.append((tag, dist, loc, scale, q, v))
        finally:
            if saved is not None:
                jnp.entries["array"] = saved
        ctx.ensure("C15 one grid search per query (the second mixture is not answered from the first one's result)", z3.BoolVal(len(calls) == 2))
        for i, (tag, dist, loc, scale, q, v) in enumerate(outs):
            if i >= len(calls):
                break
            k = calls[i]
            lo = [NDTRI(z3.RealVal("0.001")) * s_ + l for l, s_ in zip(loc, scale)]
            hi = [NDTRI(z3.RealVal("0.999")) * s_ + l for l, s_ in zip(loc, scale)]
            mn = z3.If(lo[0] <= lo[1], lo[0], lo[1])
            mx = z3.If(hi[0] >= hi[1], hi[0], hi[1])
            ctx.ensure(f"C15 query {i + 1}: the quantile is the grid search on THIS mixture (its own weights and components) at the asked probability, nothing remembered from another query",
                       z3.And(z3.BoolVal(k["dist"] is dist and k["N_grid_points"] == 1000), toz(k["probs"]) == q, toz(v) == MQ(dist.f["id"], q, 1000, toz(k["grid_min"]), toz(k["grid_max"]))))
            ctx.ensure(f"C15 query {i + 1}: the grid spans every component's 0.1% .. 99.9% range (times 0.9 / 1.1)", z3.And(toz(k["grid_min"]) == mn * z3.RealVal("0.9"), toz(k["grid_max"]) == mx * z3.RealVal("1.1")))


class _Vec:
    """a concrete-length vector of symbolic reals (component parameters)"""

    def __init__(self, xs):
        self.xs = list(xs)

    def pyvc_binop(self, ex, op, other, reflected):
        import ast as _ast
        ys = other.xs if isinstance(other, _Vec) else [other] * len(self.xs)
        f = {_ast.Add: lambda a, b: a + b, _ast.Mult: lambda a, b: a * b, _ast.Sub: lambda a, b: a - b}.get(type(op))
        if f is None:
            raise Unsupported("vector operator")
        return _Vec([(f(toz(b), toz(a)) if reflected else f(toz(a), toz(b))) for a, b in zip(self.xs, ys)])

    def pyvc_getattr(self, ex, attr):
        if attr in ("min", "max"):
            def red(ex_):
                acc = toz(self.xs[0])
                for x in self.xs[1:]:
                    x = toz(x)
                    acc = z3.If(acc <= x, acc, x) if attr == "min" else z3.If(acc >= x, acc, x)
                return acc
            return red
        if attr == "tobytes":
            return lambda ex_: "bytes:" + ",".join(str(toz(x)) for x in self.xs)      # equal exactly when the entries are the same terms
        raise Unsupported(f"vector attribute {attr}")


class _Flat:
    """jnp.array(q).reshape(-1) of a scalar probability: still that probability"""

    def __init__(self, x):
        self.x = x

    def pyvc_getattr(self, ex, attr):
        if attr == "reshape":
            return lambda ex_, *a: self.x
        raise Unsupported(attr)


StaticQuantile.replay = lambda self, label, clause, probes, model: ({"kind": "bounded_case", "script": "c15_quantiles.py",
                                                                      "case": dict(kind="mixture", w=[0.006, 0.994], loc=[0.05, 0.01], scale=[0.005, 0.002], key=7, const_data=False)}
                                                                     if "Mixture" in label else None)


GMM = "rex/gmm_estimator.py"


class _Data:
    """contract-level value: a 1-D delay data set; only its mean and (population) standard deviation are observed"""
    MEAN, STD, C = z3.Real("data.mean"), z3.Real("data.std"), z3.Real("data.c")
    CONST = z3.Bool("data.is_constant")      # ghost: every entry equals data.c

    def pyvc_getattr(self, ex, attr):
        if attr == "astype":
            return lambda ex_, d=None: self       # float32 view: same statistics (machine arithmetic treated as mathematical)
        if attr == "mean":
            return lambda ex_, dtype=None: _Data.MEAN
        if attr == "std":
            return lambda ex_: _Data.STD
        raise Unsupported(f"data attribute {attr}")

    def pyvc_binop(self, ex, op, other, reflected):
        return _Derived()


class _Derived:
    """data-derived array (normalised data): not observed by any clause"""
    def pyvc_binop(self, ex, op, other, reflected):
        return self


def data_world(ex):
    ex.assumptions_used.add("statistics of a data set: std >= 0; constant data (all entries c) has mean c and std 0; astype(float32) keeps both (mathematical arithmetic)")
    ex.assume(z3.And(_Data.STD >= 0, z3.Implies(_Data.CONST, z3.And(_Data.STD == 0, _Data.MEAN == _Data.C))))
    for ns in ("numpy", "jax.numpy"):       # rex/gmm_estimator.py uses jax.numpy under the name np
        np_ = ex.lib.ns[ns]
        o_mean, o_std = np_.entries.get("mean"), np_.entries.get("std")
        np_.entries["mean"] = (lambda om: lambda ex_, x, **k: _Data.MEAN if isinstance(x, _Data) else om(ex_, x, **k))(o_mean)
        np_.entries["std"] = (lambda os_: lambda ex_, x, **k: _Data.STD if isinstance(x, _Data) else os_(ex_, x, **k))(o_std)
    return _Data()


class GmmInit(Unit):
    """the delay estimator recognises constant data (whatever its value, zero included) and remembers the data's own mean and spread for rescaling"""
    name = "GMMEstimator.__init__"
    target = GMM + "::GMMEstimator.__init__"
    props = ("C15",)

    def opts(self, cfg):
        return {"no_ifexp_merge": True}

    def run(self, ctx):
        ex = ctx.ex
        data = data_world(ex)
        est = Rec("GMMEstimator", {}, module=GMM)
        thr = z3.Real("threshold")
        ctx.require(thr > 0)
        ctx.call(self_obj=est, args=[data], kwargs=dict(threshold=thr))
        ctx.ensure("C15 constant data (every entry the same value, zero included) is recognised as deterministic for any positive threshold",
                   z3.Implies(_Data.CONST, toz(ex.truth(est.f["is_deterministic"]))))
        ctx.ensure("C15 the estimator keeps the data's own mean and standard deviation (the units fitted components are mapped back to)", z3.And(toz(est.f["_mean"]) == _Data.MEAN, toz(est.f["_std"]) == _Data.STD))


class GmmGetDistDeterministic(Unit):
    name = "GMMEstimator.get_dist (constant data)"
    target = GMM + "::GMMEstimator.get_dist"
    props = ("C15",)

    def run(self, ctx):
        ex = ctx.ex
        data = data_world(ex)
        ex.lib.ns["distrax"].entries["Deterministic"] = lambda ex_, loc=None: Rec("Deterministic", dict(loc=loc), module=None, frozen=True)
        est = Rec("GMMEstimator", dict(is_deterministic=True, data=data, final_state_norm=None), module=GMM)
        ret = ctx.call(self_obj=est)
        ok = isinstance(ret, Rec) and ret.cls == "StaticDist" and isinstance(ret.f["dist"], Rec) and ret.f["dist"].cls == "Deterministic"
        ctx.ensure("C15 deterministic data gives a StaticDist over a Deterministic distribution (no fit needed)", z3.BoolVal(ok))
        if ok:
            ctx.ensure("C15 ... located at the data's value: in the units of the data", z3.And(toz(ret.f["dist"].f["loc"]) == _Data.MEAN, z3.Implies(_Data.CONST, toz(ret.f["dist"].f["loc"]) == _Data.C)))


class GmmRescale(Unit):
    """fitted (normalised) components are mapped back to the units of the data: mu * std + mean, scale * std (positive), weights untouched"""
    name = "GMMEstimator._rescale"
    target = GMM + "::GMMEstimator._rescale"
    props = ("C15",)

    def run(self, ctx):
        ex = ctx.ex
        mean, std = z3.Real("est.mean"), z3.Real("est.std")
        ctx.require(std > 0)
        est = Rec("GMMEstimator", dict(_mean=mean, _std=std), module=GMM)
        lw, lc, mu, ls = z3.Real("log_w"), z3.Real("log_conc"), z3.Real("mu_norm"), z3.Real("log_scale_norm")
        ret = ctx.call(self_obj=est, args=[(lw, lc, mu, ls)])
        ctx.ensure("returns (log weights, log concentration, means, log scales)", z3.BoolVal(isinstance(ret, tuple) and len(ret) == 4))
        if not (isinstance(ret, tuple) and len(ret) == 4):
            return
        EXP, LOG = ex.lib.ns["numpy"].entries["exp"], ex.lib.ns["numpy"].entries["log"]
        ex.assumptions_used.add("exp(a + b) = exp(a) * exp(b), used at the one instance a = log_scale, b = log(std)")
        ex.assume(toz(EXP(ex, ls + toz(LOG(ex, std)))) == toz(EXP(ex, ls)) * toz(EXP(ex, LOG(ex, std))))
        ctx.ensure("C15 weights (and concentration) are not touched by rescaling, so they still sum to one", z3.And(toz(ret[0]) == lw, toz(ret[1]) == lc))
        ctx.ensure("C15 component means are mapped back to the units of the data: mu * std + mean", toz(ret[2]) == mu * std + mean)
        ctx.ensure("C15 component scales are mapped back to the units of the data and stay positive: exp(log_scale') = exp(log_scale) * std > 0",
                   z3.And(toz(EXP(ex, ret[3])) == toz(EXP(ex, ls)) * std, toz(EXP(ex, ret[3])) > 0))


UNITS = [StaticSample(), StaticQuantile(), DistAlgebra(), DistCreate(), Ctor("BaseNode"), Ctor("Connection"), NodeStep(), GmmInit(), GmmGetDistDeterministic(), GmmRescale()]


def check(tier, seed):
    from pyvc import bounded
    n = 10 if tier == "quick" else 60
    res = bounded.run_native("c15_quantiles.py", ["--n", str(n), "--seed", str(seed)])
    lines, ev, err = bounded.report("C15", "quantiles, default delays and the delay estimator on random distributions", res, "c15_quantiles.py")
    extra = dict(bounded=[dict(ev, bound=f"{n} random distributions (deterministic, normal, 2-4 component mixtures): quantile non-decreasing in q and CDF(quantile(q)) within grid resolution of q; "
                                          "samples >= 0 and replayable; default node / connection delay = quantile(0.99) >= 0; GMMEstimator rescaling and get_dist (weights sum to 1, positive scales, deterministic for constant data)")],
                 assumptions=["ndtri is the inverse standard-normal CDF and non-decreasing; distrax sample / cdf are the library's (assumed)",
                              "mixture_distribution_quantiles (numpy grid search) and GMMEstimator are covered by the bounded stand-in only"])
    code = check_property("C15", UNITS, tier, seed, extra=extra)
    if lines:
        for l in lines:
            print(l)
        return 1
    if err and code == 0:
        print(f"ERROR property=C15 bounded stand-in failed to run: {err[-300:]}")
        return 3
    return code
