"""C15 — delay distributions give non-negative, replayable samples and true quantiles (rex/base.py StaticDist / TrainableDist, rex/node.py defaults)."""
import z3
from pyvc.driver import Unit, check_property
from pyvc.values import *
from pyvc.interp import RaiseEx
from . import aw
from .c10 import DistAlgebra
from .c12 import NodeStep

BASE = "rex/base.py"
DSAMPLE = z3.Function("dist_sample", Leaf, Leaf, REAL)
NDTRI = z3.Function("ndtri", REAL, REAL)


def mk_static(kind="generic"):
    did = z3.Const("dist", Leaf)
    f = dict(id=did, sample=lambda ex, sample_shape=(), seed=None: DSAMPLE(did, seed), mean=lambda ex: z3.Real("dist.mean"))
    if kind == "Normal":
        f.update(loc=z3.Real("dist.loc"), scale=z3.Real("dist.scale"))
    return Rec(kind if kind != "generic" else "Distribution", f, module=None, frozen=True), did


class StaticSample(Unit):
    name = "StaticDist.sample / reset"
    target = BASE + "::StaticDist.sample"
    props = ("C15",)

    def run(self, ctx):
        ex = ctx.ex
        dist, did = mk_static()
        rng = z3.Const("rng", Leaf)
        D = Rec("StaticDist", dict(rng=rng, dist=dist), module=BASE, frozen=True)
        new, s = ctx.call(self_obj=D)
        keys = ex.lib.ns["jax.random"].entries["split"](ex, rng, 2).unpack(ex, 2)
        ctx.ensure("C15 every sampled delay is non-negative (raw sample clipped at 0)", z3.And(toz(s) >= 0, toz(s) == z3.If(DSAMPLE(did, keys[1]) < 0, 0, DSAMPLE(did, keys[1]))))
        ctx.ensure("C15 sampling is a pure function of the distribution's rng state and returns a distribution with the new rng state (same distribution otherwise)",
                   z3.And(toz(new.f["rng"]) == keys[0], z3.BoolVal(new.f["dist"] is dist and D.f["rng"] is rng)))
        r2 = z3.Const("rng2", Leaf)
        R = ex.call(ex.getattr(D, "reset"), [r2], {})
        ctx.ensure("C15 reset installs exactly the given rng (so resetting to the same rng replays the same delays)", z3.And(toz(R.f["rng"]) == r2, z3.BoolVal(R.f["dist"] is dist)))
        R2 = ex.call(ex.getattr(new, "reset"), [rng], {})
        n2, s2 = ex.call(ex.getattr(R2, "sample"), [], {})
        ctx.ensure("C15 replay: reset to the original rng, then sample, gives the original delay and rng state", z3.And(toz(s2) == toz(s), toz(n2.f["rng"]) == toz(new.f["rng"])))


class StaticQuantile(Unit):
    name = "StaticDist.quantile"
    target = BASE + "::StaticDist.quantile"
    props = ("C15",)

    def configs(self):
        yield "Deterministic", dict(kind="Deterministic")
        yield "Normal", dict(kind="Normal")

    def opts(self, cfg):
        def isinst(ex, x, tname):
            if isinstance(x, Rec) and x.cls in ("Deterministic", "Normal", "MixtureSameFamily", "Distribution"):
                return x.cls == tname.split(".")[-1]
            if tname in ("jax.Array", "ndarray", "onp.ndarray", "Array"):
                return False
            return None
        return {"isinstance": isinst}

    def run(self, ctx):
        ex = ctx.ex
        ex.lib.ns["distrax"].entries.update(Deterministic=TypeTag("Deterministic"), Normal=TypeTag("Normal"), MixtureSameFamily=TypeTag("MixtureSameFamily"))
        ex.lib.ns["jax"].entries["scipy"] = NS("jax.scipy", {"special": NS("special", {"ndtri": lambda ex_, q: NDTRI(toz(q))})})
        ex.lib.ns["numpy"].entries["ones"] = lambda ex_, shape=(): 1.0
        dist, did = mk_static(ctx.cfg["kind"])
        D = Rec("StaticDist", dict(rng=z3.Const("rng", Leaf), dist=dist), module=BASE, frozen=True)
        q, q2 = z3.Reals("q q2")
        v = toz(ctx.call(self_obj=D, args=[q]))
        v2 = toz(ex.call(ex.getattr(D, "quantile"), [q2], {}))
        if ctx.cfg["kind"] == "Deterministic":
            ctx.ensure("C15 deterministic distribution: every quantile is its value", z3.And(v == z3.Real("dist.mean"), v2 == v))
        else:
            a, b = z3.Reals("a!m b!m")
            ctx.require(z3.ForAll([a, b], z3.Implies(a <= b, NDTRI(a) <= NDTRI(b))))     # the standard normal quantile function is non-decreasing (library contract)
            ctx.require(dist.f["scale"] >= 0)
            ctx.ensure("C15 normal distribution: quantile(q) = loc + scale * ndtri(q) (exact inverse of the normal CDF)", v == NDTRI(q) * dist.f["scale"] + dist.f["loc"])
            ctx.ensure("C15 quantile is non-decreasing in q", z3.Implies(q <= q2, v <= v2))


UNITS = [StaticSample(), StaticQuantile(), DistAlgebra(), NodeStep()]


def check(tier, seed):
    from pyvc import bounded
    n = 10 if tier == "quick" else 60
    res = bounded.run_native("c15_quantiles.py", ["--n", str(n), "--seed", str(seed)])
    lines, ev, err = bounded.report("C15", "quantiles, default delays and the delay estimator on random distributions", res, "c15_quantiles.py")
    extra = dict(bounded=[dict(ev, bound=f"{n} random distributions (deterministic, normal, 2-4 component mixtures): quantile non-decreasing in q and CDF(quantile(q)) within grid resolution of q; "
                                          "samples >= 0 and replayable; default node / connection delay = quantile(0.99) >= 0; GMMEstimator rescaling and get_dist (weights sum to 1, positive scales, deterministic for constant data)")],
                 assumptions=["ndtri is the inverse standard-normal CDF and non-decreasing; distrax sample / cdf are the library's (assumed)",
                              "mixture_distribution_quantiles (numpy grid search) and GMMEstimator are covered by the bounded stand-in only"])
    code = check_property("C15", UNITS, tier, seed, extra=extra)
    if lines:
        for l in lines:
            print(l)
        return 1
    if err and code == 0:
        print(f"ERROR property=C15 bounded stand-in failed to run: {err[-300:]}")
        return 3
    return code
