"""C07 — the compiled schedule runs every graph vertex once, in dependency order."""
import z3
from pyvc.driver import Unit, check_property
from pyvc.values import *
from pyvc.interp import RaiseEx
from . import aw
from .compiled import mk_window, BASE, RingPush
from . import compiled

UT = "rex/utils.py"


class Captured(Exception):
    def __init__(self, **kw):
        self.kw = kw


class ApplyWindowBody(Unit):
    """apply_window: window extension for trainable delays and the scan body that pushes one edge into the running window"""
    name = "apply_window._scan_body"
    target = UT + "::apply_window"
    props = ("C07", "C01", "C10")

    def configs(self):
        yield "static delay", dict(trainable=False)
        yield "trainable delay", dict(trainable=True)

    def run(self, ctx):
        ex, cfg = ctx.ex, ctx.cfg
        n, m = z3.Int("num_vertices"), z3.Int("num_edges")
        ctx.require(z3.And(n >= 1, m >= 0))
        WFUN = z3.Function("trainable_window_of_rate", REAL, INT)     # TrainableDist.window(rate): its own contract is C10's unit; here only that it is a function of the rate it is given
        ra = z3.Real("a.rate")
        Wd = WFUN(ra)                                                 # the extension must be computed from the PRODUCER's rate
        rr = z3.Real("r!any")
        ctx.require(z3.ForAll([rr], WFUN(rr) >= 0))
        if cfg["trainable"]:
            dist = Rec("TrainableDist", dict(alpha=z3.Real("alpha"), min=z3.Real("dmin"), max=z3.Real("dmax"), interp="zoh", window=lambda ex_, rate: WFUN(toz(rate))), module=BASE, frozen=True)
        else:
            dist = Rec("DelayDistribution", {}, module=BASE, frozen=True)
        win = z3.Int("conn.window")
        ctx.require(win >= 1)
        a = Rec("BaseNode", dict(name="a", rate=z3.Real("a.rate"), outputs={}, inputs={}), module=None)
        b = Rec("BaseNode", dict(name="b", rate=z3.Real("b.rate"), outputs={}, inputs={}), module=None)
        c = Rec("Connection", dict(output_node=a, input_node=b, delay_dist=dist, window=win, blocking=False, jitter=aw.JIT["LATEST"]), module=None)
        a.f["outputs"]["b"] = c
        b.f["inputs"]["a"] = c

        class Seq1D:
            def pyvc_getattr(self, ex_, attr):
                if attr == "ndim":
                    return 1
                raise Unsupported(attr)
        va = Rec("Vertex", dict(seq=Arr.fresh("a.seq", INT, n), ts_start=Arr.fresh("a.ts_start", REAL, n), ts_end=Arr.fresh("a.ts_end", REAL, n)), module=BASE, frozen=True)
        vb = Rec("Vertex", dict(seq=Arr.fresh("b.seq", INT, n), ts_start=Arr.fresh("b.ts_start", REAL, n), ts_end=Arr.fresh("b.ts_end", REAL, n)), module=BASE, frozen=True)
        edge = Rec("Edge", dict(seq_out=Arr.fresh("e.seq_out", INT, m), seq_in=Arr.fresh("e.seq_in", INT, m), ts_recv=Arr.fresh("e.ts_recv", REAL, m)), module=BASE, frozen=True)
        g = Rec("Graph", dict(vertices={"a": va, "b": vb}, edges={("a", "b"): edge}), module=BASE, frozen=True)

        def scan(ex_, f, init, xs, length):
            raise Captured(f=f, init=init, xs=xs)
        ex.opts["scan"] = scan
        jnp = ex.lib.ns["jax.numpy"]
        orig = jnp.entries["array"]

        def array(ex_, x, dtype=None, **k):
            # jnp.array([c] * win): an array of symbolic length filled with a constant
            if isinstance(x, _Rep):
                return Arr(z3.K(INT, coerce(x.v, REAL if isinstance(x.v, float) else INT)), x.n)
            return orig(ex_, x, dtype=dtype, **k)
        jnp.entries["array"] = array
        ex.opts["leaf_binop"] = None
        saved_binop = ex.lib.binop

        def binop(ex_, op, a_, b_, node):
            import ast as _ast
            if isinstance(op, _ast.Mult) and isinstance(a_, list) and len(a_) == 1 and is_sym(b_):
                return _Rep(a_[0], b_)
            return saved_binop(ex_, op, a_, b_, node)
        ex.lib.binop = binop
        try:
            try:
                ctx.call(args=[{"a": a, "b": b}, g])
            except Captured as cap:
                f, init, xs = cap.kw["f"], cap.kw["init"], cap.kw["xs"]
            else:
                ctx.ensure("apply_window scans the connection's edges", z3.BoolVal(False))
                return
        finally:
            jnp.entries["array"] = orig
            ex.lib.binop = saved_binop
        W = win + (Wd if cfg["trainable"] else 0)
        ctx.ensure("C07/C10 the initial window has window (+ the trainable-delay extension) slots, all marked empty (-1)",
                   z3.And(init.f["seq"].n == W, z3.Select(init.f["seq"].a, z3.Int("any")) == -1))
        ctx.ensure("the scan runs over this connection's edges", z3.BoolVal(xs is edge))
        # the body on an arbitrary carry and an arbitrary edge entry
        cw = mk_window("carry", W)
        e1 = Rec("Edge", dict(seq_out=z3.Int("e1.seq_out"), seq_in=z3.Int("e1.seq_in"), ts_recv=z3.Real("e1.ts_recv")), module=BASE, frozen=True)
        ctx.require(W >= 1)
        new, idx = ex.call(f, [cw, e1], {})
        j = z3.Int("j!aw")
        so = e1.f["seq_out"]
        sent = z3.If(z3.And(so >= -n, so < n), z3.Select(va.f["ts_end"].a, z3.If(so < 0, so + n, so)), z3.Real("fill"))
        ctx.ensure("C07 the newest window entry is this message: (seq_out, the sender's end time of that step, the receive time); older entries move one slot towards the front",
                   z3.And(new.f["seq"].n == W, z3.Select(new.f["seq"].a, W - 1) == so, z3.Select(new.f["ts_recv"].a, W - 1) == e1.f["ts_recv"],
                          z3.Implies(z3.And(so >= 0, so < n), z3.Select(new.f["ts_sent"].a, W - 1) == z3.Select(va.f["ts_end"].a, so)),
                          z3.ForAll([j], z3.Implies(z3.And(0 <= j, j < W - 1), z3.And(z3.Select(new.f["seq"].a, j) == z3.Select(cw.f["seq"].a, j + 1), z3.Select(new.f["ts_recv"].a, j) == z3.Select(cw.f["ts_recv"].a, j + 1))))))
        ctx.ensure("C07 the window is indexed by the consuming step (seq_in); never-sent messages (seq_out = -1) get index -1 so they are never selected",
                   z3.And(toz(idx.f["seq_in"]) == z3.If(so == -1, -1, e1.f["seq_in"]), toz(aw.same(idx.f["seq"], new.f["seq"]))))


class WindowIndex(Unit):
    """apply_window._get_window_index: the window a consumer step sees is the one after the last edge consumed at or before that step
    (never-sent entries are never selected; no such edge -> the initial, empty window)"""
    name = "apply_window._get_window_index"
    target = UT + "::apply_window"
    props = ("C07", "C01")

    def run(self, ctx):
        ex = ctx.ex
        n, m = z3.Int("num_vertices"), z3.Int("num_edges")
        ctx.require(z3.And(n >= 1, m >= 0))
        dist = Rec("DelayDistribution", {}, module=BASE, frozen=True)
        win = z3.Int("conn.window")
        ctx.require(win >= 1)
        a = Rec("BaseNode", dict(name="a", rate=z3.Real("a.rate"), outputs={}, inputs={}), module=None)
        b = Rec("BaseNode", dict(name="b", rate=z3.Real("b.rate"), outputs={}, inputs={}), module=None)
        c = Rec("Connection", dict(output_node=a, input_node=b, delay_dist=dist, window=win, blocking=False, jitter=aw.JIT["LATEST"]), module=None)
        a.f["outputs"]["b"] = c
        b.f["inputs"]["a"] = c
        va = Rec("Vertex", dict(seq=Arr.fresh("a.seq", INT, n), ts_start=Arr.fresh("a.ts_start", REAL, n), ts_end=Arr.fresh("a.ts_end", REAL, n)), module=BASE, frozen=True)
        vb = Rec("Vertex", dict(seq=Arr.fresh("b.seq", INT, n), ts_start=Arr.fresh("b.ts_start", REAL, n), ts_end=Arr.fresh("b.ts_end", REAL, n)), module=BASE, frozen=True)
        edge = Rec("Edge", dict(seq_out=Arr.fresh("e.seq_out", INT, m), seq_in=Arr.fresh("e.seq_in", INT, m), ts_recv=Arr.fresh("e.ts_recv", REAL, m)), module=BASE, frozen=True)
        g = Rec("Graph", dict(vertices={"a": va, "b": vb}, edges={("a", "b"): edge}), module=BASE, frozen=True)
        sin = Arr.fresh("indexed.seq_in", INT, m)        # the scan's per-edge seq_in (its own contract: unit apply_window._scan_body)

        def scan(ex_, f, init, xs, length):
            two_d = lambda t: Opaque(t)
            idx = Rec("IndexedWindow", dict(seq=two_d("seq[m,W]"), ts_sent=two_d("ts_sent[m,W]"), ts_recv=two_d("ts_recv[m,W]"), seq_in=sin), module=BASE, frozen=True)
            return init, idx
        ex.opts["scan"] = scan
        jnp = ex.lib.ns["jax.numpy"]
        orig_array, orig_conc = jnp.entries["array"], jnp.entries.get("concatenate")

        def array(ex_, x, dtype=None, **k):
            if isinstance(x, _Rep):
                return Arr(z3.K(INT, coerce(x.v, REAL if isinstance(x.v, float) else INT)), x.n)
            if isinstance(x, Arr):
                return _Row(x)
            if isinstance(x, int) and not isinstance(x, bool):
                return _IntS(x)
            return orig_array(ex_, x, dtype=dtype, **k)

        def concatenate(ex_, parts, axis=0):
            first, last = parts
            if isinstance(first, Arr) and isinstance(last, _Scalar1):
                j = z3.Int("j!ew")
                return Arr(z3.Lambda([j], z3.If(j < first.n, z3.Select(first.a, j), toz(last.v))), first.n + 1)
            return Opaque("extended 2-D windows")
        jnp.entries["array"], jnp.entries["concatenate"] = array, concatenate
        saved_binop = ex.lib.binop

        def binop(ex_, op, a_, b_, node):
            import ast as _ast
            if isinstance(op, _ast.Mult) and isinstance(a_, list) and len(a_) == 1 and is_sym(b_):
                return _Rep(a_[0], b_)
            if isinstance(op, _ast.Pow) and a_ == 2 and b_ == 31:
                return 2 ** 31
            return saved_binop(ex_, op, a_, b_, node)
        ex.lib.binop = binop

        def vmap(ex_, f, **k):
            raise Captured(f=f)
        ex.lib.ns["jax"].entries["vmap"] = vmap
        try:
            try:
                ctx.call(args=[{"a": a, "b": b}, g])
            except Captured as cap:
                f = cap.kw["f"]
            else:
                ctx.ensure("apply_window maps the window index over the consumer's steps", z3.BoolVal(False))
                return
        finally:
            jnp.entries["array"] = orig_array
            if orig_conc is not None:
                jnp.entries["concatenate"] = orig_conc
            ex.lib.binop = saved_binop
        s = z3.Int("consumer_step")
        idx = toz(ex.call(f, [s], {}))
        k = z3.Int("k!wi")
        BIGI = z3.IntVal(2 ** 31 - 1)
        eff = lambda t: z3.If(z3.Select(sin.a, t) == -1, BIGI, z3.Select(sin.a, t))     # never-sent entries can never be selected
        ctx.require(s < BIGI)
        ctx.ensure("C07/C01 the selected window is the one right after the LAST edge consumed at or before this step; -1 (the initial, empty window) if there is none; never-sent entries are skipped",
                   z3.Or(z3.And(idx == -1, z3.ForAll([k], z3.Implies(z3.And(0 <= k, k < m), eff(k) > s))),
                         z3.And(0 <= idx, idx < m, eff(idx) <= s, z3.ForAll([k], z3.Implies(z3.And(idx < k, k < m), eff(k) > s)))))


class _Row:
    def __init__(self, arr):
        self.arr = arr

    def pyvc_getitem(self, ex, i):
        return Opaque("row[None]")


class _Scalar1:
    def __init__(self, v):
        self.v = v


class _IntS(int):
    """a python int that can also be indexed with [None] (jnp.array(c)[None])"""

    def pyvc_getitem(self, ex, i):
        return _Scalar1(int(self))


class _Rep:
    def __init__(self, v, n):
        self.v, self.n = v, n


from .c14_nx import ToNetworkx
from .c07_timings import ToTimings, WindowedToGraph
from .c07_connected import ToConnected
UNITS = [ApplyWindowBody(), WindowIndex(), WindowedToGraph(), ToNetworkx(), ToTimings(), ToConnected()] + [u for u in compiled.UNITS if "C07" in u.props]


def check(tier, seed):
    from pyvc import bounded
    n = 12 if tier == "quick" else 96
    res = bounded.run_native("c07_schedule.py", ["--n", str(n), "--seed", str(seed)])
    lines, ev, err = bounded.report("C07", "compiled schedule vs executable contract", res, "c07_schedule.py")
    extra = dict(level="other", explanation="Hybrid: the rex-side scan body of apply_window, Window.push and to_networkx_graph (loop invariants over arrays of any length: exactly the executed vertices, the chaining of consecutive steps and the real "
                 "messages become vertices / edges) are proved (obligations / discharged below); to_timings is proved on an enumerated layout (2 episodes, 3 slots, a partition beyond the common horizon, an unused slot) with symbolic array contents; to_connected_graph is proved on enumerated small graphs with symbolic times (every order of the times is a path); the supergraph library's monomorphism and the window selection are validated on instances by the bounded stand-in, which is NOT a proof.",
                 bounded=[dict(ev, bound=f"{n} random 3-node systems (rates 1..20 Hz, windows 1..4, trainable / jittery delays, MCS / generational / topological x prune, 1-2 episodes): on the objects built by the real "
                                          "pipeline - every needed vertex mapped exactly once, kind-preserving, supervisor step p in partition p; slot carries the vertex's own seq / times / windows; run mask true exactly "
                                          "where mapped; per-kind sequence order; every window producer strictly before its consumer; windows = last `window` (+extension) consumed messages, oldest first")],
                 assumptions=["the supergraph library's result (grow_supergraph / evaluate_supergraph) is NOT under contract: it is validated on the instances above only (bounded)",
                              "the window selection of apply_window is covered by the bounded stand-in; apply_window's scan body, Window.push, to_networkx_graph, to_timings (enumerated layout, symbolic contents) and to_connected_graph (enumerated graphs, symbolic times) are proved",
                              "to_connected_graph: the graph is a real networkx.DiGraph with z3 terms as node attributes - copy / ancestors / add_edge are networkx's own; sorted(key=symbolic) forks one path per consistent order",
                              "to_timings: numpy gather / scatter is executed by numpy itself on object arrays whose entries are z3 terms (index arrays are concrete in a configuration); branching on array contents is allowed only on the supervisor's sequence numbers, which are concrete",
                              "networkx.DiGraph is modelled by its abstract state (vertex set with attributes, edge set with attributes; add_edge creates missing endpoints); vertex names f'{kind}_{seq}' are kept as the pair (kind, seq)"])
    code = check_property("C07", UNITS, tier, seed, extra=extra)
    if lines:
        for l in lines:
            print(l)
        return 1
    if err and code == 0:
        print(f"ERROR property=C07 bounded stand-in failed to run: {err[-300:]}")
        return 3
    return code
