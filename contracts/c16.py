"""C16 — node phases and node infos stay consistent with the configured delays."""
import z3
from pyvc.driver import Unit, check_property
from pyvc.values import *

Dist = Leaf
is_distrax = z3.Function("is_distrax", Leaf, BOOL)
is_dd = z3.Function("is_delaydist", Leaf, BOOL)
is_trainable = z3.Function("is_trainable", Leaf, BOOL)
wrap = z3.Function("StaticDist_create", Leaf, Leaf)


def _isinstance(ex, x, tname):
    if is_sym(x) and x.sort() == Leaf:
        if tname.endswith("Distribution") and "Delay" not in tname:
            return is_distrax(x)
        if tname == "DelayDistribution":
            return is_dd(x)
        if tname == "TrainableDist":
            return is_trainable(x)
    return None


def _create(ex, self_obj, args, kwargs, node):
    x = args[0]
    ex.assumptions_used.add("StaticDist.create(d) returns a DelayDistribution wrapping d (uninterpreted wrap; not itself a distrax.Distribution)")
    ex.assume(z3.And(is_dd(wrap(x)), z3.Not(is_distrax(wrap(x))), z3.Not(is_trainable(wrap(x)))))
    return wrap(x)


class SetDelay(Unit):
    props = ("C16",)

    def __init__(self, cls):
        self.cls = cls
        self.name = f"{cls}.set_delay"
        self.target = f"rex/node.py::{cls}.set_delay"

    def configs(self):
        for dd in (True, False):
            for d in (True, False):
                yield f"dist={'given' if dd else 'None'},delay={'given' if d else 'None'}", dict(dd=dd, d=d)

    def opts(self, cfg):
        return {"isinstance": _isinstance}

    def summaries(self, cfg):
        return {("StaticDist", "create"): _create}

    def run(self, ctx):
        ex, cfg = ctx.ex, ctx.cfg
        old_dd, new_dd = z3.Const("old_dd", Leaf), z3.Const("new_dd", Leaf)
        old_delay, new_delay = z3.Real("old_delay"), z3.Real("new_delay")
        obj = Rec(self.cls, dict(delay_dist=old_dd, delay=old_delay, name="n"), module="rex/node.py")
        # class invariant established by __init__: the stored distribution is a wrapped DelayDistribution
        ctx.require(z3.And(is_dd(old_dd), z3.Not(is_distrax(old_dd))))
        if self.cls == "BaseNode":
            ctx.require(z3.Not(is_trainable(old_dd)))
        # type precondition on the argument (taken from the signature)
        ctx.require(z3.Or(is_dd(new_dd), is_distrax(new_dd)))
        ctx.require(z3.Not(z3.And(is_dd(new_dd), is_distrax(new_dd))))
        trainable_given = z3.And(is_dd(new_dd), is_trainable(new_dd))
        ctx.probe("given_is_distrax", is_distrax(new_dd))
        kwargs = {}
        if cfg["dd"]:
            kwargs["delay_dist"] = new_dd
        if cfg["d"]:
            kwargs["delay"] = new_delay
        from pyvc.interp import RaiseEx
        try:
            ctx.call(self_obj=obj, kwargs=kwargs)
        except RaiseEx as e:
            # only BaseNode may refuse, and only a trainable distribution
            ok = self.cls == "BaseNode" and e.exc == "NotImplementedError" and cfg["dd"]
            ctx.ensure("raises only for a trainable computation-delay distribution", trainable_given if ok else z3.BoolVal(False))
            return
        if self.cls == "BaseNode" and cfg["dd"]:
            ctx.ensure("a trainable computation-delay distribution is refused", z3.Not(trainable_given))
        want_dd = z3.If(is_distrax(new_dd), wrap(new_dd), new_dd) if cfg["dd"] else old_dd
        ctx.ensure("delay_dist' = wrap(given) if given else old", obj.f["delay_dist"] == want_dd)
        ctx.ensure("delay' = given if given else old", obj.f["delay"] == (new_delay if cfg["d"] else old_delay))
        ctx.ensure("stored distribution is a DelayDistribution", z3.And(is_dd(obj.f["delay_dist"]), z3.Not(is_distrax(obj.f["delay_dist"]))))
        ctx.ensure("frame: only delay_dist and delay change", z3.BoolVal(set(obj.f) == {"delay_dist", "delay", "name"} and obj.f["name"] == "n"))

    def replay(self, label, clause, probes, model):
        return {"kind": "set_delay", "cls": self.cls, "dist_given": "dist=given" in label, "delay_given": "delay=given" in label,
                "given_is_distrax": probes.get("given_is_distrax") == "True"}


UNITS = [SetDelay("Connection"), SetDelay("BaseNode")]


def check(tier, seed):
    return check_property("C16", UNITS, tier, seed)
