"""C16 — node phases and node infos stay consistent with the configured delays."""
import z3
from pyvc.driver import Unit, check_property
from pyvc.values import *
from pyvc.interp import RaiseEx

Dist = Leaf
is_distrax = z3.Function("is_distrax", Leaf, BOOL)
is_dd = z3.Function("is_delaydist", Leaf, BOOL)
is_trainable = z3.Function("is_trainable", Leaf, BOOL)
wrap = z3.Function("StaticDist_create", Leaf, Leaf)


def _isinstance(ex, x, tname):
    if is_sym(x) and x.sort() == Leaf:
        if tname.endswith("Distribution") and "Delay" not in tname:
            return is_distrax(x)
        if tname == "DelayDistribution":
            return is_dd(x)
        if tname == "TrainableDist":
            return is_trainable(x)
    return None


def _create(ex, self_obj, args, kwargs, node):
    x = args[0]
    ex.assumptions_used.add("StaticDist.create(d) returns a DelayDistribution wrapping d (uninterpreted wrap; not itself a distrax.Distribution)")
    ex.assume(z3.And(is_dd(wrap(x)), z3.Not(is_distrax(wrap(x))), z3.Not(is_trainable(wrap(x)))))
    return wrap(x)


class SetDelay(Unit):
    props = ("C16",)

    def __init__(self, cls):
        self.cls = cls
        self.name = f"{cls}.set_delay"
        self.target = f"rex/node.py::{cls}.set_delay"

    def configs(self):
        for dd in (True, False):
            for d in (True, False):
                yield f"dist={'given' if dd else 'None'},delay={'given' if d else 'None'}", dict(dd=dd, d=d)

    def opts(self, cfg):
        return {"isinstance": _isinstance}

    def summaries(self, cfg):
        return {("StaticDist", "create"): _create}

    def run(self, ctx):
        ex, cfg = ctx.ex, ctx.cfg
        old_dd, new_dd = z3.Const("old_dd", Leaf), z3.Const("new_dd", Leaf)
        old_delay, new_delay = z3.Real("old_delay"), z3.Real("new_delay")
        # the object has the fields of a real node / connection (so that code touching its neighbours can run); only delay_dist / delay may change
        peer = Rec("BaseNode", dict(name="peer", inputs={}, outputs={}), module="rex/node.py")
        obj = Rec(self.cls, dict(delay_dist=old_dd, delay=old_delay, name="n", input_node=peer, output_node=peer, inputs={}, outputs={}), module="rex/node.py")
        # class invariant established by __init__: the stored distribution is a wrapped DelayDistribution
        ctx.require(z3.And(is_dd(old_dd), z3.Not(is_distrax(old_dd))))
        if self.cls == "BaseNode":
            ctx.require(z3.Not(is_trainable(old_dd)))
        # type precondition on the argument (taken from the signature)
        ctx.require(z3.Or(is_dd(new_dd), is_distrax(new_dd)))
        ctx.require(z3.Not(z3.And(is_dd(new_dd), is_distrax(new_dd))))
        trainable_given = z3.And(is_dd(new_dd), is_trainable(new_dd))
        ctx.probe("given_is_distrax", is_distrax(new_dd))
        kwargs = {}
        if cfg["dd"]:
            kwargs["delay_dist"] = new_dd
        if cfg["d"]:
            kwargs["delay"] = new_delay
        from pyvc.interp import RaiseEx
        try:
            ctx.call(self_obj=obj, kwargs=kwargs)
        except RaiseEx as e:
            # only BaseNode may refuse, and only a trainable distribution
            ok = self.cls == "BaseNode" and e.exc == "NotImplementedError" and cfg["dd"]
            ctx.ensure("raises only for a trainable computation-delay distribution", trainable_given if ok else z3.BoolVal(False))
            return
        if self.cls == "BaseNode" and cfg["dd"]:
            ctx.ensure("a trainable computation-delay distribution is refused", z3.Not(trainable_given))
        want_dd = z3.If(is_distrax(new_dd), wrap(new_dd), new_dd) if cfg["dd"] else old_dd
        ctx.ensure("delay_dist' = wrap(given) if given else old", obj.f["delay_dist"] == want_dd)
        ctx.ensure("delay' = given if given else old", obj.f["delay"] == (new_delay if cfg["d"] else old_delay))
        ctx.ensure("stored distribution is a DelayDistribution", z3.And(is_dd(obj.f["delay_dist"]), z3.Not(is_distrax(obj.f["delay_dist"]))))
        ctx.ensure("frame: only delay_dist and delay change", z3.BoolVal(set(obj.f) == {"delay_dist", "delay", "name", "input_node", "output_node", "inputs", "outputs"} and obj.f["name"] == "n"))

    def replay(self, label, clause, probes, model):
        return {"kind": "set_delay", "cls": self.cls, "dist_given": "dist=given" in label, "delay_given": "delay=given" in label,
                "given_is_distrax": probes.get("given_is_distrax") == "True"}


def mk_node(name, module="rex/node.py", with_phase=None):
    f = dict(name=name, rate=z3.Real(f"{name}.rate"), advance=False, scheduling=EnumV("Scheduling", "FREQUENCY"), delay_dist=z3.Const(f"{name}.delay_dist", Leaf),
             delay=z3.Real(f"{name}.delay"), inputs={}, outputs={}, color=None, order=None)
    if with_phase is not None:
        f["phase"] = with_phase
    return Rec("BaseNode", f, module=module)


def mk_conn(inp, out, input_name, tag):
    c = Rec("Connection", dict(input_node=inp, output_node=out, blocking=z3.Bool(f"{tag}.blocking"), delay_dist=z3.Const(f"{tag}.delay_dist", Leaf), delay=z3.Real(f"{tag}.delay"),
                               window=z3.Int(f"{tag}.window"), skip=z3.Bool(f"{tag}.skip"), jitter=EnumV("Jitter", "LATEST"), input_name=input_name), module="rex/node.py")
    inp.f["inputs"][input_name] = c
    out.f["outputs"][inp.f["name"]] = c
    return c


class Phase(Unit):
    """node.phase satisfies the Bellman equation of the longest expected-delay path"""
    name = "BaseNode.phase / Connection.phase"
    target = "rex/node.py::BaseNode.phase"
    props = ("C16", "C04")

    def configs(self):
        for k in (0, 1, 2, 3):
            yield f"fanin={k}", dict(k=k)

    def run(self, ctx):
        ex = ctx.ex
        n = mk_node("n")
        terms = []
        for i in range(ctx.cfg["k"]):
            src = mk_node(f"s{i}", with_phase=z3.Real(f"s{i}.phase"))
            ctx.require(src.f["phase"] >= 0)
            c = mk_conn(n, src, f"in{i}", f"c{i}")
            ctx.require(z3.And(src.f["delay"] >= 0, c.f["delay"] >= 0))    # expected delays are non-negative (asserted in the constructors)
            terms.append((c.f["skip"], src.f["phase"] + src.f["delay"] + c.f["delay"]))
            cp = ex.getattr(c, "phase")
            ctx.ensure(f"connection phase = sender phase + sender expected computation delay + connection expected delay", toz(cp) == src.f["phase"] + src.f["delay"] + c.f["delay"])
        ph = toz(ex.getattr(n, "phase"))
        ctx.ensure("C16 phase >= 0 and >= every non-skipped input's (sender phase + sender delay + connection delay)", z3.And([ph >= 0] + [z3.Implies(z3.Not(sk), ph >= t) for sk, t in terms]))
        ctx.ensure("C16 phase is attained: 0 for sources, else the largest such term (Bellman equation of the longest expected-delay path)", z3.Or([ph == 0] + [z3.And(z3.Not(sk), ph == t) for sk, t in terms]))
        po = toz(ex.getattr(n, "phase_output"))
        ctx.ensure("phase_output = phase + the node's expected computation delay", po == ph + n.f["delay"])


class InfoRoundTrip(Unit):
    """rebuilding a node's connections from its info (connect_from_info) yields equal infos, names and connection settings"""
    name = "BaseNode.info / connect_from_info"
    target = "rex/node.py::BaseNode.connect_from_info"
    props = ("C16",)

    def opts(self, cfg):
        return {"isinstance": _isinstance}

    def summaries(self, cfg):
        return {("StaticDist", "create"): _create}

    def configs(self):
        yield "two inputs, one with a shadow name", dict(names=[("a", "a"), ("b", "shadow_b")])
        yield "one input, default name", dict(names=[("a", "a")])

    def run(self, ctx):
        ex = ctx.ex
        ex.lib.rec_methods[("BaseNode", "__class__")] = lambda ex_, o: Rec("type", dict(__module__="m", __qualname__="BaseNode"), module=None, frozen=True)
        n = mk_node("n")
        srcs = {}
        for out_name, in_name in ctx.cfg["names"]:
            src = mk_node(out_name, with_phase=z3.Real(f"{out_name}.phase"))
            srcs[out_name] = src
            c = mk_conn(n, src, in_name, f"c_{out_name}")
            ctx.require(z3.And(is_dd(c.f["delay_dist"]), z3.Not(is_distrax(c.f["delay_dist"])), c.f["delay"] >= 0))
        info = ex.getattr(n, "info")
        ok = isinstance(info, Rec) and isinstance(info.f.get("inputs"), dict)
        ctx.ensure("info lists the inputs under the sender's node name", z3.BoolVal(ok and set(info.f["inputs"]) == set(srcs)))
        if not ok:
            return
        n2 = mk_node("n")
        # the rebuilt senders are new objects with the same names
        srcs2 = {k: mk_node(k, with_phase=v.f["phase"]) for k, v in srcs.items()}
        for k in srcs2:
            srcs2[k].f["rate"], srcs2[k].f["delay"] = srcs[k].f["rate"], srcs[k].f["delay"]
        ctx.call(self_obj=n2, args=[info.f["inputs"], srcs2])
        ctx.ensure("C16 the rebuilt node has the same input names (shadow names kept)", z3.BoolVal(set(n2.f["inputs"]) == set(n.f["inputs"])))
        info2 = ex.getattr(n2, "info")
        for out_name, in_name in ctx.cfg["names"]:
            a, b = info.f["inputs"][out_name], info2.f["inputs"].get(out_name)
            if not isinstance(b, Rec):
                ctx.ensure(f"C16 input from {out_name} restored", z3.BoolVal(False))
                continue
            ctx.ensure(f"C16 rebuilt InputInfo of the connection from {out_name} equals the original (name, sender, window, blocking, skip, jitter, delay, distribution, phase, rate)",
                       z3.And([toz(aw_same(a.f[k], b.f[k])) for k in a.f]))
            c2 = n2.f["inputs"].get(in_name)
            ctx.ensure(f"C16 the connection is registered on both ends under the right keys", z3.BoolVal(isinstance(c2, Rec) and srcs2[out_name].f["outputs"].get("n") is c2 and c2.f["output_node"] is srcs2[out_name]))


def aw_same(a, b):
    from .aw import same
    return same(a, b)


class PhaseHistory(Unit):
    """'takes effect in subsequent phases': after a phase has been read, a set_delay two hops upstream (or a new upstream connection) is
    reflected the next time the phase is read (multi-step history: read, change, read again)"""
    name = "phase after set_delay (history)"
    target = "rex/node.py::BaseNode.set_delay"
    props = ("C16", "C04")

    def opts(self, cfg):
        # a delay distribution is an opaque leaf here; its quantile (the constructors' default expected delay) is an uninterpreted non-negative real
        def leaf_attr(ex, o, attr):
            if attr == "quantile":
                def q(ex_, p):
                    v = z3.Function("dist_quantile", Leaf, REAL, REAL)(o, toz(p) if is_sym(p) else z3.RealVal(str(p)))
                    ex_.assume(v >= 0)
                    return v
                return q
            return None
        return {"isinstance": _isinstance, "leaf_attr": leaf_attr}

    def summaries(self, cfg):
        return {("StaticDist", "create"): _create}

    def configs(self):
        yield "node delay two hops upstream", dict(what="node")
        yield "connection delay two hops upstream", dict(what="conn")
        yield "new upstream connection", dict(what="connect")

    def run(self, ctx):
        ex, cfg = ctx.ex, ctx.cfg
        # nodes and connections are built by the REAL constructors (BaseNode.__init__, connect -> Connection.__init__), so attributes a change adds exist
        cref = ex.module_global(ctx.repo.module("rex/node.py"), "BaseNode")

        def real_node(name):
            dd, dl = z3.Const(f"{name}.delay_dist", Leaf), z3.Real(f"{name}.delay")
            ctx.require(z3.And(dl >= 0, is_dd(dd), z3.Not(is_distrax(dd)), z3.Not(is_trainable(dd))))
            return ex.call(cref, [], dict(name=name, rate=z3.Real(f"{name}.rate"), delay=dl, delay_dist=dd))

        def real_connect(dst, src, tag):
            dd, dl = z3.Const(f"{tag}.delay_dist", Leaf), z3.Real(f"{tag}.delay")
            ctx.require(z3.And(dl >= 0, is_dd(dd), z3.Not(is_distrax(dd))))
            ex.call(ex.getattr(dst, "connect"), [src], dict(delay=dl, delay_dist=dd))
            return dst.f["inputs"][src.f["name"]]
        s0, m, n, extra = real_node("s"), real_node("m"), real_node("n"), real_node("x")
        c_sm, c_mn = real_connect(m, s0, "sm"), real_connect(n, m, "mn")
        before = toz(ex.getattr(n, "phase"))                     # first read (a cache, if any, is filled here)
        ctx.ensure("before the change: phase(n) = delay(s) + delay(s->m) + delay(m) + delay(m->n)", before == s0.f["delay"] + c_sm.f["delay"] + m.f["delay"] + c_mn.f["delay"])
        nd = z3.Real("new_delay")
        ctx.require(nd >= 0)
        if cfg["what"] == "node":
            ex.call(ex.getattr(s0, "set_delay"), [], dict(delay=nd))
            want = nd + c_sm.f["delay"] + m.f["delay"] + c_mn.f["delay"]
        elif cfg["what"] == "conn":
            ex.call(ex.getattr(c_sm, "set_delay"), [], dict(delay=nd))
            want = s0.f["delay"] + nd + m.f["delay"] + c_mn.f["delay"]
        else:
            # s gains an input from x: x -> s -> m -> n
            xd, cd = z3.Real("x.conn_delay"), z3.Const("x.conn_dist", Leaf)
            ctx.require(z3.And(xd >= 0, is_dd(cd), z3.Not(is_distrax(cd))))
            ex.call(ex.getattr(s0, "connect"), [extra], dict(delay=xd, delay_dist=cd))
            want = extra.f["delay"] + xd + s0.f["delay"] + c_sm.f["delay"] + m.f["delay"] + c_mn.f["delay"]
        after = toz(ex.getattr(n, "phase"))
        ctx.ensure("C16 the change takes effect in the phase of every downstream node the next time it is read", after == want)
        info = ex.getattr(n, "info") if False else None


UNITS = [SetDelay("Connection"), SetDelay("BaseNode"), Phase(), InfoRoundTrip(), PhaseHistory()]



def _leaf_quantile(ex, o, attr):
    """a delay distribution is an opaque leaf; its quantile is an uninterpreted real (non-negative: C15's postcondition on quantiles of clipped delay distributions)"""
    if attr == "quantile":
        def q(ex_, p):
            v = DQ(o, toz(p) if is_sym(p) else z3.RealVal(str(p)))
            ex_.assume(v >= 0)
            return v
        return q
    return None


DQ = z3.Function("dist_quantile", Leaf, REAL, REAL)
DEFAULT_NORMAL = z3.Const("distrax.Normal(0,0)", Leaf)


class Ctor(Unit):
    """the constructors establish what every other contract of C16 / C15 takes as the class invariant: the stored distribution is a (wrapped) DelayDistribution, the expected delay is the given one or
    the 0.99-quantile of the STORED distribution and is non-negative, a trainable computation delay is refused, nothing else is invented"""
    props = ("C16", "C15")

    def __init__(self, cls):
        self.cls = cls
        self.name = f"{cls}.__init__"
        self.target = f"rex/node.py::{cls}.__init__"

    def configs(self):
        for dd in ("delaydist-or-distrax", "None"):
            for d in (True, False):
                yield f"dist={dd},delay={'given' if d else 'None'}", dict(dd=dd != "None", d=d)
        if self.cls == "Connection":
            yield "no input name: the sender's node name is used", dict(dd=True, d=True, input_name=None)

    def opts(self, cfg):
        return {"isinstance": _isinstance, "leaf_attr": _leaf_quantile, "assert_raises": True}

    def summaries(self, cfg):
        return {("StaticDist", "create"): _create}

    def run(self, ctx):
        ex, cfg = ctx.ex, ctx.cfg
        ex.lib.ns["distrax"].entries["Normal"] = lambda ex_, loc=None, scale=None: (ex_.assume(z3.And(is_distrax(DEFAULT_NORMAL), z3.Not(is_dd(DEFAULT_NORMAL)))), DEFAULT_NORMAL)[1] \
            if (loc, scale) == (0.0, 0.0) else z3.Const("distrax.Normal(other)", Leaf)
        given_dd, given_delay = z3.Const("given_dd", Leaf), z3.Real("given_delay")
        ctx.require(z3.Or(is_dd(given_dd), is_distrax(given_dd)))
        ctx.require(z3.Not(z3.And(is_dd(given_dd), is_distrax(given_dd))))
        ctx.require(z3.Implies(is_trainable(given_dd), is_dd(given_dd)))
        ctx.probe("given_is_distrax", is_distrax(given_dd))
        kwargs = {}
        if cfg["dd"]:
            kwargs["delay_dist"] = given_dd
        if cfg["d"]:
            kwargs["delay"] = given_delay
        cref = ex.module_global(ctx.repo.module("rex/node.py"), self.cls)
        if self.cls == "BaseNode":
            rate = z3.Real("rate")
            kwargs.update(name="n", rate=rate, advance=z3.Bool("advance"), scheduling=EnumV("Scheduling", "PHASE"), color="blue", order=z3.Int("order"))
            args = []
        else:
            inp, out = mk_node("dst"), mk_node("src")
            kwargs.update(blocking=z3.Bool("blocking"), window=z3.Int("window"), skip=z3.Bool("skip"), jitter=EnumV("Jitter", "BUFFER"), input_name=cfg.get("input_name", "shadow"))
            want_name = "shadow" if cfg.get("input_name", "shadow") is not None else "src"
            args = [inp, out]
        want_dd = z3.If(is_distrax(given_dd), wrap(given_dd), given_dd) if cfg["dd"] else wrap(DEFAULT_NORMAL)
        trainable = z3.And(is_trainable(given_dd)) if cfg["dd"] else z3.BoolVal(False)
        want_delay = given_delay if cfg["d"] else DQ(want_dd, z3.RealVal("0.99"))
        try:
            obj = ex.call(cref, args, kwargs)
        except RaiseEx as e:
            if e.exc == "NotImplementedError":
                ctx.ensure("refuses only a trainable COMPUTATION delay distribution", trainable if self.cls == "BaseNode" else z3.BoolVal(False))
            elif e.exc == "AssertionError":
                ctx.ensure("C15/C16 the constructor asserts only for a negative expected delay", want_delay < 0)
            else:
                ctx.ensure(f"unexpected {e.exc}", z3.BoolVal(False))
            return
        ok = isinstance(obj, Rec) and obj.cls == self.cls
        ctx.ensure("constructs an instance", z3.BoolVal(ok))
        if not ok:
            return
        if self.cls == "BaseNode":
            ctx.ensure("a trainable computation-delay distribution is refused", z3.Not(trainable))
        ctx.ensure("C16 stored distribution = the given DelayDistribution, or the given / default distrax distribution wrapped", toz(obj.f["delay_dist"]) == want_dd)
        ctx.ensure("stored distribution is a DelayDistribution (class invariant the other contracts start from)", z3.And(is_dd(toz(obj.f["delay_dist"])), z3.Not(is_distrax(toz(obj.f["delay_dist"])))))
        ctx.ensure("C15/C16 expected delay = the given one, else the 0.99-quantile of the STORED distribution; non-negative", z3.And(toz(obj.f["delay"]) == want_delay, toz(obj.f["delay"]) >= 0))
        if self.cls == "BaseNode":
            ctx.ensure("C16 name, rate, advance, scheduling, color, order are stored as given; no connections yet (two separate empty maps)",
                       z3.And(z3.BoolVal(obj.f["name"] == "n" and obj.f["color"] == "blue" and obj.f["inputs"] == {} and obj.f["outputs"] == {} and obj.f["inputs"] is not obj.f["outputs"]
                                         and isinstance(obj.f["scheduling"], EnumV) and obj.f["scheduling"].name == "PHASE"),
                              toz(obj.f["rate"]) == rate, toz(obj.f["advance"]) == z3.Bool("advance"), toz(obj.f["order"]) == z3.Int("order")))
        else:
            ctx.ensure("C16 both ends, blocking, window, skip, jitter and the (shadow) input name are stored as given",
                       z3.And(z3.BoolVal(obj.f["input_node"] is inp and obj.f["output_node"] is out and obj.f["input_name"] == want_name and isinstance(obj.f["jitter"], EnumV) and obj.f["jitter"].name == "BUFFER"),
                              toz(obj.f["blocking"]) == z3.Bool("blocking"), toz(obj.f["window"]) == z3.Int("window"), toz(obj.f["skip"]) == z3.Bool("skip")))


class FromInfo(Unit):
    """from_info(info, **overrides) hands every field of the info to the constructor (an override wins), and the rebuilt node's info equals the original's"""
    name = "BaseNode.from_info"
    target = "rex/node.py::BaseNode.from_info"
    props = ("C16",)

    def configs(self):
        yield "no overrides", dict(over=[])
        yield "rate and delay overridden", dict(over=["rate", "delay"])
        yield "name and scheduling overridden", dict(over=["name", "scheduling"])
        yield "every reserved field overridden", dict(over=["name", "rate", "delay_dist", "delay", "advance", "scheduling", "color", "order"])

    def opts(self, cfg):
        return {"isinstance": _isinstance, "leaf_attr": _leaf_quantile}

    def summaries(self, cfg):
        return {("StaticDist", "create"): _create}

    def run(self, ctx):
        ex, cfg = ctx.ex, ctx.cfg
        ex.lib.rec_methods[("BaseNode", "__class__")] = lambda ex_, o: Rec("type", dict(__module__="m", __qualname__="BaseNode"), module=None, frozen=True)
        dd = z3.Const("info.delay_dist", Leaf)
        ctx.require(z3.And(is_dd(dd), z3.Not(is_distrax(dd)), z3.Not(is_trainable(dd)), z3.Real("info.delay") >= 0))
        fields = dict(name="orig", rate=z3.Real("info.rate"), advance=z3.Bool("info.advance"), scheduling=EnumV("Scheduling", "PHASE"), phase=z3.Real("info.phase"), delay_dist=dd, delay=z3.Real("info.delay"),
                      inputs={}, cls="m/BaseNode", color="red", order=z3.Int("info.order"))
        info = Rec("NodeInfo", dict(fields), module="rex/base.py", frozen=True)
        odd = z3.Const("over.delay_dist", Leaf)
        over = dict(name="other", rate=z3.Real("over.rate"), delay=z3.Real("over.delay"), scheduling=EnumV("Scheduling", "FREQUENCY"), delay_dist=odd, advance=z3.Bool("over.advance"), color="green", order=z3.Int("over.order"))
        ctx.require(z3.And(over["delay"] >= 0, is_dd(odd), z3.Not(is_distrax(odd)), z3.Not(is_trainable(odd))))
        kwargs = {k: over[k] for k in cfg["over"]}
        cref = ex.module_global(ctx.repo.module("rex/node.py"), "BaseNode")
        node = ex.call(ex.getattr(cref, "from_info"), [info], kwargs)
        ok = isinstance(node, Rec) and node.cls == "BaseNode"
        ctx.ensure("from_info builds a node", z3.BoolVal(ok))
        if not ok:
            return
        same = lambda a, b: toz(aw_same(a, b)) if not isinstance(a, (str, EnumV)) else z3.BoolVal((a == b) if isinstance(a, str) else (isinstance(b, EnumV) and a.name == b.name))
        for k in ("name", "rate", "advance", "scheduling", "delay_dist", "delay", "color", "order"):
            want = kwargs.get(k, fields[k])
            ctx.ensure(f"C16 rebuilt node: {k} = " + ("the override" if k in kwargs else "the info's"), same(want, node.f[k]))
        info2 = ex.getattr(node, "info")
        ok2 = isinstance(info2, Rec)
        ctx.ensure("the rebuilt node has an info", z3.BoolVal(ok2))
        if ok2 and not cfg["over"]:
            ctx.ensure("C16 info of the rebuilt node (before its connections are restored) equals the original in every field but phase / inputs",
                       z3.And([same(fields[k], info2.f[k]) for k in ("name", "rate", "advance", "scheduling", "delay_dist", "delay", "cls", "color", "order")]))
            ctx.ensure("C16 ... and its phase is that of a source (0) until connect_from_info restores the inputs", toz(info2.f["phase"]) == 0)


class AlgebraicLoop(Unit):
    """an un-skipped cycle is reported as an algebraic loop (RecursionError naming the loop); skipping one connection of the cycle breaks it"""
    name = "BaseNode.phase on a cycle"
    target = "rex/node.py::BaseNode.phase"
    props = ("C16",)

    def configs(self):
        for L in (1, 2, 3):
            yield f"cycle of {L}, no connection skipped", dict(L=L, skipped=None)
            yield f"cycle of {L}, one connection skipped", dict(L=L, skipped=L - 1)
        yield "cycle of 2 plus an acyclic input", dict(L=2, skipped=None, extra=True)
        # history: the loop is reported first, then repaired by skipping one of its connections - the report must not outlive the loop
        yield "cycle of 3 reported, then repaired by skipping a connection", dict(L=3, skipped=None, repair=True)
        yield "cycle of 2 reported twice, then repaired", dict(L=2, skipped=None, repair=True, twice=True)

    def opts(self, cfg):
        return {"reentry_raises": True}

    def run(self, ctx):
        ex, cfg = ctx.ex, ctx.cfg
        L = cfg["L"]
        ns = [mk_node(f"n{i}") for i in range(L)]
        cs = []
        for i in range(L):      # n_i -> n_{i+1 mod L}
            c = mk_conn(ns[(i + 1) % L], ns[i], f"from_n{i}", f"c{i}")
            c.f["skip"] = (cfg["skipped"] == i)
            ctx.require(z3.And(ns[i].f["delay"] >= 0, c.f["delay"] >= 0))
            cs.append(c)
        if cfg.get("extra"):
            src = mk_node("src", with_phase=z3.Real("src.phase"))
            ctx.require(z3.And(src.f["phase"] >= 0, src.f["delay"] >= 0))
            ce = mk_conn(ns[0], src, "from_src", "ce")
            ce.f["skip"] = False
            ctx.require(ce.f["delay"] >= 0)
        try:
            ph = ex.getattr(ns[0], "phase")
            raised = None
        except RaiseEx as e:
            raised, ph = e, None
        if cfg["skipped"] is None:
            ctx.ensure("C16 an un-skipped cycle is reported: reading the phase raises RecursionError", z3.BoolVal(raised is not None and raised.exc == "RecursionError"))
            if raised is not None:
                msg = raised.msg if isinstance(raised.msg, str) else ""
                ctx.ensure("C16 ... whose message says 'Algebraic loop detected' and names the nodes of the loop", z3.BoolVal("Algebraic loop detected" in msg and all(n.f["name"] in msg for n in ns)))
            if cfg.get("repair"):
                if cfg.get("twice"):
                    try:
                        ex.getattr(ns[1], "phase")
                        again = None
                    except RaiseEx as e:
                        again = e
                    ctx.ensure("C16 the loop is reported again on the next query (from another node of the loop)", z3.BoolVal(again is not None and again.exc == "RecursionError"))
                cs[L - 1].f["skip"] = True          # n_{L-1} -> n0 is skipped from now on
                try:
                    phs = [toz(ex.getattr(n, "phase")) for n in ns]
                    err = None
                except RaiseEx as e:
                    phs, err = None, e
                ctx.ensure("C16 once a connection of the loop is skipped the phases are computed again (the earlier report leaves nothing behind)", z3.BoolVal(err is None))
                if phs is not None:
                    want = [z3.RealVal(0)]
                    for i in range(1, L):
                        want.append(want[-1] + ns[i - 1].f["delay"] + cs[i - 1].f["delay"])
                    ctx.ensure("C16 ... and equal the longest path over the non-skipped connections", z3.And([a == b for a, b in zip(phs, want)]))
                    info = ex.getattr(ns[L - 1], "info") if False else None
        else:
            ctx.ensure("C16 with one connection of the cycle skipped there is no algebraic loop: the phase is computed", z3.BoolVal(raised is None))
            if raised is None:
                # n0 <- n_{L-1} is skipped, so n0 is a source of the remaining chain
                ctx.ensure("C16 ... and equals the longest path over the non-skipped connections (0 for the node behind the skipped connection)", toz(ph) == 0)
                if L >= 2:
                    p1 = toz(ex.getattr(ns[1], "phase"))
                    ctx.ensure("C16 ... next node of the chain: sender phase + sender delay + connection delay", p1 == ns[0].f["delay"] + cs[0].f["delay"])


AlgebraicLoop.replay = lambda self, label, clause, probes, model: ({"kind": "pure", "which": "cycle_repaired", "L": 3 if "of 3" in label else 2, "twice": "twice" in label} if "repaired" in label else None)
UNITS.append(AlgebraicLoop())
UNITS += [Ctor("BaseNode"), Ctor("Connection"), FromInfo()]


def check(tier, seed):
    from pyvc import bounded
    n = 60 if tier == "quick" else 600
    res = bounded.run_native("c16_phases.py", ["--n", str(n), "--seed", str(seed)])
    lines, ev, err = bounded.report("C16", "phases and algebraic loops on whole topologies", res, "c16_phases.py")
    extra = dict(bounded=[dict(ev, bound=f"{n} random directed graphs (1-5 real nodes, random skip flags, self loops, one set_delay): a node behind an un-skipped cycle raises RecursionError "
                                         "'Algebraic loop detected', every other phase = longest expected-delay path (own DFS oracle), before and after the set_delay; explicit expected delays (also exactly 0.0) next to non-degenerate distributions, "
                                         "shadow input names; on acyclic cases the nodes rebuilt from their infos have equal connections and phases")],
                 assumptions=["unbounded recursion of the pure phase property ends in CPython's RecursionError (recursion rule of the executor; confirmed natively by the bounded stand-in)",
                              "on a DAG the Bellman equation's unique solution is the longest path (induction, written; cross-checked by the bounded stand-in)"])
    code = check_property("C16", UNITS, tier, seed, extra=extra)
    if lines:
        for l in lines:
            print(l)
        return 1
    if err and code == 0:
        print(f"ERROR property=C16 bounded stand-in failed to run: {err[-300:]}")
        return 3
    return code
