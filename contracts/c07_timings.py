"""C07 / C01 — rex/utils.py::to_timings under contract on an enumerated layout with SYMBOLIC contents.

The function is numpy fancy indexing over (episode, partition[, window]) arrays. Its arrays are modelled by `NdO`: a real numpy object array whose ENTRIES are z3 terms
(or concrete numbers where the code branches on them: the supervisor's sequence numbers, which decide the number of partitions). Index arrays are concrete (they come from
the monomorphism, which is concrete in a configuration), so numpy itself performs the gather / scatter and every entry of the result is the z3 term that was moved there:
the postcondition compares terms, for all values of the graph's times / sequence numbers / windows. Bounded in the layout (episodes, partitions, slots), unbounded in the contents."""
import ast
import numpy as np
import z3
from pyvc.driver import Unit
from pyvc.values import *
from pyvc.interp import RaiseEx

UTILS = "rex/utils.py"
BASE = "rex/base.py"


class NdO:
    pyvc_arraylike = True

    def __init__(self, a):
        self.a = np.asarray(a, dtype=object)

    @staticmethod
    def _idx(i):
        if isinstance(i, tuple):
            return tuple(NdO._idx(x) for x in i)
        if isinstance(i, NdO):
            return i.a.astype(int)
        if is_sym(i):
            raise Unsupported("symbolic index into an object array")
        return i

    def _wrap(self, r):
        return NdO(r) if isinstance(r, np.ndarray) else r

    def pyvc_getitem(self, ex, i):
        try:
            return self._wrap(self.a[self._idx(i)])
        except IndexError:
            raise RaiseEx("IndexError", None)

    def pyvc_setitem(self, ex, i, v):
        try:
            self.a[self._idx(i)] = v.a if isinstance(v, NdO) else v
        except IndexError:
            raise RaiseEx("IndexError", None)

    def pyvc_len(self, ex):
        return len(self.a)

    def _concrete(self):
        if any(is_sym(x) for x in self.a.flat):
            raise Unsupported("a reduction / branch over symbolic entries of an object array")

    def pyvc_getattr(self, ex, attr):
        if attr == "shape":
            return tuple(int(x) for x in self.a.shape)
        if attr == "astype":
            return lambda ex_, t: NdO(self.a.copy())
        if attr == "min":
            def mn(ex_, axis=None):
                self._concrete()
                return self._wrap(self.a.astype(int).min(axis=axis))
            return mn
        if attr == "sum":
            def sm(ex_, axis=None):
                self._concrete()
                r = self.a.astype(int).sum(axis=axis)
                return self._wrap(r) if isinstance(r, np.ndarray) else int(r)
            return sm
        if attr == "copy":
            return lambda ex_: NdO(self.a.copy())
        if attr == "reshape":
            return lambda ex_, *shape: NdO(self.a.reshape(*[tuple(x) if isinstance(x, (list, tuple)) else x for x in shape]))
        raise Unsupported(f"attribute {attr} of an object array")

    def pyvc_neg(self, ex):
        return NdO(np.vectorize(lambda x: -x, otypes=[object])(self.a)) if self.a.size else NdO(self.a.copy())

    def pyvc_compare(self, ex, op, other, reflected):
        self._concrete()
        o = other.a.astype(int) if isinstance(other, NdO) else other
        a = self.a.astype(int)
        a, o = (o, a) if reflected else (a, o)
        f = {ast.GtE: np.greater_equal, ast.Gt: np.greater, ast.LtE: np.less_equal, ast.Lt: np.less, ast.Eq: np.equal, ast.NotEq: np.not_equal}.get(type(op))
        if f is None:
            raise Unsupported("comparison of object arrays")
        return NdO(f(a, o))


def install_numpy(ex):
    onp = ex.lib.ns["numpy"]
    saved = dict(onp.entries)

    def array(ex_, x, *a, **k):
        if isinstance(x, NdO):
            return NdO(x.a.copy())          # onp.array copies
        if isinstance(x, list) and all(isinstance(t, tuple) and all(isinstance(v, int) for v in t) for t in x):
            return NdO(np.array(x, dtype=object).reshape(len(x), -1) if x else np.zeros((0,), dtype=object))
        return saved["array"](ex_, x, *a, **k)

    def zeros(ex_, shape, *a, **k):
        return NdO(np.zeros(shape, dtype=object)) if isinstance(shape, tuple) else saved["zeros"](ex_, shape, *a, **k)

    def ones(ex_, shape, *a, **k):
        return NdO(np.ones(shape, dtype=object) if True else None) if isinstance(shape, tuple) else saved["ones"](ex_, shape, *a, **k)

    def where(ex_, c, x, y):
        if isinstance(c, NdO):
            c._concrete()
            return NdO(np.where(c.a.astype(bool), x, y))
        return saved["where"](ex_, c, x, y)
    onp.entries.update(array=array, zeros=zeros, ones=ones, where=where)
    return saved


class ToTimings(Unit):
    name = "to_timings"
    target = UTILS + "::to_timings"
    props = ("C07", "C01")

    def configs(self):
        # kinds: a (slots a_0 in generation 0, a_1 in generation 1), sup (slot sup_0, last generation). 2 episodes; the supervisor has 2 steps in episode 0 and 3 in episode 1 -> 2 partitions.
        # monomorphism: vertex name -> (partition, slot); episode 1 also maps vertices into partition 2, which is beyond the common horizon and must be dropped.
        base = dict(E=2, N=4, W=2,
                    sup_seq=[[0, 1, -1, -1], [0, 1, 2, -1]],
                    mono=[{"a_0": (0, "a_0"), "a_1": (0, "a_1"), "sup_0": (0, "sup_0"), "a_2": (1, "a_0"), "sup_1": (1, "sup_0")},
                          {"a_0": (0, "a_1"), "sup_0": (0, "sup_0"), "a_1": (1, "a_0"), "a_2": (1, "a_1"), "sup_1": (1, "sup_0"), "a_3": (2, "a_0"), "sup_2": (2, "sup_0")}])
        yield "2 episodes, 2 common partitions, a slot unused in one partition, a partition beyond the horizon", base
        yield "a slot that is never used", dict(base, mono=[{"a_0": (0, "a_0"), "sup_0": (0, "sup_0"), "a_1": (1, "a_0"), "sup_1": (1, "sup_0")},
                                                             {"a_0": (0, "a_0"), "sup_0": (0, "sup_0"), "a_2": (1, "a_0"), "sup_1": (1, "sup_0")}])

    def run(self, ctx):
        ex, cfg = ctx.ex, ctx.cfg
        saved = install_numpy(ex)
        E, N, W = cfg["E"], cfg["N"], cfg["W"]
        sym = lambda tag, sort, shape: NdO(np.array([z3.Const(f"{tag}[{','.join(map(str, ix))}]", sort) for ix in np.ndindex(*shape)], dtype=object).reshape(shape))
        mkwin = lambda tag: Rec("Window", dict(seq=sym(f"{tag}.seq", INT, (E, N, W)), ts_sent=sym(f"{tag}.ts_sent", REAL, (E, N, W)), ts_recv=sym(f"{tag}.ts_recv", REAL, (E, N, W))), module=BASE, frozen=True)
        verts = {
            "a": Rec("WindowedVertex", dict(seq=sym("a.seq", INT, (E, N)), ts_start=sym("a.ts_start", REAL, (E, N)), ts_end=sym("a.ts_end", REAL, (E, N)), windows={"sup": mkwin("a<-sup")}), module=BASE, frozen=True),
            "sup": Rec("WindowedVertex", dict(seq=NdO(np.array(cfg["sup_seq"], dtype=object)), ts_start=sym("sup.ts_start", REAL, (E, N)), ts_end=sym("sup.ts_end", REAL, (E, N)),
                                             windows={"a": mkwin("sup<-a")}), module=BASE, frozen=True)}
        graphs = Rec("WindowedGraph", dict(vertices=verts), module=BASE, frozen=True)
        slots = {"a_0": ("a", 0), "a_1": ("a", 1), "sup_0": ("sup", 2)}
        S = Rec("DiGraph", dict(nodes={s: {"kind": k} for s, (k, g) in slots.items()}), module=None)
        Gs = []
        for e in range(E):
            nodes = {}
            for vname in cfg["mono"][e]:
                kind, q = vname.rsplit("_", 1)
                nodes[vname] = {"seq": int(q), "kind": kind}
            Gs.append(Rec("DiGraph", dict(nodes=nodes), module=None))
        gens = [["a_0"], ["a_1"], ["sup_0"]]
        sg = NS("supergraph", dict(ex.lib.ns["supergraph"].entries) if "supergraph" in ex.lib.ns else {})
        sg.entries["topological_generations"] = lambda ex_, S_: [list(g) for g in gens]
        ex.lib.ns["supergraph"] = sg
        try:
            T = ctx.call(args=[graphs, S, Gs, cfg["mono"], "sup"])
        except RaiseEx as e:
            ctx.ensure(f"C07 to_timings returns the timings (raised {e.exc})", z3.BoolVal(False))
            return
        finally:
            ex.lib.ns["numpy"].entries.clear()
            ex.lib.ns["numpy"].entries.update(saved)
        ok = isinstance(T, Rec) and T.cls == "Timings" and isinstance(T.f.get("slots"), dict)
        ctx.ensure("returns Timings", z3.BoolVal(ok))
        if not ok:
            return
        P = 2
        ctx.ensure("C07 one slot per supergraph node, with the node's kind and the index of its topological generation",
                   z3.BoolVal(set(T.f["slots"]) == set(slots) and all(T.f["slots"][s].f["kind"] == k and T.f["slots"][s].f["generation"] == g for s, (k, g) in slots.items())))
        same = lambda x, y: (z3.eq(toz(x), toz(y)) if (is_sym(x) or is_sym(y)) else (x == y and type(x) == type(y) or (isinstance(x, (int, float, bool)) and isinstance(y, (int, float, bool)) and float(x) == float(y))))
        for s, (kind, g) in slots.items():
            if s not in T.f["slots"]:
                continue
            sl, v = T.f["slots"][s], verts[kind]
            shape_ok = all(isinstance(sl.f[k], NdO) and sl.f[k].a.shape == (E, P) for k in ("seq", "ts_start", "ts_end", "run")) and all(w.f[k].a.shape == (E, P, W) for w in sl.f["windows"].values() for k in ("seq", "ts_sent", "ts_recv"))
            ctx.ensure(f"C07 slot {s}: arrays are (episodes x common partitions [x window]); the number of partitions is the smallest number of supervisor steps over the episodes", z3.BoolVal(shape_ok and set(sl.f["windows"]) == set(v.f["windows"])))
            if not shape_ok:
                continue
            for e in range(E):
                mapped = {p: int(vn.rsplit("_", 1)[1]) for vn, (p, s2) in cfg["mono"][e].items() if s2 == s and p < P}
                for p in range(P):
                    if p in mapped:
                        q = mapped[p]
                        good = bool(sl.f["run"].a[e, p] == True) and same(sl.f["seq"].a[e, p], v.f["seq"].a[e, q]) and same(sl.f["ts_start"].a[e, p], v.f["ts_start"].a[e, q]) and same(sl.f["ts_end"].a[e, p], v.f["ts_end"].a[e, q])
                        wins = all(same(sl.f["windows"][n1].f[k].a[e, p, j], v.f["windows"][n1].f[k].a[e, q, j]) for n1 in v.f["windows"] for k in ("seq", "ts_sent", "ts_recv") for j in range(W))
                        ctx.ensure(f"C07/C01 slot {s}, episode {e}, partition {p}: runs, and carries the mapped vertex's ({kind}_{q}) own sequence number, start / end time and input windows", z3.BoolVal(bool(good) and wins))
                    else:
                        idle = (sl.f["run"].a[e, p] == False and same(sl.f["seq"].a[e, p], 0) and same(sl.f["ts_start"].a[e, p], 0) and same(sl.f["ts_end"].a[e, p], 0)
                                and all(same(sl.f["windows"][n1].f["seq"].a[e, p, j], -1) for n1 in v.f["windows"] for j in range(W)))
                        ctx.ensure(f"C07 slot {s}, episode {e}, partition {p}: nothing is mapped here - masked (run false, seq 0, window entries -1)", z3.BoolVal(bool(idle)))


class WindowedToGraph(Unit):
    """WindowedGraph.to_graph (the graph the supergraph is grown from): every (step, window entry) of every connection becomes one edge producer message -> consuming step, so that
    EVERY producer in a step's window precedes that step - not only the newest or the oldest one. Enumerated shape (2 episodes x 3 steps x window 2 / 3), symbolic contents."""
    name = "WindowedGraph.to_graph"
    target = BASE + "::WindowedGraph.to_graph"
    props = ("C07",)

    def configs(self):
        yield "window 2", dict(E=2, N=3, W=2)
        yield "window 3, one episode", dict(E=1, N=2, W=3)
        yield "window 1", dict(E=2, N=3, W=1)

    def run(self, ctx):
        ex, cfg = ctx.ex, ctx.cfg
        E, N, W = cfg["E"], cfg["N"], cfg["W"]
        jnp = ex.lib.ns["jax.numpy"]
        saved = jnp.entries.get("repeat")
        jnp.entries["repeat"] = lambda ex_, x, k, axis=None: NdO(np.repeat(x.a, k, axis=axis)) if isinstance(x, NdO) else (_ for _ in ()).throw(Unsupported("repeat"))
        sym = lambda tag, sort, shape: NdO(np.array([z3.Const(f"{tag}[{','.join(map(str, ix))}]", sort) for ix in np.ndindex(*shape)], dtype=object).reshape(shape))
        mkwin = lambda tag: Rec("Window", dict(seq=sym(f"{tag}.seq", INT, (E, N, W)), ts_sent=sym(f"{tag}.ts_sent", REAL, (E, N, W)), ts_recv=sym(f"{tag}.ts_recv", REAL, (E, N, W))), module=BASE, frozen=True)
        mkv = lambda k, wins: Rec("WindowedVertex", dict(seq=sym(f"{k}.seq", INT, (E, N)), ts_start=sym(f"{k}.ts_start", REAL, (E, N)), ts_end=sym(f"{k}.ts_end", REAL, (E, N)), windows=wins), module=BASE, frozen=True)
        verts = {"a": mkv("a", {}), "b": mkv("b", {"a": mkwin("b<-a")}), "c": mkv("c", {"b": mkwin("c<-b"), "a": mkwin("c<-a")})}
        wg = Rec("WindowedGraph", dict(vertices=verts), module=BASE, frozen=True)
        try:
            g = ctx.call(self_obj=wg)
        except RaiseEx as e:
            ctx.ensure(f"returns a graph (raised {e.exc})", z3.BoolVal(False))
            return
        finally:
            if saved is not None:
                jnp.entries["repeat"] = saved
            else:
                jnp.entries.pop("repeat", None)
        ok = isinstance(g, Rec) and g.cls == "Graph"
        ctx.ensure("returns a Graph", z3.BoolVal(ok))
        if not ok:
            return
        ctx.ensure("C07 the vertices are the windowed vertices' own seq / ts_start / ts_end arrays", z3.BoolVal(set(g.f["vertices"]) == set(verts) and all(g.f["vertices"][k].f[f] is verts[k].f[f] for k in verts for f in ("seq", "ts_start", "ts_end"))))
        conns = {(n1, n2) for n2, v in verts.items() for n1 in v.f["windows"]}
        ctx.ensure("C07 one edge set per windowed connection (producer, consumer)", z3.BoolVal(set(g.f["edges"]) == conns))
        for (n1, n2) in sorted(conns & set(g.f["edges"])):
            e, w, v2 = g.f["edges"][(n1, n2)], verts[n2].f["windows"][n1], verts[n2]
            ok_shape = all(isinstance(e.f[k], NdO) and e.f[k].a.ndim == 2 and e.f[k].a.shape == e.f["seq_out"].a.shape and e.f[k].a.shape[0] == E for k in ("seq_out", "seq_in", "ts_recv"))
            ctx.ensure(f"C07 {n1}->{n2}: the three edge arrays are (episodes x edges) and equally long", z3.BoolVal(ok_shape))
            if not ok_shape:
                continue
            K = e.f["seq_out"].a.shape[1]
            have = {ep: [(e.f["seq_out"].a[ep, t], e.f["seq_in"].a[ep, t], e.f["ts_recv"].a[ep, t]) for t in range(K)] for ep in range(E)}
            same = lambda x, y: z3.eq(toz(x), toz(y))
            # window entries are stored oldest first and a producer's steps are chained, so an edge from entry j' >= j into the step also puts entry j before it (C07 asks for
            # the order, not for one edge per entry: a change that keeps only the NEWEST entry's edge is fine, one that keeps only the oldest is not)
            good = all(any(same(si, v2.f["seq"].a[ep, st]) and any(same(so, w.f["seq"].a[ep, st, j2]) and same(tr, w.f["ts_recv"].a[ep, st, j2]) for j2 in range(j, W)) for (so, si, tr) in have[ep])
                       for ep in range(E) for st in range(N) for j in range(W))
            ctx.ensure(f"C07 {n1}->{n2}: every message in a step's window precedes that step in the graph the schedule is grown from: it, or a newer message of the same window, is an edge into exactly that step (with its own receive time)", z3.BoolVal(good))
            nothing_else = all(any(same(so, w.f["seq"].a[ep, st, j]) and same(si, v2.f["seq"].a[ep, st]) for st in range(N) for j in range(W)) for ep in range(E) for (so, si, tr) in have[ep])
            ctx.ensure(f"C07 {n1}->{n2}: and there is no other edge", z3.BoolVal(nothing_else))
