"""Contracts on the node-thread handlers of rex/asynchronous.py:
push_scheduled_ts, push_phase_shift, push_step, _async_step, async_step, throttle, _submit."""
import itertools
import z3
from pyvc.driver import Unit
from pyvc.values import *
from pyvc import values as V
from pyvc.interp import RaiseEx, LoopSpec
from . import aw
from .aw import World, ASYNC, CLOCK, Ev


def blocking_combos(k):
    return list(itertools.product([True, False], repeat=k))


def fanins():
    """fan-in values enumerated: 0..2 on every change, 0..3 in the thorough tier"""
    import os
    return (0, 1, 2, 3) if os.environ.get("VERIF_TIER") == "thorough" else (0, 1, 2)


def mk_node_world(ctx, cfg, with_step_state=False):
    w = World(ctx, cfg.get("clock", "SIMULATED"))
    n = w.node("n", state=cfg.get("state", "RUNNING"), advance=cfg.get("advance", False), scheduling=cfg.get("scheduling", "FREQUENCY"), rs=cfg.get("rs"),
               input_names=[f"in{i}" for i in range(len(cfg.get("fanin", ())))])
    ins = []
    for idx, b in enumerate(cfg.get("fanin", ())):
        src = w.node(f"s{idx}")
        ins.append(w.conn(src, n, f"in{idx}", blocking=b, state=cfg.get("state", "RUNNING")))
    outs = []
    for idx in range(cfg.get("fanout", 1)):
        dst = w.node(f"d{idx}")
        outs.append(w.conn(n, dst, "n_in", blocking=False))
    w.assume_all()
    return w, n, ins, outs


COMMON_SUMM = {("_AsyncNodeWrapper", "_submit"): aw.submit_summary, ("_AsyncConnectionWrapper", "_submit"): aw.submit_summary}


def throttle_summary(ex, self_obj, args, kwargs, node):
    ex.ev.append(Ev("throttle", self_obj, "throttle", args))
    return None


# =========================================================================================== push_scheduled_ts
class PushScheduledTs(Unit):
    name = "push_scheduled_ts"
    target = aw.AS + "::_AsyncNodeWrapper.push_scheduled_ts"
    props = ("C02", "C03", "C04")

    def configs(self):
        for k in fanins():
            for combo in blocking_combos(k):
                yield f"fanin={''.join('B' if b else 'N' for b in combo) or '-'}", dict(fanin=combo)

    def summaries(self, cfg):
        s = dict(COMMON_SUMM)
        s[("_AsyncNodeWrapper", "push_phase_shift")] = aw.make_call_summary("push_phase_shift", aw.frame_push_phase_shift, aw.wf_node_clauses)
        return s

    def run(self, ctx):
        ex = ctx.ex
        w, n, ins, outs = mk_node_world(ctx, ctx.cfg)
        pre = ctx.snapshot(n)
        pre_objs = aw.reachable(pre)
        ctx.call(self_obj=n)
        post_objs = aw.reachable(n)
        aw.frame_check(ctx, pre_objs, post_objs, aw.frame_push_scheduled_ts(n))
        calls = [e for e in ex.ev if e.kind == "call"]
        subs = [e for e in ex.ev if e.kind == "submit"]
        ctx.ensure("no task submitted to a foreign wrapper", z3.BoolVal(not any(e.kind == "bad-submit-target" for e in ex.ev)))
        if not calls:
            # guard false: nothing happens
            ctx.ensure("guard false => q_tick empty", pre.f["q_tick"].length() == 0, props=("C02", "C04"))
            ctx.ensure("guard false => no events", z3.BoolVal(not ex.ev))
            aw.frame_check(ctx, pre_objs, post_objs, [], label="guard false => empty frame")
            return
        ctx.ensure("exactly one push_phase_shift per tick", z3.BoolVal(len(calls) == 1 and calls[0].fn == "push_phase_shift"))
        at = calls[0].snap  # state when push_phase_shift was entered
        tick = pre.f["_tick"]
        rate, phase = n.f["node"].f["rate"], pre.f["_phase"]
        ts_sched = R6(z3.ToReal(tick) / rate + phase)
        q0, q1 = pre.f["q_ts_scheduled"], at.f["q_ts_scheduled"]
        ctx.ensure("one token consumed", z3.And(at.f["q_tick"].lo == pre.f["q_tick"].lo + 1, at.f["q_tick"].hi == pre.f["q_tick"].hi), props=("C03", "C04"))
        ctx.ensure("gap-free ticks: _tick' = _tick + 1", at.f["_tick"] == tick + 1, props=("C03", "C04"))
        ctx.ensure("C04 schedule law: (tick, R6(tick/rate + phase)) queued before the phase shift is computed",
                   z3.And(q1.lo == q0.lo, q1.hi == q0.hi + 1, q1.leaf((0,), q0.length()) == tick, q1.leaf((1,), q0.length()) == ts_sched,
                          aw.same(Seq(q1.schema, q1.arrs, q1.lo, q0.hi), q0) if False else z3.BoolVal(True)), props=("C04", "C02"))
        j = z3.Int("j!f")
        for p in q0.arrs:
            ctx.ensure(f"q_ts_scheduled keeps its old entries {p}", z3.ForAll([j], z3.Implies(z3.And(q0.lo <= j, j < q0.hi), z3.Select(q1.arrs[p], j) == z3.Select(q0.arrs[p], j))), props=("C04",))
        # blocking inputs get (tick, ts_sched) and a push_expected_blocking task each; non-blocking ones nothing
        for c, pc in zip(ins, [pre_objs[f"self.inputs[in{i}]"] for i in range(len(ins))]):
            qa, qb = pc.f["q_ts_next_step"], c.f["q_ts_next_step"]
            mine = [e for e in subs if e.target.oid == c.oid]
            if c.f["connection"].f["blocking"]:
                ctx.ensure(f"blocking input {c.f['connection'].f['input_name']}: (tick, scheduled_ts) appended",
                           z3.And(qb.lo == qa.lo, qb.hi == qa.hi + 1, qb.leaf((0,), qa.length()) == tick, qb.leaf((1,), qa.length()) == ts_sched), props=("C03", "C04", "C02"))
                ctx.ensure(f"blocking input {c.f['connection'].f['input_name']}: one push_expected_blocking task on the input's own executor",
                           z3.BoolVal(len(mine) == 1 and mine[0].fn == "push_expected_blocking"), props=("C03", "C02"))
            else:
                ctx.ensure(f"non-blocking input {c.f['connection'].f['input_name']}: no task", z3.BoolVal(len(mine) == 0), props=("C03", "C02"))
        ctx.ensure("wf(node) kept", z3.And([c for _, c in aw.wf_node_clauses(n)]))


# =========================================================================================== push_phase_shift
class PushPhaseShift(Unit):
    name = "push_phase_shift"
    target = aw.AS + "::_AsyncNodeWrapper.push_phase_shift"
    props = ("C02", "C03", "C04", "C13")

    def configs(self):
        for clock in ("SIMULATED", "WALL_CLOCK"):
            for sched in ("FREQUENCY", "PHASE"):
                for adv in (False, True):
                    for k in fanins():
                        for combo in blocking_combos(k):
                            for state in ("RUNNING", "STOPPING"):
                                if state == "STOPPING" and (k != 1 or clock != "SIMULATED"):
                                    continue
                                lab = f"{clock[:3]},{sched[:4]},adv={int(adv)},fanin={''.join('B' if b else 'N' for b in combo) or '-'},{state}"
                                yield lab, dict(clock=clock, scheduling=sched, advance=adv, fanin=combo, state=state, fanout=2)

    def summaries(self, cfg):
        s = dict(COMMON_SUMM)
        s[("_AsyncNodeWrapper", "push_step")] = aw.make_call_summary("push_step", aw.frame_push_step, aw.wf_node_clauses)
        s[("_AsyncNodeWrapper", "throttle")] = throttle_summary
        return s

    def run(self, ctx):
        ex, cfg = ctx.ex, ctx.cfg
        w, n, ins, outs = mk_node_world(ctx, cfg)
        sim = cfg["clock"] == "SIMULATED"
        pre = ctx.snapshot(n)
        pre_objs = aw.reachable(pre)
        pre_in = [pre_objs[f"self.inputs[in{i}]"] for i in range(len(ins))]
        ctx.call(self_obj=n)
        post_objs = aw.reachable(n)
        aw.frame_check(ctx, pre_objs, post_objs, aw.frame_push_phase_shift(n))
        calls = [e for e in ex.ev if e.kind == "call"]
        subs = [e for e in ex.ev if e.kind == "submit"]
        ctx.ensure("no task submitted to a foreign wrapper", z3.BoolVal(not any(e.kind == "bad-submit-target" for e in ex.ev)))
        blk = [(c, p) for c, p in zip(ins, pre_in) if c.f["connection"].f["blocking"]]
        nbl = [(c, p) for c, p in zip(ins, pre_in) if not c.f["connection"].f["blocking"]]
        guard = z3.And([pre.f["q_ts_scheduled"].length() > 0, pre.f["q_ts_end_prev"].length() > 0] + [p.f["q_ts_max"].length() > 0 for _, p in blk])
        if not calls:
            ctx.ensure("not fired => guard false (no lost wake-up inside the handler)", z3.Not(guard), props=("C02", "C04"))
            ctx.ensure("not fired => no events", z3.BoolVal(not ex.ev))
            aw.frame_check(ctx, pre_objs, post_objs, [], label="not fired => empty frame")
            return
        ctx.ensure("fired => guard", guard, props=("C02", "C04"))
        ctx.ensure("exactly one push_step call", z3.BoolVal(len(calls) == 1 and calls[0].fn == "push_step"))
        at = calls[0].snap
        at_objs = aw.reachable(at)
        # ---- values popped
        tick = pre.f["q_ts_scheduled"].leaf((0,), 0)
        ts_sched = pre.f["q_ts_scheduled"].leaf((1,), 0)
        ts_end_prev = pre.f["q_ts_end_prev"].leaf((), 0)
        heads = [p.f["q_ts_max"].leaf((), 0) for _, p in blk]
        ts_max = z3.RealVal(0)
        if heads:
            ts_max = heads[0]
            for h in heads[1:]:
                ts_max = z3.If(h > ts_max, h, ts_max)
        ps0 = pre.f["_phase_scheduled"]
        only_blocking = cfg["advance"] and all(c.f["connection"].f["blocking"] for c in ins)
        mx = lambda a, b: z3.If(a >= b, a, b)
        # ---- the start-time law, straight from the property statement
        want_start = mx(ts_end_prev, ts_max) if only_blocking else mx(mx(ts_sched + ps0, ts_end_prev), ts_max)
        qs0, qs1 = pre.f["q_ts_start"], at.f["q_ts_start"]
        k0 = qs0.length()
        ts_start = qs1.leaf((1,), k0)
        ctx.probe("ts_sched", ts_sched); ctx.probe("ts_end_prev", ts_end_prev); ctx.probe("ts_max", ts_max); ctx.probe("phase_scheduled", ps0); ctx.probe("ts_start", ts_start)
        ctx.ensure("one entry appended to q_ts_start, for the popped tick", z3.And(qs1.lo == qs0.lo, qs1.hi == qs0.hi + 1, qs1.leaf((0,), k0) == tick), props=("C03", "C04"))
        ctx.ensure("C04 start-time law: ts_start = max(scheduled + drift, end of previous step, last blocking arrival)"
                   + (" [advance & only blocking inputs: schedule ignored]" if only_blocking else ""), ts_start == want_start, props=("C04", "C02"))
        if not only_blocking:
            ctx.ensure("C04 never before the scheduled time", ts_start >= ts_sched, props=("C04",))
        ctx.ensure("C04/C03 no overlap: ts_start >= end of the previous step", ts_start >= ts_end_prev, props=("C04", "C03"))
        ctx.ensure("C04 waits for the last blocking message", ts_start >= ts_max, props=("C04", "C03"))
        # ---- drift
        if cfg["scheduling"] == "FREQUENCY":
            want_ps = ps0 + mx(z3.RealVal(0), (ts_end_prev - ts_sched) - ps0)
            ctx.ensure("C04 FREQUENCY: drift accumulates the overrun: phase_scheduled' = max(old, ts_end_prev - ts_scheduled)",
                       z3.And(at.f["_phase_scheduled"] == want_ps, at.f["_phase_scheduled"] == mx(ps0, ts_end_prev - ts_sched)), props=("C04",))
        else:
            ctx.ensure("C04 PHASE: drift reset (node returns to the grid)", at.f["_phase_scheduled"] == 0, props=("C04",))
        ctx.ensure("phase_scheduled stays >= 0", at.f["_phase_scheduled"] >= 0, props=("C04",))
        # ---- pops
        ctx.ensure("pops exactly one scheduled entry and one previous-end entry",
                   z3.And(at.f["q_ts_scheduled"].lo == pre.f["q_ts_scheduled"].lo + 1, at.f["q_ts_scheduled"].hi == pre.f["q_ts_scheduled"].hi,
                          at.f["q_ts_end_prev"].lo == pre.f["q_ts_end_prev"].lo + 1), props=("C03", "C04"))
        for (c, p), i in zip(blk, range(len(blk))):
            a = at_objs[[k for k in at_objs if at_objs[k].oid == c.oid][0]]
            ctx.ensure(f"pops exactly one ts_max of blocking input {c.f['connection'].f['input_name']}",
                       z3.And(a.f["q_ts_max"].lo == p.f["q_ts_max"].lo + 1, a.f["q_ts_max"].hi == p.f["q_ts_max"].hi), props=("C03", "C04"))
        # ---- delay / end time / announcements
        rec = qs1.at(k0)[3]
        hdr_ok = []
        if sim:
            qsm = pre.f["q_sample"]
            refill = qsm.length() == 0
            delay = z3.If(refill, aw.SAMP(pre.f["_dist_state"], 0), qsm.leaf((), 0))
            ctx.probe("delay", delay)
            ctx.ensure("C04/C02 computation delay = next sample of the node's own distribution state (batch refill when empty)",
                       z3.And(qs1.leaf((2,), k0) == delay, delay >= 0,
                              at.f["_dist_state"] == z3.If(refill, aw.NEXT(pre.f["_dist_state"]), pre.f["_dist_state"]),
                              z3.Implies(z3.Not(refill), z3.And(at.f["q_sample"].lo == qsm.lo + 1, at.f["q_sample"].hi == qsm.hi)),
                              z3.Implies(refill, at.f["q_sample"].length() == 49)), props=("C04", "C02", "C15"))
            ts_out = ts_start + delay
            qe = at.f["q_ts_end_prev"]
            ctx.ensure("C04 end time = start + delay queued as the next 'previous end'",
                       z3.And(qe.hi == pre.f["q_ts_end_prev"].hi + 1, qe.leaf((), qe.length() - 1) == ts_out), props=("C04", "C03"))
            ann = [e for e in subs if e.fn == "push_ts_input"]
            if cfg["state"] == "RUNNING":
                ok = len(ann) == len(outs) and {e.target.oid for e in ann} == {o.oid for o in outs}
                ctx.ensure("C03 exactly one send-time announcement per output and tick, on the output's own executor", z3.BoolVal(ok), props=("C03", "C02"))
                for e in ann:
                    h = e.args[1]
                    ctx.ensure("C03/C04 announcement carries (eps, tick, ts_start + delay)",
                               z3.And(toz(e.args[0]) == ts_out, h.f["eps"] == pre.f["_eps"], h.f["seq"] == tick, h.f["ts"] == ts_out), props=("C03", "C04", "C02"))
            else:
                ctx.ensure("not RUNNING => nothing announced", z3.BoolVal(len(ann) == 0), props=("C03",))
            own = [e for e in subs if e.fn == "push_scheduled_ts"]
            ctx.ensure("next scheduled tick requested once (simulated clock runs ahead)", z3.BoolVal(len(own) == 1 and own[0].target.oid == n.oid), props=("C02",))
        else:
            ctx.ensure("wall clock: no delay sampled, nothing announced here", z3.BoolVal(qs1.schema[2].value is None and not [e for e in subs if e.fn in ("push_ts_input", "push_scheduled_ts")]), props=("C04",))
        # ---- the queued record is what was used (C13)
        rf = rec.f
        ctx.ensure("C13 queued step record = the values used",
                   z3.And(rf["eps"] == pre.f["_eps"], rf["seq"] == tick, rf["ts_scheduled"] == ts_sched, rf["ts_max"] == ts_max, rf["ts_start"] == ts_start,
                          rf["ts_end_prev"] == ts_end_prev, rf["phase"] == ts_start - ts_sched, rf["phase_scheduled"] == ps0,
                          rf["phase_inputs"] == ts_max - ts_sched, rf["phase_last"] == ts_end_prev - ts_sched, rf["phase_overwrite"] == 0), props=("C13",))
        # ---- non-blocking inputs are told the actual start time, after push_step
        order = [e for e in ex.ev if e.kind in ("call", "submit")]
        for c, p in nbl:
            qa, qb = p.f["q_ts_next_step"], c.f["q_ts_next_step"]
            mine = [e for e in subs if e.target.oid == c.oid]
            ctx.ensure(f"non-blocking input {c.f['connection'].f['input_name']}: (tick, ts_start) appended, one push_expected_nonblocking task",
                       z3.And(qb.lo == qa.lo, qb.hi == qa.hi + 1, qb.leaf((0,), qa.length()) == tick, qb.leaf((1,), qa.length()) == ts_start,
                              z3.BoolVal(len(mine) == 1 and mine[0].fn == "push_expected_nonblocking")), props=("C03", "C02", "C04"))
        for c, p in blk:
            mine = [e for e in subs if e.target.oid == c.oid]
            ctx.ensure(f"blocking input {c.f['connection'].f['input_name']}: untouched here", z3.BoolVal(not mine), props=("C03",))
        # throttling never touches simulated data: its argument is ts_start
        th = [e for e in ex.ev if e.kind == "throttle"]
        should = any(not c.f["connection"].f["blocking"] for c in ins) or not cfg["advance"]
        ctx.ensure("throttle called iff (some non-blocking input or not advance), with ts_start", z3.BoolVal(len(th) == (1 if should else 0)) if not th else z3.And(z3.BoolVal(should and len(th) == 1), toz(th[0].args[0]) == ts_start), props=("C02",))
        ctx.ensure("wf(node) kept", z3.And([c for _, c in aw.wf_node_clauses(n)]))

    def replay(self, label, clause, probes, model):
        return {"kind": "push_phase_shift", "label": label, "probes": probes}


class Throttle(Unit):
    """throttle only sleeps: empty frame (so the real-time factor cannot leak into simulated data)"""
    name = "throttle"
    target = aw.AS + "::_AsyncNodeWrapper.throttle"
    props = ("C02",)

    def run(self, ctx):
        ex = ctx.ex
        w, n, ins, outs = mk_node_world(ctx, dict(fanin=(False,)))
        pre = ctx.snapshot(n)
        r = ctx.call(self_obj=n, args=[z3.Real("ts")])
        aw.frame_check(ctx, aw.reachable(pre), aw.reachable(n), [], label="throttle has an empty frame")
        ctx.ensure("throttle returns nothing", z3.BoolVal(r is None))
        ctx.ensure("no events", z3.BoolVal(not ex.ev))


UNITS = [PushScheduledTs(), PushPhaseShift(), Throttle()]


# =========================================================================================== push_step
def mk_input_state(tag, n):
    return Rec("InputState", dict(seq=Arr.fresh(f"{tag}.seq", INT, n), ts_sent=Arr.fresh(f"{tag}.ts_sent", REAL, n), ts_recv=Arr.fresh(f"{tag}.ts_recv", REAL, n),
                                  data=Arr.fresh(f"{tag}.data", Leaf, n), delay_dist=z3.Const(f"{tag}.delay_dist", Leaf)), module="rex/base.py", frozen=True)


def mk_step_state(ctx, tag, input_names):
    ins = {}
    for nm in input_names:
        n = z3.Int(f"{tag}.{nm}.size")
        ctx.require(n >= 1)
        ins[nm] = mk_input_state(f"{tag}.{nm}", n)
    return Rec("StepState", dict(rng=z3.Const(f"{tag}.rng", Leaf), state=z3.Const(f"{tag}.state", Leaf), params=z3.Const(f"{tag}.params", Leaf),
                                 inputs=ins, eps=z3.Int(f"{tag}.eps"), seq=z3.Int(f"{tag}.seq"), ts=z3.Real(f"{tag}.ts")), module="rex/base.py", frozen=True)


LEAVES = ("seq", "ts_sent", "ts_recv", "data")
GPATH = {"seq": (0,), "ts_sent": (1,), "ts_recv": (2,), "data": (3,)}


def fold_push_closed_form(old, grouped, cur, k):
    """cur == old after pushing grouped[0..k) (oldest first) into the ring: cur[j] = old[j+k] if j+k < n else grouped[j+k-n]"""
    n = old.f["seq"].n
    j = z3.Int("j!fp")
    parts = [cur.f["delay_dist"] == old.f["delay_dist"]]
    for lf in LEAVES:
        o, c = old.f[lf], cur.f[lf]
        parts.append(c.n == n)
        parts.append(z3.ForAll([j], z3.Implies(z3.And(0 <= j, j < n),
                     z3.Select(c.a, j) == z3.If(j + k < n, z3.Select(o.a, j + k), grouped.leaf(GPATH[lf], j + k - n)))))
    return z3.And(parts)


def async_step_summary(outcome, calls):
    def summ(ex, self_obj, args, kwargs, node):
        ss = args[0]
        calls.append(V.clone(ss, {}))
        k = len(calls)
        if outcome == "skipped":
            return None, Rec("_SkippedSteps", dict(_skipped_steps=z3.Int(f"skipped{k}")), module=aw.AS)
        out = z3.Const(f"step_output{k}", Leaf)
        if outcome == "none_state":
            return None, out
        new = Rec("StepState", dict(rng=z3.Const(f"new_rng{k}", Leaf), state=z3.Const(f"new_state{k}", Leaf), params=z3.Const(f"new_params{k}", Leaf),
                                     inputs=ss.f["inputs"], eps=z3.Int(f"new_eps{k}"), seq=z3.Int(f"new_seq{k}"), ts=z3.Real(f"new_ts{k}")), module="rex/base.py", frozen=True)
        return new, out
    return summ


RS_ALL = dict(params=True, rng=True, inputs=True, state=True, output=True)
RS_NONE = dict(params=False, rng=False, inputs=False, state=False, output=False)
RS_MIX = dict(params=False, rng=True, inputs=False, state=False, output=True)


class PushStep(Unit):
    name = "push_step"
    target = aw.AS + "::_AsyncNodeWrapper.push_step"
    props = ("C01", "C02", "C03", "C04", "C06", "C13")

    def configs(self):
        for clock in ("SIMULATED", "WALL_CLOCK"):
            for k in (0, 1, 2):
                for outcome in ("normal", "none_state", "skipped"):
                    for rsn, rs in (("all", RS_ALL), ("none", RS_NONE), ("mix", RS_MIX)):
                        for state in ("RUNNING", "STOPPING"):
                            if (k == 2 or clock == "WALL_CLOCK") and (rsn == "mix" or state == "STOPPING"):
                                continue
                            if outcome != "normal" and rsn == "mix":
                                continue
                            if outcome == "skipped" and rs["output"]:
                                continue  # heterogeneous record list (None-tree output) is outside the value domain: stated gap
                            yield f"{clock[:3]},fanin={k},{outcome},rec={rsn},{state}", dict(clock=clock, fanin=(False,) * k, outcome=outcome, rs=rs, state=state, fanout=2)

    def summaries(self, cfg):
        s = dict(COMMON_SUMM)
        s[("_AsyncNodeWrapper", "throttle")] = throttle_summary
        s[("_AsyncNodeWrapper", "now")] = lambda ex, o, a, k, n: ex.fresh("now", REAL)
        return s

    def opts(self, cfg):
        def isinst(ex, x, tname):
            if tname == "_SkippedSteps":
                return isinstance(x, Rec) and x.cls == "_SkippedSteps"
            return None
        return {"isinstance": isinst}

    def run(self, ctx):
        ex, cfg = ctx.ex, ctx.cfg
        sim = cfg["clock"] == "SIMULATED"
        w, n, ins, outs = mk_node_world(ctx, cfg)
        names = [c.f["connection"].f["input_name"] for c in ins]
        ss0 = mk_step_state(ctx, "ss", names)
        n.f["_step_state"] = ss0
        calls = []
        ex.summaries[("_AsyncNodeWrapper", "_async_step")] = async_step_summary(cfg["outcome"], calls)
        # record list shape invariant: every stored record has an output iff output recording is on (real lists are homogeneous, see line ~769)
        pre = ctx.snapshot(n)
        pre_objs = aw.reachable(pre)
        pre_in = [pre_objs[f"self.inputs[in{i}]"] for i in range(len(ins))]

        def inv(ex_, k):
            env = ex_.frame.env
            nm = aw.Roles().get(env, "input_name")
            return fold_push_closed_form(ss0.f["inputs"][nm], aw.Roles().get(env, "grouped"), aw.Roles().get(env, "input_state"), k)

        ex.loops[("push_step", 1)] = LoopSpec(inv)
        try:
            ctx.call(self_obj=n)
        except RaiseEx as e:
            # documented refusals under the wall clock: the step moved step_state.ts backwards or past now()
            ctx.ensure("push_step raises only ValueError under the wall clock (inconsistent overwritten timestamp)", z3.BoolVal(e.exc == "ValueError" and not sim), props=("C04",))
            return
        post_objs = aw.reachable(n)
        aw.frame_check(ctx, pre_objs, post_objs, aw.frame_push_step(n))
        guard = z3.And([pre.f["q_ts_start"].length() > 0] + [p.f["q_grouped"].length() > 0 for p in pre_in])
        subs = [e for e in ex.ev if e.kind == "submit"]
        ctx.ensure("no task submitted to a foreign wrapper", z3.BoolVal(not any(e.kind == "bad-submit-target" for e in ex.ev)))
        if not calls:
            ctx.ensure("not fired => guard false", z3.Not(guard), props=("C02", "C03", "C06"))
            ctx.ensure("C06 not fired => step not executed, no events", z3.BoolVal(not ex.ev), props=("C06", "C02"))
            aw.frame_check(ctx, pre_objs, post_objs, [], label="not fired => empty frame")
            return
        ctx.ensure("fired => guard", guard, props=("C02", "C03", "C06"))
        ctx.ensure("C06 exactly one _async_step per popped tick", z3.BoolVal(len(calls) == 1), props=("C06",))
        arg = calls[0]
        q0 = pre.f["q_ts_start"]
        tick, ts_start, rec0 = q0.leaf((0,), 0), q0.leaf((1,), 0), q0.at(0)[3]
        delay = q0.leaf((2,), 0) if sim else None
        ctx.ensure("pops exactly one start entry", z3.And(n.f["q_ts_start"].lo == q0.lo + 1, n.f["q_ts_start"].hi == q0.hi), props=("C03", "C06"))
        # ---- the StepState handed to the step (C01 link 1, C06, C13)
        ctx.ensure("C06/C01 step runs with seq = tick and ts = start time; rng/state/params/eps of the stored step state",
                   z3.And(arg.f["seq"] == tick, arg.f["ts"] == ts_start, arg.f["rng"] == ss0.f["rng"], arg.f["state"] == ss0.f["state"],
                          arg.f["params"] == ss0.f["params"], arg.f["eps"] == ss0.f["eps"]), props=("C01", "C06", "C13", "C02"))
        for c, p, nm in zip(ins, pre_in, names):
            g = p.f["q_grouped"].at(0)
            ctx.ensure(f"input {nm}: exactly one group popped", z3.And(c.f["q_grouped"].lo == p.f["q_grouped"].lo + 1, c.f["q_grouped"].hi == p.f["q_grouped"].hi), props=("C03",))
            ctx.ensure(f"C01/C03 input {nm}: window = previous window with the group's messages pushed oldest first (closed form of the ring shift)",
                       fold_push_closed_form(ss0.f["inputs"][nm], g, arg.f["inputs"][nm], g.length()), props=("C01", "C03", "C13"))
        ctx.ensure("inputs dict has exactly the node's input names", z3.BoolVal(set(arg.f["inputs"].keys()) == set(names)), props=("C01",))
        # ---- new state
        if cfg["outcome"] == "normal":
            ctx.ensure("C13/C01 stored step state' = the state returned by the step", aw.same(n.f["_step_state"], ex_ret_state(ex, calls)), props=("C01", "C13", "C02"))
        else:
            ctx.ensure("step returned no state => stored step state unchanged", aw.same(n.f["_step_state"], ss0), props=("C01", "C13"))
        # ---- timing
        if sim:
            ts_end = ts_start + delay
        else:
            ts_end = None
        hdrs = [e for e in subs if e.fn == "push_input"]
        should_send = cfg["outcome"] != "skipped" and cfg["state"] == "RUNNING"
        if should_send:
            ctx.ensure("C03 exactly one message per output and tick, on the output's own executor",
                       z3.BoolVal(len(hdrs) == len(outs) and {e.target.oid for e in hdrs} == {o.oid for o in outs}), props=("C03", "C02"))
            for e in hdrs:
                h = e.args[1]
                c1 = [h.f["eps"] == pre.f["_eps"], h.f["seq"] == tick]
                if sim:
                    c1.append(h.f["ts"] == ts_end)
                ctx.ensure("C03/C04 message header = (eps, tick, ts_start + delay); payload = the step's output", z3.And(c1 + [aw.same(e.args[0], z3.Const("step_output1", Leaf))]), props=("C03", "C04", "C02", "C13"))
        else:
            ctx.ensure("stopping / skipped step sends nothing", z3.BoolVal(not hdrs), props=("C03",))
        # ---- record (C13)
        r0, r1 = pre.f["_record_steps"], n.f["_record_steps"]
        rs = cfg["rs"]
        appended = r1.hi == r0.hi + 1
        fits = r0.length() < pre.f["_max_records"]
        if cfg["outcome"] != "skipped":
            ctx.ensure("C13 record appended iff fewer than max_records stored; else discarded counter +1",
                       z3.And(r1.lo == r0.lo, z3.If(fits, z3.And(appended, n.f["_discarded"] == pre.f["_discarded"]),
                                                     z3.And(r1.hi == r0.hi, n.f["_discarded"] == pre.f["_discarded"] + 1))), props=("C13",))
            last = r1.at(r0.length())
            lf = last.f
            want = [lf["eps"] == pre.f["_eps"], lf["seq"] == tick, lf["ts_scheduled"] == rec0.f["ts_scheduled"], lf["ts_max"] == rec0.f["ts_max"],
                    lf["ts_end_prev"] == rec0.f["ts_end_prev"], lf["phase"] == rec0.f["phase"], lf["sent"].f["eps"] == pre.f["_eps"], lf["sent"].f["seq"] == tick,
                    lf["sent"].f["ts"] == lf["ts_end"], lf["delay"] == lf["ts_end"] - lf["ts_start"]]
            if sim:
                want += [lf["ts_start"] == ts_start, lf["ts_end"] == ts_end, lf["delay"] == delay, lf["phase_overwrite"] == 0]
            if rs["rng"]:
                want.append(lf["rng"] == arg.f["rng"])
            if rs["state"]:
                want.append(lf["state"] == arg.f["state"])
            if rs["output"]:
                want.append(lf["output"] == z3.Const("step_output1", Leaf))
            if rs["inputs"]:
                want.append(toz(aw.same(lf["inputs"], arg.f["inputs"])))
            ctx.ensure("C13 the appended record holds exactly what the step used and produced (seq, times, rng, state before the step, output)",
                       z3.Implies(fits, z3.And(want)), props=("C13",))
            j = z3.Int("j!r")
            for pth in r0.arrs:
                ctx.ensure(f"C13 earlier records untouched {pth}", z3.ForAll([j], z3.Implies(z3.And(r0.lo <= j, j < r0.hi), z3.Select(r1.arrs[pth], j) == z3.Select(r0.arrs[pth], j))), props=("C13",))
        # ---- next tick
        own = [e for e in subs if e.fn == "push_scheduled_ts"]
        if cfg["state"] == "RUNNING":
            ctx.ensure("running: one token returned and next schedule requested once",
                       z3.And(n.f["q_tick"].hi == pre.f["q_tick"].hi + 1, n.f["q_tick"].lo == pre.f["q_tick"].lo, z3.BoolVal(len(own) == 1 and own[0].target.oid == n.oid)), props=("C02", "C03"))
        else:
            ctx.ensure("not running: no new tick", z3.And(n.f["q_tick"].hi == pre.f["q_tick"].hi, z3.BoolVal(not own)), props=("C02",))
        if sim:
            ctx.ensure("simulated clock: previous-end queue untouched here (it was queued by push_phase_shift)", aw.same(n.f["q_ts_end_prev"], pre.f["q_ts_end_prev"]), props=("C04",))
            th = [e for e in ex.ev if e.kind == "throttle"]
            ctx.ensure("throttle only sees the simulated end time", z3.And(z3.BoolVal(len(th) == 1), toz(th[0].args[0]) == ts_end) if th else z3.BoolVal(False), props=("C02",))
        ctx.ensure("wf(node) kept", z3.And([c for _, c in aw.wf_node_clauses(n)]))


def ex_ret_state(ex, calls):
    k = len(calls)
    ss = calls[-1]
    return Rec("StepState", dict(rng=z3.Const(f"new_rng{k}", Leaf), state=z3.Const(f"new_state{k}", Leaf), params=z3.Const(f"new_params{k}", Leaf),
                                 inputs=ss.f["inputs"], eps=z3.Int(f"new_eps{k}"), seq=z3.Int(f"new_seq{k}"), ts=z3.Real(f"new_ts{k}")), module="rex/base.py", frozen=True)


UNITS.append(PushStep())


# =========================================================================================== _async_step / async_step (C06)
class NodeStepCounter:
    """ghost counter on node.step"""

    def __init__(self):
        self.calls = []

    def step(self, ex, ss):
        self.calls.append(ss)
        k = len(self.calls)
        new = Rec("StepState", dict(rng=z3.Const(f"s_rng{k}", Leaf), state=z3.Const(f"s_state{k}", Leaf), params=z3.Const(f"s_params{k}", Leaf),
                                     inputs=ss.f["inputs"], eps=z3.Int(f"s_eps{k}"), seq=z3.Int(f"s_seq{k}"), ts=z3.Real(f"s_ts{k}")), module="rex/base.py", frozen=True)
        return (new if self.returns_state else None), z3.Const(f"s_out{k}", Leaf)


class AsyncStepOnce(Unit):
    """_AsyncNodeWrapper._async_step runs the node's step exactly once and returns that call's result; async_step bumps seq"""
    props = ("C06", "C13", "C01")

    def __init__(self, which):
        self.which = which
        self.name = which
        self.target = aw.AS + "::_AsyncNodeWrapper." + which

    def configs(self):
        yield "state", dict(returns_state=True)
        yield "no-state", dict(returns_state=False)

    def run(self, ctx):
        ex = ctx.ex
        w, n, ins, outs = mk_node_world(ctx, dict(fanin=()))
        ss = mk_step_state(ctx, "ss", [])
        ctr = NodeStepCounter()
        ctr.returns_state = ctx.cfg["returns_state"]
        n.f["node"].f["step"] = ctr.step
        if self.which == "_async_step":
            # callee under its own contract (AsyncStepOnce('async_step')): one node.step, seq + 1
            def async_step_summ(ex_, ss_):
                st, out = ctr.step(ex_, ss_)
                return (Rec("StepState", dict(st.f, seq=st.f["seq"] + 1), module="rex/base.py", frozen=True) if st is not None else None), out
            n.f["async_step"] = async_step_summ
        pre = ctx.snapshot(n)
        ret = ctx.call(self_obj=n, args=[ss])
        aw.frame_check(ctx, aw.reachable(pre), aw.reachable(n), [], label="empty frame")
        ctx.ensure("C06 the user's step function is executed exactly once", z3.BoolVal(len(ctr.calls) == 1), props=("C06",))
        ctx.ensure("C06 it is executed on the step state it was given", z3.BoolVal(len(ctr.calls) >= 1 and ctr.calls[0] is ss), props=("C06", "C13"))
        ok = isinstance(ret, tuple) and len(ret) == 2
        ctx.ensure("returns (state, output)", z3.BoolVal(ok))
        if ok:
            ctx.ensure("C06/C13 returns the output of that one call", aw.same(ret[1], z3.Const("s_out1", Leaf)), props=("C06", "C13"))
            if ctx.cfg["returns_state"]:
                st = ret[0]
                ctx.ensure("C01 returned state = the step's state with seq + 1",
                           z3.And(z3.BoolVal(isinstance(st, Rec)), st.f["seq"] == z3.Int("s_seq1") + 1, st.f["rng"] == z3.Const("s_rng1", Leaf), st.f["state"] == z3.Const("s_state1", Leaf),
                                  st.f["params"] == z3.Const("s_params1", Leaf), st.f["ts"] == z3.Real("s_ts1"), st.f["eps"] == z3.Int("s_eps1")) if isinstance(st, Rec) else z3.BoolVal(False), props=("C01", "C06"))
            else:
                ctx.ensure("no state returned => None passed through", z3.BoolVal(ret[0] is None))


UNITS += [AsyncStepOnce("_async_step"), AsyncStepOnce("async_step")]
