"""C19 — RL environment wrappers account episodes, actions and statistics correctly (rex/rl.py)."""
import z3
from pyvc.driver import Unit, check_property
from pyvc.values import *
from pyvc.interp import RaiseEx
from pyvc import smt
from . import aw

RL = "rex/rl.py"
BASE = "rex/base.py"


def mk_gs(tag, aux):
    return Rec("GraphState", dict(step=z3.Int(f"{tag}.step"), eps=z3.Int(f"{tag}.eps"), rng={"n": z3.Const(f"{tag}.rng", Leaf)}, seq={}, ts={}, params={}, state={"n": z3.Const(f"{tag}.state", Leaf)},
                                  inputs={}, timings_eps=None, buffer=None, aux=dict(aux)), module=BASE, frozen=True)


def inner_env(result):
    calls = []

    def step(ex, gs, action):
        calls.append((gs, action))
        return result
    return Rec("Env", dict(step=step, params=None), module=None), calls


class EnvStep(Unit):
    """Environment.step = graph.step with the supervisor's output set from the action; reward / flags from the stepped state"""
    name = "Environment.step"
    target = RL + "::Environment.step"
    props = ("C19",)

    def run(self, ctx):
        ex = ctx.ex
        U = lambda name, *sorts: z3.Function(name, *sorts)
        OUT, PRE, POST, SSOF, GSTEP = U("get_output", Leaf, Leaf, Leaf), U("pre_step", Leaf, Leaf, Leaf), U("post_step", Leaf, Leaf, Leaf), U("step_state", Leaf, Leaf), U("graph_step", Leaf, Leaf, Leaf, Leaf)
        REW, TRUNC, TERM, INFO, OBS = U("reward", Leaf, Leaf, REAL), U("truncated", Leaf, BOOL), U("terminated", Leaf, BOOL), U("info", Leaf, Leaf, Leaf), U("obs", Leaf, Leaf)
        graph = Rec("Graph", dict(step=lambda ex_, gs, ss, out: (GSTEP(gs, ss, out), z3.Const("ignored", Leaf))), module=None)
        env = Rec("Environment", dict(graph=graph, get_output=lambda ex_, gs, a: OUT(gs, a), update_graph_state_pre_step=lambda ex_, gs, a: PRE(gs, a),
                                      update_graph_state_post_step=lambda ex_, gs, a=None: POST(gs, a), get_step_state=lambda ex_, gs, name=None: SSOF(gs),
                                      get_reward=lambda ex_, gs, a: REW(gs, a), get_truncated=lambda ex_, gs: TRUNC(gs), get_terminated=lambda ex_, gs: TERM(gs),
                                      get_info=lambda ex_, gs, a=None: INFO(gs, a), get_observation=lambda ex_, gs: OBS(gs)), module=RL)
        gs, a = z3.Const("gs", Leaf), z3.Const("action", Leaf)
        ret = ctx.call(self_obj=env, args=[gs, a])
        ok = isinstance(ret, tuple) and len(ret) == 6
        ctx.ensure("returns (gs, obs, reward, terminated, truncated, info)", z3.BoolVal(ok))
        if not ok:
            return
        stepped = GSTEP(PRE(gs, a), SSOF(PRE(gs, a)), OUT(gs, a))
        ctx.ensure("C19 the environment's step is the graph's step with the supervisor's step state and its output computed from the action",
                   z3.And(toz(ret[0]) == POST(stepped, a), toz(ret[2]) == REW(stepped, a), toz(ret[3]) == TERM(stepped), toz(ret[4]) == TRUNC(stepped),
                          toz(ret[1]) == OBS(POST(stepped, a)), toz(ret[5]) == INFO(POST(stepped, a), a)))


class AutoReset(Unit):
    name = "AutoResetWrapper.step"
    target = RL + "::AutoResetWrapper.step"
    props = ("C19",)

    def configs(self):
        yield "fixed_init", dict(fixed=True)
        yield "fresh init each episode (no preset params)", dict(fixed=False, params=None)
        yield "fresh init each episode (rng of a node without preset params)", dict(fixed=False, params={"n": 0})

    def run(self, ctx):
        ex, cfg = ctx.ex, ctx.cfg
        init_gs = mk_gs("init", {})
        init = Rec("InitialState", dict(graph_state=init_gs, obs=z3.Const("init.obs", Leaf), info={"k": z3.Const("init.info", Leaf)}), module=RL, frozen=True)
        gs = mk_gs("gs", {"init": init, "other": z3.Const("other_aux", Leaf)} if cfg["fixed"] else {"other": z3.Const("other_aux", Leaf)})
        if not cfg["fixed"]:
            gs.f["rng"]["m"] = z3.Const("gs.rng.m", Leaf)           # two nodes: n (possibly with preset params) and m
            init_gs.f["rng"]["m"] = z3.Const("init.rng.m", Leaf)
        obs, info = z3.Const("obs", Leaf), {"k": z3.Const("info", Leaf)}
        reward, term, trunc = z3.Real("reward"), z3.Bool("terminated"), z3.Bool("truncated")
        env, calls = inner_env((gs, obs, reward, term, trunc, info))
        resets = []

        def reset(ex_, rng=None):
            resets.append(rng)
            return init_gs, init.f["obs"], init.f["info"]
        env.f["reset"] = reset
        env.f["params"] = cfg.get("params")
        w = Rec("AutoResetWrapper", dict(_env=env, fixed_init=cfg["fixed"]), module=RL)
        gin, a = mk_gs("in", {"init": init} if cfg["fixed"] else {}), z3.Const("action", Leaf)
        ret = ctx.call(self_obj=w, args=[gin, a])
        done = z3.Or(term, trunc)
        ctx.ensure("the wrapped environment is stepped exactly once with the given state and action", z3.BoolVal(len(calls) == 1 and calls[0][0] is gin) if calls else z3.BoolVal(False))
        ctx.ensure("C19 reward and done flags always describe the step just taken (the finished episode)", z3.And(toz(ret[2]) == reward, toz(ret[3]) == term, toz(ret[4]) == trunc))
        ng, nobs, ninfo = ret[0], ret[1], ret[5]
        if cfg["fixed"]:
            ctx.ensure("C19 not done: state, observation and info pass through unchanged", z3.Implies(z3.Not(done), z3.And(z3.BoolVal(True), toz(aw.same(ng, gs)), toz(aw.same(nobs, obs)), toz(aw.same(ninfo, info)))))
            ctx.ensure("C19 done: the stored initial state (with the current rng and aux), initial observation and initial info are returned",
                       z3.Implies(done, z3.And(toz(aw.same(nobs, init.f["obs"])), toz(aw.same(ninfo, init.f["info"])), toz(aw.same(ng.f["state"], init_gs.f["state"])), toz(aw.same(ng.f["step"], init_gs.f["step"])),
                                               toz(aw.same(ng.f["rng"], gs.f["rng"])), toz(aw.same(ng.f["aux"], gs.f["aux"])))))
            ctx.ensure("fixed_init never resets the wrapped environment", z3.BoolVal(not resets))
            return
        # freshly drawn initial state: the key comes from splitting the rng of one node; that node's rng is replaced by the other half (so the next episode draws a different one)
        name = "m" if cfg.get("params") else "n"
        Keys = ex.lib.KeysType
        rk = resets[0] if resets else None
        ctx.ensure("C19 fresh init: the wrapped environment is reset exactly once, with a key split off the rng of a node (one without preset params if there is one)", z3.BoolVal(len(resets) == 1))
        new_rng = ng.f["rng"] if isinstance(ng, Rec) else {}
        split_ok = rk is not None and new_rng.get(name) is not None and not z3.eq(toz(new_rng[name]), toz(gs.f["rng"][name])) and not z3.eq(toz(new_rng[name]), toz(rk))
        ctx.ensure("C19 fresh init, not done: state / observation / info pass through, except that the split node's rng has advanced (the other half of the split, never the reset key itself)",
                   z3.Implies(z3.Not(done), z3.And(z3.BoolVal(split_ok), toz(aw.same(ng.f["state"], gs.f["state"])), toz(aw.same(ng.f["step"], gs.f["step"])), toz(aw.same(ng.f["aux"], gs.f["aux"])),
                                                   *[toz(aw.same(ng.f["rng"][k], gs.f["rng"][k])) for k in gs.f["rng"] if k != name], toz(aw.same(nobs, obs)), toz(aw.same(ninfo, info)))) if isinstance(ng, Rec) else z3.BoolVal(False))
        ctx.ensure("C19 fresh init, done: the freshly drawn initial state (with the current aux), its observation and info are returned",
                   z3.Implies(done, z3.And(toz(aw.same(nobs, init.f["obs"])), toz(aw.same(ninfo, init.f["info"])), toz(aw.same(ng.f["state"], init_gs.f["state"])), toz(aw.same(ng.f["step"], init_gs.f["step"])),
                                           toz(aw.same(ng.f["rng"], init_gs.f["rng"])), toz(aw.same(ng.f["aux"], gs.f["aux"])))) if isinstance(ng, Rec) else z3.BoolVal(False))


class LogStep(Unit):
    name = "LogWrapper.step"
    target = RL + "::LogWrapper.step"
    props = ("C19",)

    def run(self, ctx):
        ex = ctx.ex
        S, N = z3.Real("sum_since_last_end"), z3.Int("steps_since_last_end")     # ghost: what the running counters must equal (inductive invariant)
        log = Rec("LogState", dict(episode_returns=S, episode_lengths=N, returned_episode_returns=z3.Real("ret_returns"), returned_episode_lengths=z3.Int("ret_lengths"), timestep=z3.Int("timestep")), module=RL, frozen=True)
        gs = mk_gs("gs", {"log": log})
        reward, term, trunc = z3.Real("reward"), z3.Bool("terminated"), z3.Bool("truncated")
        info = {"inner": z3.Const("inner_info", Leaf)}
        env, calls = inner_env((gs, z3.Const("obs", Leaf), reward, term, trunc, info))
        w = Rec("LogWrapper", dict(_env=env), module=RL)
        ret = ctx.call(self_obj=w, args=[mk_gs("in", {"log": log}), z3.Const("action", Leaf)])
        done = z3.Or(term, trunc)
        nl = ret[0].f["aux"]["log"]
        ctx.ensure("C19 at an episode end the wrapper reports exactly the sum of rewards and the number of steps since the previous end, and restarts both counters",
                   z3.Implies(done, z3.And(nl.f["returned_episode_returns"] == S + reward, nl.f["returned_episode_lengths"] == N + 1, nl.f["episode_returns"] == 0, nl.f["episode_lengths"] == 0)))
        ctx.ensure("C19 inside an episode the counters accumulate and the last reported values are kept",
                   z3.Implies(z3.Not(done), z3.And(nl.f["episode_returns"] == S + reward, nl.f["episode_lengths"] == N + 1, nl.f["returned_episode_returns"] == z3.Real("ret_returns"), nl.f["returned_episode_lengths"] == z3.Int("ret_lengths"))))
        i = ret[5]
        ctx.ensure("info carries the reported values, the timestep + 1 and the episode-end flag; inner info kept",
                   z3.And(nl.f["timestep"] == z3.Int("timestep") + 1, toz(i["returned_episode_returns"]) == nl.f["returned_episode_returns"], toz(i["returned_episode_lengths"]) == nl.f["returned_episode_lengths"],
                          toz(i["timestep"]) == nl.f["timestep"], toz(i["returned_episode"]) == done, toz(aw.same(i["inner"], info["inner"]))))
        ctx.ensure("reward / flags / observation pass through", z3.And(toz(ret[2]) == reward, toz(ret[3]) == term, toz(ret[4]) == trunc))


class Squash(Unit):
    name = "SquashState.scale/unsquash"
    target = RL + "::SquashState.unsquash"
    props = ("C19", "C20")

    def configs(self):
        yield "squash", dict(squash=True)
        yield "clip", dict(squash=False)

    def run(self, ctx):
        ex = ctx.ex
        low, high, x, a = z3.Reals("low high x a")
        ctx.require(low < high)
        st = Rec("SquashState", dict(low=low, high=high, squash=ctx.cfg["squash"]), module=RL, frozen=True)
        u = toz(ex.call(ex.getattr(st, "unsquash"), [x], {}))
        ctx.ensure("C19 squashed / clipped actions always land inside the action bounds, whatever the raw action", z3.And(low <= u, u <= high))
        if ctx.cfg["squash"]:
            ctx.ensure("unsquash(x) = low + (tanh(x) + 1)/2 * (high - low)", u == low + (smt.TANH(x) + 1) / 2 * (high - low))
            ctx.require(z3.And(low < a, a < high))
            s = toz(ex.call(ex.getattr(st, "scale"), [a], {}))
            ctx.ensure("C19 unsquash(scale(a)) = a strictly inside the bounds", toz(ex.call(ex.getattr(st, "unsquash"), [s], {})) == a)
            ctx.ensure("C19 scale(unsquash(x)) = x", toz(ex.call(ex.getattr(st, "scale"), [u], {})) == x)
        else:
            ctx.ensure("unsquash clips", u == z3.If(x < low, low, z3.If(x > high, high, x)))
            ctx.ensure("scale is the identity when not squashing", toz(ex.call(ex.getattr(st, "scale"), [a], {})) == a)


class ClipAction(Unit):
    name = "ClipActionWrapper.step"
    target = RL + "::ClipActionWrapper.step"
    props = ("C19",)

    def run(self, ctx):
        low, high, a = z3.Reals("low high a")
        ctx.require(low <= high)
        res = (z3.Const("gs2", Leaf),)
        env, calls = inner_env(res)
        env.f["action_space"] = lambda ex_, gs: Rec("Box", dict(low=low, high=high), module=None, frozen=True)
        w = Rec("ClipActionWrapper", dict(_env=env), module=RL)
        gs = z3.Const("gs", Leaf)
        ret = ctx.call(self_obj=w, args=[gs, a])
        ctx.ensure("C19 the wrapped environment receives the action clipped to the action space, once", z3.And(z3.BoolVal(len(calls) == 1), toz(calls[0][1]) == z3.If(a < low, low, z3.If(a > high, high, a)), toz(aw.same(calls[0][0], gs))) if calls else z3.BoolVal(False))
        ctx.ensure("the inner result is returned unchanged", z3.BoolVal(ret is res))


class SquashActionStep(Unit):
    """whatever the mode of the wrapper, the action that reaches the wrapped environment lies inside the action bounds: tanh-squashed when squashing,
    clipped when not - and it is derived from the scaling stored in the graph state"""
    name = "SquashActionWrapper.step"
    target = RL + "::SquashActionWrapper.step"
    props = ("C19",)

    def configs(self):
        yield "squash", dict(squash=True)
        yield "clip", dict(squash=False)

    def run(self, ctx):
        ex = ctx.ex
        low, high, a = z3.Reals("low high a")
        ctx.require(low < high)
        res = (z3.Const("gs2", Leaf),)
        env, calls = inner_env(res)
        st = Rec("SquashState", dict(low=low, high=high, squash=ctx.cfg["squash"]), module=RL, frozen=True)
        w = Rec("SquashActionWrapper", dict(_env=env, squash=ctx.cfg["squash"]), module=RL)
        gs = Rec("GraphState", dict(aux={"act_scaling": st}), module=BASE, frozen=True)
        ret = ctx.call(self_obj=w, args=[gs, a])
        ok = len(calls) == 1
        ctx.ensure("the wrapped environment is stepped exactly once, with the same graph state", z3.BoolVal(ok and calls[0][0] is gs))
        if ok:
            u = toz(calls[0][1])
            ctx.ensure("C19 the action that reaches the wrapped environment always lies inside the action bounds, whatever the raw action", z3.And(low <= u, u <= high))
            ctx.ensure("C19 ... and is the stored scaling's unsquash of the raw action (tanh-squash, or clip when squashing is off)",
                       u == (low + (smt.TANH(a) + 1) / 2 * (high - low) if ctx.cfg["squash"] else z3.If(a < low, low, z3.If(a > high, high, a))))
        ctx.ensure("the inner result is returned unchanged", z3.BoolVal(ret is res))


class RunningMoments(Unit):
    """Chan's parallel update as written in NormalizeVecObservationWrapper.step / NormalizeVecReward.step:
    if (mean, var, count) are the moments of a weighted collection A then the new values are the moments of A together with the batch"""
    props = ("C19",)

    def __init__(self, which):
        self.which = which
        self.name = f"{which}.step"
        self.target = f"{RL}::{which}.step"

    def run(self, ctx):
        ex = ctx.ex
        n = z3.Int("batch")
        ctx.require(n >= 1)
        bm, bv = z3.Real("batch_mean"), z3.Real("batch_var")
        jnp = ex.lib.ns["jax.numpy"]
        saved = {k: jnp.entries.get(k) for k in ("mean", "var")}
        jnp.entries["mean"] = lambda ex_, x, axis=0: bm
        jnp.entries["var"] = lambda ex_, x, axis=0: bv
        try:
            mean, var, count = z3.Reals("mean var count")
            ctx.require(z3.And(count > 0, var >= 0, bv >= 0))
            obs = Arr.fresh("obs", REAL, n)
            reward = Arr.fresh("reward", REAL, n)
            term, trunc = Arr.fresh("terminated", BOOL, n), Arr.fresh("truncated", BOOL, n)
            rv = Arr.fresh("return_val", REAL, n)
            key = "norm_obs" if self.which == "NormalizeVecObservationWrapper" else "norm_reward"
            ns = Rec("NormalizeVec", dict(mean=mean, var=var, count=count, return_val=rv if key == "norm_reward" else None, clip=z3.Real("clip")), module=RL, frozen=True)
            gs_in = mk_gs("in", {key: ns})
            gs_out = mk_gs("gs", {key: None})
            env, calls = inner_env((gs_out, obs, reward, term, trunc, {"k": z3.Const("info", Leaf)}))
            fields = dict(_env=env)
            gamma = z3.Real("gamma")
            if key == "norm_obs":
                fields["clip_obs"] = z3.Real("clip")
            else:
                fields.update(gamma=gamma, clip_reward=z3.Real("clip"))
            w = Rec(self.which, fields, module=RL)
            ret = ctx.call(self_obj=w, args=[gs_in, z3.Const("action", Leaf)])
        finally:
            jnp.entries.update({k: v for k, v in saved.items() if v is not None})
        new = ret[0].f["aux"][key]
        N = z3.ToReal(n)
        tot = count + N
        want_mean = (count * mean + N * bm) / tot
        want_second = (count * (var + mean * mean) + N * (bv + bm * bm)) / tot      # pooled second moment
        ctx.ensure("C19 count' = count + batch size", new.f["count"] == tot)
        ctx.ensure("C19 mean' = weighted mean of everything seen so far and the batch", new.f["mean"] == want_mean)
        ctx.ensure("C19 var' = pooled second moment - mean'^2 (variance of everything seen so far and the batch)", new.f["var"] == want_second - want_mean * want_mean,
                   hyps=lambda h: not smt._contains_quant(h))
        ctx.ensure("the wrapped environment is stepped once, with the normalisation state removed from aux", z3.BoolVal(len(calls) == 1 and calls[0][0].f["aux"][key] is None) if calls else z3.BoolVal(False))
        if key == "norm_reward":
            j = z3.Int("j!rw")
            nrv = new.f["return_val"]
            d = lambda t: z3.Or(z3.Select(term.a, t), z3.Select(trunc.a, t))
            ctx.ensure("C19 discounted return recursion: G' = G * gamma * (1 - done) + reward, per environment",
                       z3.And(z3.BoolVal(isinstance(nrv, Arr)), z3.ForAll([j], z3.Implies(z3.And(0 <= j, j < n), z3.Select(nrv.a, j) == z3.Select(rv.a, j) * gamma * z3.If(d(j), 0, 1) + z3.Select(reward.a, j)))) if isinstance(nrv, Arr) else z3.BoolVal(False))


def inner_reset_env(result, **extra):
    calls = []

    def reset(ex, rng=None):
        calls.append(rng)
        return result
    return Rec("Env", dict(reset=reset, params=None, **extra), module=None), calls


class EnvInitReset(Unit):
    """Environment.init / reset: the initial graph state is graph.init with the environment's settings (first partition run by graph.reset unless only_init), and reset hands back that state with the
    observation / info computed from its post-step update"""
    name = "Environment.init / reset"
    target = RL + "::Environment.reset"
    props = ("C19",)

    def configs(self):
        yield "only_init", dict(only_init=True)
        yield "first partition run", dict(only_init=False)

    def run(self, ctx):
        ex, cfg = ctx.ex, ctx.cfg
        U = lambda name, *sorts: z3.Function(name, *sorts)
        POST, INFO, OBS, GRESET = U("post_step", Leaf, Leaf), U("info", Leaf, Leaf), U("obs", Leaf, Leaf), U("graph_reset", Leaf, Leaf)
        inits, resets = [], []

        def g_init(ex_, rng=None, **kw):
            inits.append((rng, kw))
            return z3.Const("gs_init", Leaf)

        def g_reset(ex_, gs):
            resets.append(gs)
            return GRESET(gs), z3.Const("ss", Leaf)
        graph = Rec("Graph", dict(init=g_init, reset=g_reset), module=None)
        params, order = {"n": z3.Const("p", Leaf)}, ("a", "b")
        seen_action = []

        def post(ex_, gs, action="missing"):
            seen_action.append(action)
            return POST(gs)
        env = Rec("Environment", dict(graph=graph, params=params, only_init=cfg["only_init"], starting_eps=z3.Int("starting_eps"), randomize_eps=z3.Bool("randomize_eps"), order=order,
                                      update_graph_state_post_step=post, get_info=lambda ex_, gs, a=None: INFO(gs), get_observation=lambda ex_, gs: OBS(gs)), module=RL)
        rng = z3.Const("rng", Leaf)
        ret = ctx.call(self_obj=env, args=[rng])
        ok = isinstance(ret, tuple) and len(ret) == 3
        ctx.ensure("returns (graph state, observation, info)", z3.BoolVal(ok))
        if not ok:
            return
        kw = inits[0][1] if inits else {}
        ctx.ensure("C19 the graph is initialised exactly once, with the caller's rng and the environment's params / starting episode / randomisation / order",
                   z3.And(z3.BoolVal(len(inits) == 1 and inits[0][0] is rng and kw.get("params") is params and kw.get("order") is order),
                          toz(kw.get("starting_eps", -1)) == z3.Int("starting_eps"), toz(kw.get("randomize_eps", False)) == z3.Bool("randomize_eps")) if inits else z3.BoolVal(False))
        if cfg["only_init"]:
            ctx.ensure("only_init: starting step 1 and the first partition is NOT run", z3.BoolVal(kw.get("starting_step") == 1 and not resets))
            gs0 = z3.Const("gs_init", Leaf)
        else:
            ctx.ensure("otherwise: starting step 0 and the first partition is run once by graph.reset", z3.BoolVal(kw.get("starting_step") == 0 and len(resets) == 1))
            gs0 = GRESET(z3.Const("gs_init", Leaf))
        ctx.ensure("C19 reset returns that initial graph state; observation and info are those of its post-step update (called with action None)",
                   z3.And(toz(ret[0]) == gs0, toz(ret[1]) == OBS(POST(gs0)), toz(ret[2]) == INFO(POST(gs0)), z3.BoolVal(seen_action == [None])))


class WrapperResets(Unit):
    """base cases of the per-step invariants: what each wrapper's reset puts into aux (and that everything else of the inner reset passes through)"""
    props = ("C19",)

    def __init__(self, which):
        self.which = which
        self.name = f"{which}.reset"
        self.target = f"{RL}::{which}.reset"

    def configs(self):
        if self.which == "AutoResetWrapper":
            yield "fixed_init", dict(fixed=True)
            yield "fresh init each episode", dict(fixed=False)
        else:
            yield "default", dict()

    def run(self, ctx):
        ex, cfg = ctx.ex, ctx.cfg
        n = z3.Int("batch")
        ctx.require(n >= 1)
        gs = mk_gs("gs", {"other": z3.Const("other_aux", Leaf)})
        info = {"k": z3.Const("info", Leaf)}
        if self.which in ("NormalizeVecObservationWrapper", "NormalizeVecReward"):
            obs = Arr.fresh("obs", REAL, n)
        else:
            obs = z3.Const("obs", Leaf)
        low, high = z3.Real("low"), z3.Real("high")
        space = Rec("Box", dict(low=low, high=high), module=None, frozen=True)
        env, calls = inner_reset_env((gs, obs, info), action_space=lambda ex_, g: space)
        fields = dict(_env=env)
        if self.which == "AutoResetWrapper":
            fields["fixed_init"] = cfg["fixed"]
        if self.which == "SquashActionWrapper":
            fields["squash"] = z3.Bool("squash")
        if self.which == "NormalizeVecObservationWrapper":
            fields["clip_obs"] = z3.Real("clip")
        if self.which == "NormalizeVecReward":
            fields.update(gamma=z3.Real("gamma"), clip_reward=z3.Real("clip"))
        w = Rec(self.which, fields, module=RL)
        rng = z3.Const("rng", Leaf)
        bm, bv = z3.Real("batch_mean"), z3.Real("batch_var")
        ctx.require(bv >= 0)            # a (population) variance
        jnp = ex.lib.ns["jax.numpy"]
        saved = {k: jnp.entries.get(k) for k in ("mean", "var", "zeros_like", "ones_like")}
        jnp.entries["mean"] = lambda ex_, x, axis=0: bm
        jnp.entries["var"] = lambda ex_, x, axis=0: bv
        jnp.entries["zeros_like"] = lambda ex_, x: z3.RealVal(0)
        jnp.entries["ones_like"] = lambda ex_, x: z3.RealVal(1)
        try:
            ret = ctx.call(self_obj=w, args=[rng])
        finally:
            for k, v in saved.items():
                if v is not None:
                    jnp.entries[k] = v
                else:
                    jnp.entries.pop(k, None)
        ok = isinstance(ret, tuple) and len(ret) == 3 and isinstance(ret[0], Rec)
        ctx.ensure("returns (graph state, observation, info)", z3.BoolVal(ok))
        if not ok:
            return
        ctx.ensure("the wrapped environment is reset exactly once with the caller's rng", z3.BoolVal(len(calls) == 1 and calls[0] is rng))
        g = ret[0]
        ctx.ensure("everything of the inner state but aux passes through; other aux entries are kept; info passes through",
                   z3.And(*[toz(aw.same(g.f[k], gs.f[k])) for k in gs.f if k != "aux"], z3.BoolVal("other" in g.f["aux"] and g.f["aux"]["other"] is gs.f["aux"]["other"]), toz(aw.same(ret[2], info))))
        a = g.f["aux"]
        if self.which == "AutoResetWrapper":
            if cfg["fixed"]:
                i = a.get("init")
                okk = isinstance(i, Rec) and i.cls == "InitialState"
                ctx.ensure("C19 fixed_init: the initial state, observation and info of THIS reset are stored under aux['init'] (what the step after an episode end returns)",
                           z3.And(toz(aw.same(i.f["graph_state"], gs)), toz(aw.same(i.f["obs"], obs)), toz(aw.same(i.f["info"], info))) if okk else z3.BoolVal(False))
            else:
                ctx.ensure("C19 no fixed_init: nothing is stored, the inner state is returned as is", z3.BoolVal("init" not in a and set(a) == {"other"}))
            ctx.ensure("observation passes through", toz(aw.same(ret[1], obs)))
        elif self.which == "LogWrapper":
            l = a.get("log")
            okk = isinstance(l, Rec) and l.cls == "LogState"
            ctx.ensure("C19 the running sum / step counters and the last reported values start at zero (base case of the per-step accounting invariant)",
                       z3.And(*[toz(l.f[k]) == 0 for k in ("episode_returns", "episode_lengths", "returned_episode_returns", "returned_episode_lengths", "timestep")]) if okk else z3.BoolVal(False))
            ctx.ensure("observation passes through", toz(aw.same(ret[1], obs)))
        elif self.which == "SquashActionWrapper":
            sc = a.get("act_scaling")
            okk = isinstance(sc, Rec) and sc.cls == "SquashState"
            ctx.ensure("C19 the action scaling in aux carries the WRAPPED environment's action bounds and the wrapper's squash flag",
                       z3.And(toz(sc.f["low"]) == low, toz(sc.f["high"]) == high, toz(sc.f["squash"]) == z3.Bool("squash")) if okk else z3.BoolVal(False))
            ctx.ensure("observation passes through", toz(aw.same(ret[1], obs)))
        elif self.which == "NormalizeVecObservationWrapper":
            ns = a.get("norm_obs")
            okk = isinstance(ns, Rec) and ns.cls == "NormalizeVec"
            N = z3.ToReal(n)
            c0 = z3.RealVal("0.0001")
            tot = c0 + N
            want_mean = N * bm / tot
            want_second = (c0 * 1 + N * (bv + bm * bm)) / tot
            ctx.ensure("C19 after reset the statistics are those of the first batch merged with the documented prior (mean 0, var 1, weight 1e-4): count, mean, variance",
                       z3.And(toz(ns.f["count"]) == tot, toz(ns.f["mean"]) == want_mean, toz(ns.f["var"]) == want_second - want_mean * want_mean, toz(ns.f["clip"]) == z3.Real("clip")) if okk else z3.BoolVal(False),
                       hyps=lambda h: not smt._contains_quant(h))
        else:
            ns = a.get("norm_reward")
            okk = isinstance(ns, Rec) and ns.cls == "NormalizeVec"
            rv = ns.f["return_val"] if okk else None
            j = z3.Int("j!rr")
            ctx.ensure("C19 the return statistics start from the documented prior (mean 0, var 1, weight 1e-4) and one zero return accumulator per environment",
                       z3.And(toz(ns.f["count"]) == z3.RealVal("0.0001"), toz(ns.f["mean"]) == 0, toz(ns.f["var"]) == 1, toz(ns.f["clip"]) == z3.Real("clip"), z3.BoolVal(isinstance(rv, Arr)),
                              rv.n == n, z3.ForAll([j], z3.Implies(z3.And(0 <= j, j < n), z3.Select(rv.a, j) == 0))) if okk and isinstance(rv, Arr) else z3.BoolVal(False))
            ctx.ensure("observation passes through", toz(aw.same(ret[1], obs)))


RunningMoments.replay = lambda self, label, clause, probes, model: ({"kind": "pure", "which": "reward_norm", "probes": probes} if self.which == "NormalizeVecReward" else None)


UNITS = [EnvStep(), AutoReset(), LogStep(), Squash(), SquashActionStep(), ClipAction(), RunningMoments("NormalizeVecObservationWrapper"), RunningMoments("NormalizeVecReward"),
         EnvInitReset()] + [WrapperResets(w) for w in ("AutoResetWrapper", "LogWrapper", "SquashActionWrapper", "NormalizeVecObservationWrapper", "NormalizeVecReward")]
EXTRA = dict(assumptions=["tanh / arctanh axioms (range, monotone, mutual inverses); floats as reals",
                          "jnp.mean / jnp.var of a batch are its mean and (population) variance: the batch statistics are symbols in the moment-merge identity",
                          "the running statistics start from a pseudo-observation of weight 1e-4 (mean 0, var 1): 'everything seen so far' includes that prior (DESIGN 6/C19)",
                          "history statements (episode sums) follow from the proved per-step inductive invariant by induction over steps"])


def check(tier, seed):
    return check_property("C19", UNITS, tier, seed, extra=EXTRA)
