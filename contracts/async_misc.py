"""Contracts on _submit, _Synchronizer._async_step, AsyncGraph.run_supervisor and the reset functions (episode isolation)."""
import z3
from pyvc.driver import Unit
from pyvc.values import *
from pyvc import values as V
from pyvc.interp import RaiseEx, LoopSpec
from pyvc.libmodels import _EmptyDeque
from pyvc import smt
from . import aw
from .aw import World, ASYNC, CLOCK, Ev
from .async_node import mk_node_world, mk_step_state, NodeStepCounter, COMMON_SUMM
from .async_conn import mk_conn_world


class Submit(Unit):
    """_submit accepts a task iff the wrapper is in an accepting state (or stopping=True), and then hands exactly that
    function and those arguments to its own single-worker executor; otherwise nothing is scheduled"""
    props = ("C02", "C03", "C05x")

    def __init__(self, cls):
        self.cls = cls
        self.name = f"{cls}._submit"
        self.target = aw.AS + f"::{cls}._submit"

    def configs(self):
        for st in ASYNC:
            for stopping in (False, True):
                yield f"{st},stopping={int(stopping)}", dict(state=st, stopping=stopping)

    def run(self, ctx):
        ex, cfg = ctx.ex, ctx.cfg
        if self.cls == "_AsyncNodeWrapper":
            w, obj, ins, outs = mk_node_world(ctx, dict(fanin=(), state=cfg["state"]))
            accepting = ("READY", "STARTING", "READY_TO_START", "RUNNING")
        else:
            w, obj, src, dst = mk_conn_world(ctx, dict(state=cfg["state"]))
            accepting = ("READY", "RUNNING")
        submitted = []
        obj.f["_executor"] = Rec("Executor", dict(submit=lambda ex_, fn, *a, **k: (submitted.append((fn, a, k)), Rec("Future", dict(_result=None, _done=False, _cancelled=False)))[1]))
        obj.f["_lock"] = Opaque("RLock")
        obj.f["_q_task"] = []
        obj.f["_done_callback"] = Opaque("cb")
        fn = Closure(ctx.repo.find(aw.AS + "::update_input_state")[1], [], ctx.repo.module(aw.AS))
        a1, a2 = z3.Real("arg1"), z3.Const("arg2", Leaf)
        pre = ctx.snapshot(obj)
        ret = ctx.call(self_obj=obj, args=[fn, a1, a2], kwargs=dict(stopping=True) if cfg["stopping"] else {})
        aw.frame_check(ctx, aw.reachable(pre), aw.reachable(obj), [(obj, "_q_task")])
        want = cfg["state"] in accepting or cfg["stopping"]
        ctx.ensure("task accepted iff the state accepts tasks or stopping=True", z3.BoolVal((len(submitted) == 1) == want and len(submitted) <= 1))
        if submitted:
            f, a, k = submitted[0]
            ctx.ensure("exactly the given function and arguments reach the executor", z3.And(z3.BoolVal(f is fn and len(a) == 2 and not k), aw.same(a[0], a1), aw.same(a[1], a2)))
        else:
            ctx.ensure("rejected task: a cancelled future is returned", z3.BoolVal(isinstance(ret, Rec) and ret.cls == "Future" and ret.f["_cancelled"] is True))


class SynchronizerStep(Unit):
    """the supervisor's _async_step (run on the supervisor's thread) never runs the user's step: it publishes the observation and
    returns what the user thread supplies, or (None, skipped) after a cancel"""
    name = "_Synchronizer._async_step"
    target = aw.AS + "::_Synchronizer._async_step"
    props = ("C06",)

    def configs(self):
        for mr in (False, True):
            for cancelled in (False, True):
                yield f"must_reset={int(mr)},cancelled={int(cancelled)}", dict(mr=mr, cancelled=cancelled)

    def run(self, ctx):
        ex, cfg = ctx.ex, ctx.cfg
        w, n, ins, outs = mk_node_world(ctx, dict(fanin=()))
        ctr = NodeStepCounter(); ctr.returns_state = True
        n.f["node"].f["step"] = ctr.step
        n.f["async_step"] = lambda ex_, ss_: ctr.step(ex_, ss_)
        f_obs = Rec("Future", dict(_result=None, _done=False, _cancelled=False))
        skipped = Rec("_SkippedSteps", dict(_skipped_steps=z3.Int("skipped0")), module=aw.AS)
        sync = Rec("_Synchronizer", dict(_supervisor=n, _must_reset=cfg["mr"], _f_act=None, _f_obs=f_obs, _q_act=[], _q_obs=[f_obs], _skipped=skipped), module=aw.AS)
        ss = mk_step_state(ctx, "ss", [])
        act = (mk_step_state(ctx, "act", []), z3.Const("action", Leaf))
        # the user thread's side of the handshake: it either sets the action or cancels the pending future
        orig_new = ex.lib.ns["concurrent.futures"].entries["Future"]

        def future_new(ex_):
            f = Rec("Future", dict(_result=act, _done=True, _cancelled=cfg["cancelled"]))
            return f
        ex.lib.ns["concurrent.futures"].entries["Future"] = CallableTag("Future", future_new)
        try:
            ret = ctx.call(self_obj=sync, args=[ss])
        finally:
            ex.lib.ns["concurrent.futures"].entries["Future"] = orig_new
        ctx.ensure("C06 the user's step function is executed zero times by the synchronizer", z3.BoolVal(len(ctr.calls) == 0))
        ctx.ensure("the observation future is resolved with the step state it was given", z3.BoolVal(f_obs.f["_done"] and f_obs.f["_result"] is ss))
        ctx.ensure("a fresh observation future is queued", z3.BoolVal(len(sync.f["_q_obs"]) == 2 and sync.f["_f_obs"] is sync.f["_q_obs"][-1]))
        if not cfg["mr"] and not cfg["cancelled"]:
            ctx.ensure("returns exactly the (state, output) supplied by the user thread", z3.BoolVal(isinstance(ret, tuple) and ret[0] is act[0]) if isinstance(ret, tuple) else z3.BoolVal(False))
            ctx.ensure("action future consumed", z3.BoolVal(len(sync.f["_q_act"]) == 0))
        else:
            ctx.ensure("after a cancel / pending reset: returns (None, skipped) and counts one skipped step",
                       z3.And(z3.BoolVal(isinstance(ret, tuple) and ret[0] is None and ret[1] is skipped), skipped.f["_skipped_steps"] == z3.Int("skipped0") + 1, z3.BoolVal(sync.f["_must_reset"] is True)))


class AsyncRunSupervisor(Unit):
    name = "AsyncGraph.run_supervisor"
    target = aw.AS + "::AsyncGraph.run_supervisor"
    props = ("C06", "C13")

    def configs(self):
        for initial in (True, False):
            for override in (True, False):
                yield f"initial={int(initial)},override={int(override)}", dict(initial=initial, override=override)

    def run(self, ctx):
        ex, cfg = ctx.ex, ctx.cfg
        w, n, ins, outs = mk_node_world(ctx, dict(fanin=()))
        ctr = NodeStepCounter(); ctr.returns_state = True
        n.f["node"].f["step"] = ctr.step
        f_act = Rec("Future", dict(_result=None, _done=False, _cancelled=False))
        sync = Rec("_Synchronizer", dict(_q_act=[f_act], action=[f_act]), module=None)
        ss = mk_step_state(ctx, "ss", [])
        n.f["_step_state"] = ss
        gs = Rec("GraphState", dict(step=z3.Int("gs.step"), eps=z3.Int("gs.eps"), rng={"n": ss.f["rng"]}, seq={"n": ss.f["seq"]}, ts={"n": ss.f["ts"]}, params={"n": ss.f["params"]},
                                    state={"n": ss.f["state"]}, inputs={"n": ss.f["inputs"]}, timings_eps=None, buffer=None, aux={}), module="rex/base.py", frozen=True)
        g = Rec("AsyncGraph", dict(_initial_step=cfg["initial"], supervisor=n.f["node"], _async_nodes={"n": n}, _synchronizer=sync), module=aw.AS)
        over_ss = mk_step_state(ctx, "over", [])
        over_out = z3.Const("over_out", Leaf)
        args = [gs] + ([over_ss, over_out] if cfg["override"] else [])
        ret = ctx.call(self_obj=g, args=args)
        if cfg["initial"]:
            ctx.ensure("C06 run_supervisor before the first observation: step executed zero times, state returned unchanged", z3.BoolVal(len(ctr.calls) == 0 and ret is gs and not f_act.f["_done"]))
            return
        ctx.ensure("C06 supervisor step executed exactly once iff not overridden, zero times if (step_state, output) supplied", z3.BoolVal(len(ctr.calls) == (0 if cfg["override"] else 1)))
        res = f_act.f["_result"]
        ctx.ensure("the pending action future is resolved once", z3.BoolVal(f_act.f["_done"] and isinstance(res, tuple)))
        if isinstance(res, tuple):
            st, out = res
            if cfg["override"]:
                ctx.ensure("override: the supplied state (seq + 1) and output are what the graph continues with",
                           z3.And(st.f["seq"] == over_ss.f["seq"] + 1, st.f["state"] == over_ss.f["state"], st.f["rng"] == over_ss.f["rng"], aw.same(out, over_out)))
            else:
                ctx.ensure("own step: executed on the supervisor's current step state; its result (seq + 1) continues",
                           z3.And(z3.BoolVal(len(ctr.calls) == 1), aw.same(ctr.calls[0].f["state"], ss.f["state"]) if ctr.calls else z3.BoolVal(False), aw.same(ctr.calls[0].f["seq"], ss.f["seq"]) if ctr.calls else z3.BoolVal(False),
                                  st.f["seq"] == z3.Int("s_seq1") + 1, st.f["state"] == z3.Const("s_state1", Leaf), aw.same(out, z3.Const("s_out1", Leaf))))
            ctx.ensure("C13 the returned graph state carries the supervisor's new state", aw.same(ret.f["state"]["n"], st.f["state"]) if isinstance(ret, Rec) else z3.BoolVal(False))


class ConnReset(Unit):
    """episode isolation: reset empties every queue and zeroes the counters"""
    name = "_AsyncConnectionWrapper.reset"
    target = aw.AS + "::_AsyncConnectionWrapper.reset"
    props = ("C03", "C02")

    def run(self, ctx):
        ex = ctx.ex
        w, c, src, dst = mk_conn_world(ctx, dict(state="STOPPED"))
        c.f["_jit_reset"] = lambda ex_, rng: z3.Const("fresh_dist_state", Leaf)
        c.f["_input_state"] = None
        c.f["_record"] = Opaque("old record")
        ist = Opaque("input_state")
        ctx.call(self_obj=c, args=[z3.Const("rng", Leaf), ist])
        qs = ["q_msgs", "q_ts_input", "q_zip_delay", "q_zip_msgs", "q_ts_max", "q_expected_select", "q_expected_ts_max", "q_grouped", "q_ts_next_step", "q_sample"]
        empty = lambda q: z3.BoolVal(len(q.items) == 0) if isinstance(q, _EmptyDeque) else (toz(q.length()) == 0 if hasattr(q, "length") else z3.BoolVal(isinstance(q, (list, tuple)) and len(q) == 0))
        ctx.ensure("C03/C05 new episode: every queue is empty (a new deque or the old one cleared) and no two queues share an object",
                   z3.And(z3.BoolVal(len({id(c.f[q]) for q in qs}) == len(qs)), *[empty(c.f[q]) for q in qs]), hyps=lambda h: not smt._contains_quant(h))
        ctx.ensure("C03/C05 new episode: grouping tick 0, FIFO register 0, no record, state READY",
                   z3.And(toz(c.f["_tick"]) == 0, toz(c.f["_prev_recv_sc"]) == 0, z3.BoolVal(c.f["_record"] is None and c.f["_record_messages"] is None and c.f["_state"] == ASYNC["READY"]),
                          aw.same(c.f["_dist_state"], z3.Const("fresh_dist_state", Leaf)),
                          toz(c.f["_phase"]) == c.f["connection"].f["output_node"].f["phase"] + c.f["connection"].f["output_node"].f["delay"] + c.f["connection"].f["delay"]))


UNITS = [Submit("_AsyncNodeWrapper"), Submit("_AsyncConnectionWrapper"), SynchronizerStep(), AsyncRunSupervisor(), ConnReset()]


class NodeReset(Unit):
    """episode isolation on the node side: _reset bumps the episode counter once, zeroes tick and drift, installs fresh empty queues,
    resets every input exactly once and takes the step state of the given graph state"""
    name = "_AsyncNodeWrapper._reset"
    target = aw.AS + "::_AsyncNodeWrapper._reset"
    props = ("C03", "C02", "C04")

    def configs(self):
        for state in ("STOPPED", "READY"):
            for k in (0, 2):
                yield f"{state},fanin={k}", dict(state=state, fanin=(False, True)[:k])

    def run(self, ctx):
        ex, cfg = ctx.ex, ctx.cfg
        w, n, ins, outs = mk_node_world(ctx, dict(fanin=cfg["fanin"], state=cfg["state"]))
        n.f["_has_warmed_up"] = True
        n.f["_jit_reset"] = lambda ex_, rng: z3.Function("dist_reset", Leaf, Leaf)(rng)
        n.f["node"].f["delay_dist"] = Rec("StaticDist", dict(mean=lambda ex_: z3.Real("mean_delay")), module=None)
        n.f["node"].f["phase_output"] = z3.Real("n.node_phase_output")
        n.f["_record"] = Opaque("old record"); n.f["_record_steps"] = Opaque("old steps"); n.f["_phase_output"] = None
        resets = []
        for i in ins:
            i.f["reset"] = (lambda ii: (lambda ex_, rng, ist: resets.append((ii, rng, ist))))(i)
        names = [i.f["connection"].f["input_name"] for i in ins]
        ss = mk_step_state(ctx, "ss", names)
        gs = Rec("GraphState", dict(step=z3.Int("gs.step"), eps=z3.Int("gs.eps"), rng={"n": ss.f["rng"]}, seq={"n": ss.f["seq"]}, ts={"n": ss.f["ts"]}, params={"n": ss.f["params"]},
                                    state={"n": ss.f["state"]}, inputs={"n": ss.f["inputs"]}, timings_eps=None, buffer=None, aux={}), module="rex/base.py", frozen=True)
        eps0 = n.f["_eps"]
        ex.lib.ns["concurrent.futures"].entries["Future"]    # (present)
        ctx.call(self_obj=n, args=[gs, CLOCK["SIMULATED"], z3.Real("rtf")])
        qs = ["q_tick", "q_ts_scheduled", "q_ts_end_prev", "q_ts_start", "q_rng_step", "q_sample"]
        empty = lambda q: z3.BoolVal(len(q.items) == 0) if isinstance(q, _EmptyDeque) else (toz(q.length()) == 0 if hasattr(q, "length") else z3.BoolVal(isinstance(q, (list, tuple)) and len(q) == 0))
        ctx.ensure("C03/C05 new episode: every queue of the node is empty (new or cleared), no two share an object", z3.And(z3.BoolVal(len({id(n.f[q]) for q in qs}) == len(qs)), *[empty(n.f[q]) for q in qs]))
        ctx.ensure("C03/C05 new episode: episode counter + 1, tick 0, drift 0, phase taken from the node, no record, state READY",
                   z3.And(toz(n.f["_eps"]) == eps0 + 1, toz(n.f["_tick"]) == 0, toz(n.f["_phase_scheduled"]) == 0, toz(n.f["_phase"]) == n.f["node"].f["phase"], toz(n.f["_discarded"]) == 0,
                          z3.BoolVal(n.f["_record"] is None and n.f["_record_steps"] is None and n.f["_state"] == ASYNC["READY"] and n.f["_clock"] is CLOCK["SIMULATED"])))
        ctx.ensure("C01/C02 the step state of the given graph state is installed and the delay sampler is seeded from its rng (reproducible between runtimes)",
                   z3.And(toz(aw.same(n.f["_step_state"].f["rng"], ss.f["rng"])), toz(aw.same(n.f["_step_state"].f["state"], ss.f["state"])), toz(n.f["_dist_state"]) == z3.Function("dist_reset", Leaf, Leaf)(ss.f["rng"])))
        ctx.ensure("every input is reset exactly once, each with its own key split from the step rng and its own input state",
                   z3.BoolVal(len(resets) == len(ins) and [r[0].oid for r in resets] == [i.oid for i in ins] and all(r[2] is ss.f["inputs"][nm] for r, nm in zip(resets, names))
                              and len({str(r[1]) for r in resets}) == len(resets)))


class AsyncApi(Unit):
    """the driving API of the threaded runtime: run = run_supervisor . run_until_supervisor (start first if needed), step = run_until_supervisor . run_supervisor,
    reset = run_until_supervisor after (re)start: the same two building blocks whichever way the user drives the graph"""
    props = ("C02", "C09x")

    def __init__(self, which):
        self.which = which
        self.name = f"AsyncGraph.{which}"
        self.target = aw.AS + f"::AsyncGraph.{which}"

    def configs(self):
        if self.which == "run":
            yield "initial", dict(initial=True)
            yield "running", dict(initial=False)
        else:
            yield "default", dict(initial=False)

    def run(self, ctx):
        ex, cfg = ctx.ex, ctx.cfg
        START, RUS_, RS_ = z3.Function("a_start", Leaf, Leaf), z3.Function("a_run_until_supervisor", Leaf, Leaf), z3.Function("a_run_supervisor", Leaf, Leaf, Leaf, Leaf)
        SSOF = z3.Function("a_step_state_of", Leaf, Leaf)
        NONE = z3.Const("None!leaf", Leaf)
        calls = []

        class SS:
            def __init__(self, gs):
                self.gs = gs

            def pyvc_getitem(self, ex_, i):
                return SSOF(self.gs)
        ex.opts["leaf_attr"] = lambda ex_, o, attr: SS(o) if attr == "step_state" else None
        sup = Rec("BaseNode", dict(name="sup"), module=None)
        g = Rec("AsyncGraph", dict(_initial_step=cfg["initial"], supervisor=sup,
                                   start=lambda ex_, gs, timeout=None: (calls.append("start"), START(gs))[1],
                                   run_until_supervisor=lambda ex_, gs: (calls.append("rus"), RUS_(gs))[1],
                                   run_supervisor=lambda ex_, gs, ss=None, out=None: (calls.append("rs"), RS_(gs, ss if ss is not None else NONE, out if out is not None else NONE))[1]), module=aw.AS)
        gs = z3.Const("gs", Leaf)
        if self.which == "run":
            ret = ctx.call(self_obj=g, args=[gs])
            base = START(gs) if cfg["initial"] else gs
            ctx.ensure("C02 run = (start if not started yet); run_until_supervisor; run_supervisor with the supervisor's own step", z3.And(toz(ret) == RS_(RUS_(base), NONE, NONE), z3.BoolVal(calls == (["start"] if cfg["initial"] else []) + ["rus", "rs"])))
        elif self.which == "reset":
            ret = ctx.call(self_obj=g, args=[gs])
            ctx.ensure("C02 reset = start; run_until_supervisor, returning the supervisor's pending step state", z3.And(toz(ret[0]) == RUS_(START(gs)), toz(ret[1]) == SSOF(RUS_(START(gs))), z3.BoolVal(calls == ["start", "rus"])))
        else:
            ss, out = z3.Const("given_ss", Leaf), z3.Const("given_out", Leaf)
            ret = ctx.call(self_obj=g, args=[gs, ss, out])
            ctx.ensure("C02 step = run_supervisor(given state / output); run_until_supervisor", z3.And(toz(ret[0]) == RUS_(RS_(gs, ss, out)), toz(ret[1]) == SSOF(RUS_(RS_(gs, ss, out))), z3.BoolVal(calls == ["rs", "rus"])))


UNITS += [NodeReset(), AsyncApi("run"), AsyncApi("step"), AsyncApi("reset")]


class NodeStart(Unit):
    """the episode starts with 'previous step ended at time 0' (so that step 0 starts at max(schedule, 0, blocking arrivals)), every input started exactly once,
    an empty step record, and the first push_scheduled_ts queued on the node's own executor"""
    name = "_AsyncNodeWrapper._start"
    target = aw.AS + "::_AsyncNodeWrapper._start"
    props = ("C04", "C03")

    def configs(self):
        for k in (0, 2):
            yield f"fanin={k}", dict(fanin=(True, False)[:k])

    def summaries(self, cfg):
        return dict(COMMON_SUMM)

    def run(self, ctx):
        ex, cfg = ctx.ex, ctx.cfg
        w, n, ins, outs = mk_node_world(ctx, dict(fanin=cfg["fanin"], state="READY_TO_START"))
        n.f["_has_warmed_up"] = True
        n.f["q_ts_end_prev"] = _EmptyDeque()
        n.f["q_tick"] = _EmptyDeque()
        n.f["record_setting"] = dict(params=True, rng=True, inputs=True, state=True, output=True)
        n.f["_step_state"] = Rec("StepState", dict(params=z3.Const("params", Leaf)), module="rex/base.py", frozen=True)
        n.f["_set_ts_start"] = lambda ex_, t: None
        n.f["node"].f["info"] = z3.Const("node.info", Leaf)
        started = []
        for i in ins:
            i.f["start"] = (lambda ii: (lambda ex_: started.append(ii.oid)))(i)
        ctx.call(self_obj=n, args=[z3.Real("wall_start")])
        q = n.f["q_ts_end_prev"]
        items = q.items_list() if hasattr(q, "items_list") else (list(q) if isinstance(q, (list, tuple)) else None)
        ctx.ensure("C04 the episode starts as if the previous step had ended at time 0: exactly one entry, 0.0, in q_ts_end_prev (step 0 then starts at the latest of its schedule, "
                   "0 and its blocking arrivals - not at the node's phase when the schedule does not apply)",
                   z3.And(z3.BoolVal(items is not None and len(items) == 1), toz(items[0]) == 0) if items else z3.BoolVal(False))
        ctx.ensure("every input is started exactly once; the step record starts empty; the node is RUNNING",
                   z3.BoolVal(started == [i.oid for i in ins] and n.f["_record_steps"] == [] and n.f["_state"] == ASYNC["RUNNING"]))
        subs = [e for e in ex.ev if e.kind == "submit"]
        ctx.ensure("the first scheduling task is queued on the node's own executor", z3.BoolVal(len(subs) == 1 and subs[0].fn == "push_scheduled_ts" and subs[0].target.oid == n.oid))



class AsyncRunUntilSupervisor(Unit):
    """AsyncGraph.run_until_supervisor: blocks on the OLDEST pending observation, and the graph state it returns is every node's current step state with the supervisor's
    replaced by that observation (episode taken from it)"""
    name = "AsyncGraph.run_until_supervisor"
    target = aw.AS + "::AsyncGraph.run_until_supervisor"
    props = ("C02", "C09x", "C06")

    def run(self, ctx):
        ex = ctx.ex
        obs1, obs2 = mk_step_state(ctx, "obs1", []), mk_step_state(ctx, "obs2", [])
        f1 = Rec("Future", dict(_result=obs1, _done=True, _cancelled=False))
        f2 = Rec("Future", dict(_result=obs2, _done=True, _cancelled=False))
        pending = [f1, f2]
        sync = Rec("_Synchronizer", dict(observation=pending), module=None)
        ssa, sss = mk_step_state(ctx, "a", []), mk_step_state(ctx, "sup_old", [])
        na = Rec("_AsyncNodeWrapper", dict(_step_state=ssa), module=None)
        nsup = Rec("_AsyncNodeWrapper", dict(_step_state=sss), module=None)
        g = Rec("AsyncGraph", dict(_initial_step=True, supervisor=Rec("BaseNode", dict(name="sup"), module=None), _async_nodes={"a": na, "sup": nsup}, _synchronizer=sync), module=aw.AS)
        gs_in = z3.Const("gs_in", Leaf)
        ret = ctx.call(self_obj=g, args=[gs_in])
        ok = isinstance(ret, Rec) and ret.cls == "GraphState"
        ctx.ensure("returns a graph state", z3.BoolVal(ok))
        ctx.ensure("C02 exactly the oldest pending observation is consumed (the next one stays queued, in order)", z3.BoolVal(len(pending) == 1 and pending[0] is f2))
        ctx.ensure("the graph is past its initial step afterwards", z3.BoolVal(g.f["_initial_step"] is False))
        if not ok:
            return
        ctx.ensure("C06/C09 the supervisor's part of the returned state is that observation (rng, state, params, inputs, seq, ts), the episode is the observation's",
                   z3.And(*[toz(aw.same(ret.f[k]["sup"], obs1.f[k])) for k in ("rng", "state", "params", "inputs", "seq", "ts")], toz(ret.f["eps"]) == obs1.f["eps"]))
        ctx.ensure("every other node contributes its own current step state", z3.And(*[toz(aw.same(ret.f[k]["a"], ssa.f[k])) for k in ("rng", "state", "params", "inputs", "seq", "ts")], z3.BoolVal(set(ret.f["seq"]) == {"a", "sup"})))


UNITS += [NodeStart(), AsyncRunUntilSupervisor()]
