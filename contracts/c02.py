"""C02 — simulated-clock episodes are deterministic across thread schedules and speed."""
from pyvc.driver import check_property
from . import async_node, async_conn, async_misc, async_stab

UNITS = [u for u in async_node.UNITS + async_conn.UNITS + async_misc.UNITS + async_stab.UNITS if "C02" in u.props]
EXTRA = dict(
    assumptions=["(D) determinism and (S) stability of every firing rule plus (Q) single-consumer FIFO queues imply schedule independence (Kahn-network argument): ASSUMED meta-theorem, not mechanised",
                 "single-worker executors serialise the tasks of one wrapper; deque.append/popleft/len are atomic under the GIL",
                 "what happens after stop() flips the states is excluded (the property only demands agreement on the common prefix)"],
    explanation="Every handler's postcondition pins each value it writes (queues, records, events) to a function of the popped heads, private fields and the "
                "delay sampler (uninterpreted function of the distribution state); time.time()/now() are havoc, throttle has an empty frame, so a wall-clock or "
                "real-time-factor value reaching simulated data falsifies a clause. Stability is proved relationally on the real handlers (two runs, q vs q++[x]).")


def check(tier, seed):
    from pyvc import bounded
    lines, ev, err = bounded.async_episodes("C02", tier, seed)
    extra = dict(EXTRA)
    extra["bounded"] = list(extra.get("bounded", [])) + [ev]
    for l in ev.get("known_finding_lines", []):
        print(l)
    code = check_property("C02", UNITS, tier, seed, extra=extra)
    return bounded.finish_with_bounded("C02", code, lines, err)
