"""C18 — search solvers keep the best candidate, respect bounds and ignore NaN losses (rex/cem.py, rex/evo.py)."""
import z3
from pyvc.driver import Unit, check_property
from pyvc.values import *
from pyvc.interp import RaiseEx
from pyvc import libmodels
from . import aw

CEM = "rex/cem.py"
INF = z3.Real("INF")              # +infinity as a sentinel above every finite loss
MEAN = z3.Function("mean_axis0", z3.ArraySort(INT, REAL), INT, REAL)
STD = z3.Function("std_axis0", z3.ArraySort(INT, REAL), INT, REAL)


class Losses:
    """losses in R u {NaN}: value array + NaN mask (tagged encoding)"""

    def __init__(self, n):
        self.val = Arr.fresh("loss", REAL, n)
        self.nan = Arr.fresh("loss_is_nan", BOOL, n)


def cem_models(ex, L):
    def isnan(ex_, x):
        if isinstance(x, Arr) and x.a.eq(L.val.a):
            return L.nan
        raise Unsupported("isnan of an unknown array")

    def where(ex_, c, a, b):
        # jnp.where(isnan(losses), inf, losses): NaN -> +inf
        if a is libmodels._INF and isinstance(c, Arr) and isinstance(b, Arr):
            j = z3.Int("j!ew")
            return Arr(z3.Lambda([j], z3.If(z3.Select(c.a, j), INF, z3.Select(b.a, j))), b.n)
        return orig_where(ex_, c, a, b)

    def argsort(ex_, x):
        ex_.assumptions_used.add("jnp.argsort(x) returns a permutation of the indices that sorts x ascending")
        n = x.n
        pi = Arr(ex_.fresh("argsort", z3.ArraySort(INT, INT)), n)
        i, j = z3.Ints("i!as j!as")
        ex_.assume(z3.ForAll([i], z3.Implies(z3.And(0 <= i, i < n), z3.And(0 <= z3.Select(pi.a, i), z3.Select(pi.a, i) < n))))
        ex_.assume(z3.ForAll([i, j], z3.Implies(z3.And(0 <= i, i < j, j < n), z3.Select(pi.a, i) != z3.Select(pi.a, j))))
        ex_.assume(z3.ForAll([i, j], z3.Implies(z3.And(0 <= i, i <= j, j < n), z3.Select(x.a, z3.Select(pi.a, i)) <= z3.Select(x.a, z3.Select(pi.a, j)))))
        # surjectivity (a permutation hits every index) - needed for "the minimum over ALL candidates"
        w = z3.Function(f"argsort_inv!{next(ex_.fresh_n)}", INT, INT)
        ex_.assume(z3.ForAll([j], z3.Implies(z3.And(0 <= j, j < n), z3.And(0 <= w(j), w(j) < n, z3.Select(pi.a, w(j)) == j)),
                             patterns=[z3.Select(L.val.a, j), z3.Select(L.nan.a, j), w(j)]))
        return pi

    def argmin(ex_, x, axis=None):
        """index of the first minimal entry; NaN propagates: on an array that contains NaN, numpy/jax argmin returns the first NaN index"""
        ex_.assumptions_used.add("jnp.argmin(x): first index of a minimal entry; if x contains NaN the first NaN index (IEEE NaN propagation)")
        n = x.n
        r = ex_.fresh("argmin", INT)
        i = z3.Int("i!am")
        ex_.assume(z3.And(0 <= r, r < n))
        if x.a.eq(L.val.a):
            anynan = z3.Exists([i], z3.And(0 <= i, i < n, z3.Select(L.nan.a, i)))
            ex_.assume(z3.Implies(anynan, z3.And(z3.Select(L.nan.a, r), z3.ForAll([i], z3.Implies(z3.And(0 <= i, i < r), z3.Not(z3.Select(L.nan.a, i)))))))
            ex_.assume(z3.Implies(z3.Not(anynan), z3.ForAll([i], z3.Implies(z3.And(0 <= i, i < n), z3.Select(x.a, r) <= z3.Select(x.a, i)))))
        else:
            ex_.assume(z3.ForAll([i], z3.Implies(z3.And(0 <= i, i < n), z3.Select(x.a, r) <= z3.Select(x.a, i))))
        return r

    def mean(ex_, x, axis=0):
        ex_.assumptions_used.add("jnp.mean / jnp.std over axis 0 are functions of the array (uninterpreted)")
        return MEAN(x.a, x.n)

    def std(ex_, x, axis=0):
        return STD(x.a, x.n)

    def nan_extreme(kind):
        def f(ex_, x, axis=None):
            """nanmax / nanmin: the extreme over the non-NaN entries (a finite value whenever one exists)"""
            ex_.assumptions_used.add("jnp.nanmax / nanmin(x): maximum / minimum over the entries that are not NaN")
            if not (isinstance(x, Arr) and x.a.eq(L.val.a)):
                raise Unsupported("nanmax of an unknown array")
            n = x.n
            m = ex_.fresh(kind, REAL)
            i = z3.Int("i!nm")
            fin = lambda t: z3.And(0 <= t, t < n, z3.Not(z3.Select(L.nan.a, t)))
            cmp = (lambda a, b: a >= b) if kind == "nanmax" else (lambda a, b: a <= b)
            ex_.assume(z3.ForAll([i], z3.Implies(fin(i), cmp(m, z3.Select(x.a, i)))))
            w = ex_.fresh(kind + "_at", INT)
            ex_.assume(z3.Implies(z3.Exists([i], fin(i)), z3.And(fin(w), m == z3.Select(x.a, w))))
            return m
        return f

    jnp = ex.lib.ns["jax.numpy"]
    orig_where = jnp.entries["where"]
    saved = {k: jnp.entries.get(k) for k in ("where", "argsort", "mean", "std", "argmin", "nanmax", "nanmin")}
    jnp.entries.update(where=where, argsort=argsort, mean=mean, std=std, argmin=argmin, nanmax=nan_extreme("nanmax"), nanmin=nan_extreme("nanmin"))
    ex.opts["isnan"] = isnan
    return saved


class CemUpdate(Unit):
    name = "cem_update_mean_stdev"
    target = CEM + "::cem_update_mean_stdev"
    props = ("C18",)

    def opts(self, cfg):
        return {}

    def run(self, ctx):
        ex = ctx.ex
        n = z3.Int("num_samples")
        ctx.require(n >= 1)
        L = Losses(n)
        j = z3.Int("j!c")
        ctx.require(z3.ForAll([j], z3.Implies(z3.And(0 <= j, j < n, z3.Not(z3.Select(L.nan.a, j))), z3.Select(L.val.a, j) < INF)))   # finite losses are below +inf
        saved = cem_models(ex, L)
        try:
            solver = Rec("CEMSolver", dict(evolution_smoothing=z3.Real("smoothing"), num_samples=n, elite_portion=z3.Real("elite_portion")), module=CEM, frozen=True)
            old_loss = z3.Real("bestsofar_loss")
            state = Rec("CEMState", dict(mean={"p": z3.Real("mean.p")}, stdev={"p": z3.Real("stdev.p")}, bestsofar={"p": z3.Real("best.p")}, bestsofar_loss=old_loss), module=CEM, frozen=True)
            samples = {"p": Arr.fresh("samples.p", REAL, n)}
            # eqx.replace on the dataclass: same as dataclass replace
            ex.lib.ns["equinox"].entries["replace"] = lambda ex_, o, **kw: ex_.lib.dc_replace(ex_, o, kw, None)
            E = z3.ToInt(z3.ToReal(n) * solver.f["elite_portion"])
            ctx.require(z3.And(solver.f["elite_portion"] > 0, solver.f["elite_portion"] <= 1))
            ctx.require(z3.And(E >= 1, E <= n))      # at least one elite (num_elites = 0 makes the real function raise IndexError: a precondition, not a property violation)
            try:
                ret = ctx.call(args=[solver, state, samples, L.val])
            except RaiseEx as e:
                ctx.ensure("no exception for num_elites >= 1", z3.BoolVal(False))
                return
        finally:
            ex.lib.ns["jax.numpy"].entries.update({k: v for k, v in saved.items() if v is not None})
        LL = lambda idx: z3.If(z3.Select(L.nan.a, idx), INF, z3.Select(L.val.a, idx))
        new_loss = ret.f["bestsofar_loss"]
        best = ret.f["bestsofar"]["p"]
        b = z3.Int("b!w")
        ctx.ensure("C18 the best-so-far loss never increases", new_loss <= old_loss)
        ctx.ensure("C18 best-so-far loss = min(old, smallest loss of this iteration with NaN read as +inf)",
                   z3.And(z3.ForAll([j], z3.Implies(z3.And(0 <= j, j < n), new_loss <= LL(j))), z3.Or(new_loss == old_loss, z3.Exists([b], z3.And(0 <= b, b < n, new_loss == LL(b))))))
        ctx.ensure("C18 the reported best candidate attained the reported loss: it is the old one if the old loss is kept, else a candidate of this iteration with exactly that loss",
                   z3.Or(z3.And(new_loss == old_loss, old_loss < new_loss + 1, z3.Or(best == z3.Real("best.p"), z3.Exists([b], z3.And(0 <= b, b < n, best == z3.Select(samples["p"].a, b), LL(b) == new_loss)))),
                         z3.Exists([b], z3.And(0 <= b, b < n, best == z3.Select(samples["p"].a, b), LL(b) == new_loss))))
        ctx.ensure("C18 a candidate whose loss is NaN is never reported as best while a finite-loss candidate exists (or the old best is finite)",
                   z3.Implies(z3.Or(old_loss < INF, z3.Exists([b], z3.And(0 <= b, b < n, z3.Not(z3.Select(L.nan.a, b))))), new_loss < INF))
        ctx.ensure("mean / stdev are smoothed towards the elite statistics", z3.BoolVal(isinstance(ret.f["mean"], dict) and set(ret.f["mean"]) == {"p"}))


class CemRanking(Unit):
    """with losses' = where(isnan, inf, losses) and pi = argsort(losses'): a NaN candidate is never ranked ahead of a finite one,
    so a NaN candidate is elite only if every finite-loss candidate is elite"""
    name = "lemma: NaN candidates rank last"
    target = None
    kind = "lemma"
    props = ("C18",)

    def run(self, ctx):
        n = z3.Int("n")
        val, nan, pi = z3.Array("loss", INT, REAL), z3.Array("nan", INT, BOOL), z3.Array("pi", INT, INT)
        i, j = z3.Ints("i j")
        LL = lambda idx: z3.If(z3.Select(nan, idx), INF, z3.Select(val, idx))
        ctx.require(z3.ForAll([j], z3.Implies(z3.And(0 <= j, j < n, z3.Not(z3.Select(nan, j))), z3.Select(val, j) < INF)))
        ctx.require(z3.ForAll([i], z3.Implies(z3.And(0 <= i, i < n), z3.And(0 <= z3.Select(pi, i), z3.Select(pi, i) < n))))
        ctx.require(z3.ForAll([i, j], z3.Implies(z3.And(0 <= i, i <= j, j < n), LL(z3.Select(pi, i)) <= LL(z3.Select(pi, j)))))
        a, b = z3.Ints("a b")
        ctx.ensure("C18 in the sorted order every finite-loss candidate comes before every NaN candidate",
                   z3.Implies(z3.And(0 <= a, a < b, b < n, z3.Select(nan, z3.Select(pi, a))), z3.Select(nan, z3.Select(pi, b))))


class GaussianSample(Unit):
    """the whole sampler (not its inner helper, whatever it is called): every leaf of every sampled candidate lies within that leaf's bounds,
    and every leaf gets its own key"""
    name = "gaussian_samples"
    target = CEM + "::gaussian_samples"
    props = ("C18",)

    def run(self, ctx):
        ex = ctx.ex
        keys_used = []
        ex.lib.ns["jax.random"].entries["normal"] = lambda ex_, rng, shape=None: (keys_used.append(rng), ex_.fresh("noise", REAL))[1]
        leaves = ("a", "b")
        tree = lambda tag: {"x": z3.Real(f"{tag}.a"), "sub": {"y": z3.Real(f"{tag}.b"), "none": None}}
        umin, umax, mean, std = tree("u_min"), tree("u_max"), tree("mean"), tree("stdev")
        for l in leaves:
            ctx.require(z3.Real(f"u_min.{l}") <= z3.Real(f"u_max.{l}"))
        solver = Rec("CEMSolver", dict(u_min=umin, u_max=umax, evolution_smoothing=z3.Real("smoothing"), num_samples=z3.Int("num_samples"), elite_portion=z3.Real("elite_portion")), module=CEM, frozen=True)
        state = Rec("CEMState", dict(mean=mean, stdev=std, bestsofar=tree("best"), bestsofar_loss=z3.Real("best_loss")), module=CEM, frozen=True)
        ex.opts["leaf_attr"] = lambda ex_, o, attr: () if attr == "shape" else None
        r = ctx.call(args=[solver, state, z3.Const("rng", Leaf)])
        ok = isinstance(r, dict) and set(r) == {"x", "sub"} and isinstance(r["sub"], dict) and r["sub"].get("none") is None
        ctx.ensure("the samples have the structure of the mean", z3.BoolVal(ok))
        if ok:
            ctx.ensure("C18 every sampled candidate lies within [u_min, u_max], leaf by leaf",
                       z3.And(toz(r["x"]) >= z3.Real("u_min.a"), toz(r["x"]) <= z3.Real("u_max.a"), toz(r["sub"]["y"]) >= z3.Real("u_min.b"), toz(r["sub"]["y"]) <= z3.Real("u_max.b")))
            ctx.ensure("every leaf is sampled with its own key", z3.BoolVal(len(keys_used) == 2 and not z3.eq(toz(keys_used[0]), toz(keys_used[1]))))


class EvoStep(Unit):
    """dataflow only: tell() receives the candidates returned by ask() and the losses with NaN replaced by +inf"""
    name = "evo_step"
    target = "rex/evo.py::evo_step"
    props = ("C18",)

    def run(self, ctx):
        ex = ctx.ex
        n = z3.Int("popsize")
        ctx.require(n >= 1)
        L = Losses(n)
        jf = z3.Int("j!fin")
        ctx.require(z3.ForAll([jf], z3.Implies(z3.And(0 <= jf, jf < n, z3.Not(z3.Select(L.nan.a, jf))), z3.Select(L.val.a, jf) < INF)))   # finite losses are below +inf
        saved = cem_models(ex, L)
        told = []
        X = z3.Const("population", Leaf)
        strategy = Rec("Strategy", dict(popsize=n, ask=lambda ex_, rng, st, p: (X, z3.Const("state_after_ask", Leaf)),
                                        tell=lambda ex_, x, l, st, p: (told.append((x, l, st, p)), z3.Const("state_after_tell", Leaf))[1]), module=None)
        solver = Rec("EvoSolver", dict(strategy=strategy, strategy_params=z3.Const("strategy_params", Leaf)), module="rex/evo.py", frozen=True)
        ex.lib.ns["jax.random"].entries["split"] = lambda ex_, rng, num=2: _Splits(rng)
        ex.lib.ns["equinox"].entries["filter_vmap"] = lambda ex_, f, in_axes=None: (lambda ex2, *a: L.val)
        ex.lib.ns["jax.random"].entries["PRNGKey"] = lambda ex_, s: z3.Const("key0", Leaf)
        try:
            ret = ctx.call(args=[Opaque("loss"), solver, z3.Const("state", Leaf), Opaque("transform"), z3.Const("rng", Leaf)])
        finally:
            ex.lib.ns["jax.numpy"].entries.update({k: v for k, v in saved.items() if v is not None})
        ctx.ensure("tell() is called exactly once", z3.BoolVal(len(told) == 1))
        if len(told) == 1:
            x, l, st, p = told[0]
            j = z3.Int("j!e")
            ctx.ensure("C18 the optimiser is told about exactly the candidates it asked for, with the state returned by ask and the solver's (clipping) parameters",
                       z3.And(toz(aw.same(x, X)), toz(aw.same(st, z3.Const("state_after_ask", Leaf))), toz(aw.same(p, z3.Const("strategy_params", Leaf)))))
            i2 = z3.Int("i!e")
            ctx.ensure("C18 the optimiser sees every finite loss unchanged and every NaN loss as a value STRICTLY above every finite loss of the generation (so no ranking can prefer a NaN candidate, ties included)",
                       z3.And(z3.BoolVal(isinstance(l, Arr)), l.n == n,
                              z3.ForAll([j], z3.Implies(z3.And(0 <= j, j < n, z3.Not(z3.Select(L.nan.a, j))), z3.Select(l.a, j) == z3.Select(L.val.a, j))),
                              z3.ForAll([j, i2], z3.Implies(z3.And(0 <= j, j < n, 0 <= i2, i2 < n, z3.Select(L.nan.a, j), z3.Not(z3.Select(L.nan.a, i2))), z3.Select(l.a, j) > z3.Select(L.val.a, i2))))
                       if isinstance(l, Arr) else z3.BoolVal(False))
        ok = isinstance(ret, tuple) and isinstance(ret[0], tuple)
        ctx.ensure("returns ((new state, logger), raw losses)", z3.And(z3.BoolVal(ok), toz(aw.same(ret[0][0], z3.Const("state_after_tell", Leaf))) if ok else z3.BoolVal(False)))


class EvoInit(Unit):
    """EvoSolver.init hands the per-dimension box [u_min, u_max] (flattened, element for element) to the strategy as its clipping bounds"""
    name = "EvoSolver.init"
    target = "rex/evo.py::EvoSolver.init"
    props = ("C18",)

    def run(self, ctx):
        ex = ctx.ex
        FLAT = z3.Function("flatten_single", Leaf, Leaf)
        umin, umax = z3.Const("u_min", Leaf), z3.Const("u_max", Leaf)
        replaced = {}

        class Params:
            def pyvc_getattr(self, ex_, attr):
                if attr == "replace":
                    return lambda ex2, **kw: (replaced.update(kw), Rec("EvoParams", dict(kw), module=None, frozen=True))[1]
                raise Unsupported(attr)
        reshaper = Rec("Reshaper", dict(flatten_single=lambda ex_, x: FLAT(x)), module=None)
        made = {}

        def strategy_cls(ex_, **kw):
            made.update(kw)
            return Rec("Strategy", dict(default_params=Params(), param_reshaper=reshaper), module=None)
        ex.lib.ns["evosax"] = NS("evosax", {"Strategies": {"CMA_ES": strategy_cls}, "strategy": NS("s", {})})
        m = ctx.repo.module("rex/evo.py")
        cref = ex.module_global(m, "EvoSolver")
        ex.frames.append(__import__("pyvc.interp", fromlist=["Frame"]).Frame({}, [], m, "<evo>"))
        try:
            # `evx` is evosax in rex/evo.py
            ex.frame.env["evx"] = ex.lib.ns["evosax"]
            sol = ex.call(ex.getattr(cref, "init"), [umin, umax, "CMA_ES"], {})
        finally:
            ex.frames.pop()
        ctx.ensure("C18 the strategy clips every dimension to its own bounds: clip_min = flatten(u_min), clip_max = flatten(u_max), element for element",
                   z3.And(z3.BoolVal("clip_min" in replaced and "clip_max" in replaced), toz(aw.same(replaced.get("clip_min"), FLAT(umin))), toz(aw.same(replaced.get("clip_max"), FLAT(umax)))))
        ctx.ensure("the strategy is shaped by the parameter tree", z3.BoolVal(made.get("pholder_params") is umin))


class _Splits:
    def __init__(self, rng):
        self.rng = rng

    def pyvc_getitem(self, ex, i):
        return z3.Const("subkey", Leaf) if not isinstance(i, slice) else z3.Const("subkeys", Leaf)


CemUpdate.replay = lambda self, label, clause, probes, model: {"kind": "pure", "which": "cem_update", "probes": probes}



class CemInitState(Unit):
    """base case of the best-so-far invariant: before any iteration the best candidate is the initial mean and its loss is +inf (no finite loss seen yet)"""
    name = "CEMSolver.init_state"
    target = CEM + "::CEMSolver.init_state"
    props = ("C18",)

    def configs(self):
        yield "stdev given", dict(stdev=True)
        yield "default stdev", dict(stdev=False)

    def run(self, ctx):
        ex, cfg = ctx.ex, ctx.cfg
        lo, hi = {"p": z3.Real("u_min.p"), "q": z3.Real("u_min.q")}, {"p": z3.Real("u_max.p"), "q": z3.Real("u_max.q")}
        solver = Rec("CEMSolver", dict(u_min=lo, u_max=hi, num_samples=z3.Int("n"), evolution_smoothing=z3.Real("sm"), elite_portion=z3.Real("ep")), module=CEM, frozen=True)
        mean = {"p": z3.Real("mean.p"), "q": z3.Real("mean.q")}
        sd = {"p": z3.Real("stdev.p"), "q": z3.Real("stdev.q")}
        st = ctx.call(self_obj=solver, args=[mean] + ([sd] if cfg["stdev"] else []))
        ok = isinstance(st, Rec) and st.cls == "CEMState"
        ctx.ensure("returns a CEMState", z3.BoolVal(ok))
        if not ok:
            return
        ctx.ensure("C18 before the first iteration the best candidate is the initial mean and its loss is +inf (so the first finite loss replaces it)",
                   z3.And(z3.BoolVal(st.f["bestsofar_loss"] is libmodels._INF), *[toz(st.f["bestsofar"][k]) == mean[k] for k in mean], *[toz(st.f["mean"][k]) == mean[k] for k in mean]))
        ctx.ensure("the search starts with the given spread, by default half the width of the box in every dimension",
                   z3.And(*[toz(st.f["stdev"][k]) == (sd[k] if cfg["stdev"] else (hi[k] - lo[k]) / 2) for k in mean]))


class CemStepDataflow(Unit):
    """cem_step: candidates are drawn by gaussian_samples from the CURRENT state with one key each, every candidate is evaluated once with its own key, and the state is
    updated by cem_update_mean_stdev on exactly those candidates and losses; cem is the fold of that step over max_steps iterations with one key pair per iteration"""
    name = "cem_step / cem (dataflow)"
    target = CEM + "::cem_step"
    props = ("C18",)

    def opts(self, cfg):
        def scan(ex, f, init, xs, length):
            ex.ghost["scan"] = (f, init, xs)
            return z3.Const("final_state", Leaf), z3.Const("stacked_losses", Leaf)
        return {"scan": scan}

    def run(self, ctx):
        ex = ctx.ex
        n = 3
        solver = Rec("CEMSolver", dict(num_samples=n), module=CEM, frozen=True)
        state, transform, loss = z3.Const("state", Leaf), z3.Const("transform", Leaf), z3.Const("loss_fn", Leaf)
        rng = z3.Const("rng", Leaf)
        vm = []

        def filter_vmap(ex_, f, in_axes=None, **k):
            def run(ex__, *args):
                vm.append((f, in_axes, args))
                return z3.Const(f"vmapped{len(vm)}", Leaf)
            return run
        ex.lib.ns["equinox"].entries["filter_vmap"] = filter_vmap
        upd = []
        ex.summaries["cem_update_mean_stdev"] = lambda ex_, o, a, k, node: (upd.append(a), z3.Const("new_state", Leaf))[1]
        ret = ctx.call(args=[loss, solver, state, transform, rng])
        ok = isinstance(ret, tuple) and len(ret) == 2 and len(vm) == 2 and len(upd) == 1
        ctx.ensure("one sampling sweep, one evaluation sweep, one update", z3.BoolVal(ok))
        if not ok:
            return
        (f1, ax1, a1), (f2, ax2, a2) = vm
        keys = lambda x: [str(t) for t in x] if isinstance(x, list) else None
        want_k = [str(libmodels_split(rng, i)) for i in range(2 * n)]
        ctx.ensure("C18 candidates: gaussian_samples(solver, CURRENT state, key) mapped over the first num_samples keys only",
                   z3.BoolVal(getattr(f1, "name", None) == "gaussian_samples" and tuple(ax1) == (None, None, 0) and a1[0] is solver and a1[1] is state and keys(a1[2]) == want_k[:n]))
        ctx.ensure("C18 losses: loss(candidate, transform, key) mapped over exactly those candidates and the remaining keys (no key shared with the sampling)",
                   z3.BoolVal(f2 is loss and tuple(ax2) == (0, None, 0) and z3.eq(toz(a2[0]), z3.Const("vmapped1", Leaf)) and a2[1] is transform and keys(a2[2]) == want_k[n:]))
        ctx.ensure("C18 the state is updated from the old state with exactly these candidates and losses; the step returns the new state and the losses",
                   z3.BoolVal(upd[0][0] is solver and upd[0][1] is state and z3.eq(toz(upd[0][2]), z3.Const("vmapped1", Leaf)) and z3.eq(toz(upd[0][3]), z3.Const("vmapped2", Leaf))
                              and z3.eq(toz(ret[0]), z3.Const("new_state", Leaf)) and z3.eq(toz(ret[1]), z3.Const("vmapped2", Leaf))))
        # ---- cem: the fold
        steps = []
        ex.summaries["cem_step"] = lambda ex_, o, a, k, node: (steps.append(a), (z3.Const("stepped", Leaf), z3.Const("step_losses", Leaf)))[1]
        cem = ex.module_global(ctx.repo.module(CEM), "cem")
        init = z3.Const("init_state", Leaf)
        out = ex.call(cem, [loss, solver, init, transform], dict(max_steps=4, rng=rng, verbose=False))
        sc = ex.ghost.get("scan")
        ctx.ensure("cem is a scan from the given initial state", z3.BoolVal(sc is not None and sc[1] is init and isinstance(out, tuple) and len(out) == 2))
        if sc is None:
            return
        carry = z3.Const("carry", Leaf)
        xs_i = (z3.Int("i"), z3.Const("keys_i", Leaf))
        r = ex.call(sc[0], [carry, xs_i], {})
        ctx.ensure("C18 every iteration of cem is cem_step on the carried state with that iteration's keys; the new state is carried on, the losses are stacked",
                   z3.BoolVal(len(steps) == 1 and steps[0][0] is loss and steps[0][1] is solver and steps[0][2] is carry and steps[0][3] is transform and steps[0][4] is xs_i[1]
                              and isinstance(r, tuple) and z3.eq(toz(r[0]), z3.Const("stepped", Leaf)) and z3.eq(toz(r[1]), z3.Const("step_losses", Leaf))))


def libmodels_split(rng, i):
    return z3.Function("rng_split", Leaf, INT, Leaf)(rng, i)


class EvoFold(Unit):
    """evo: the fold of evo_step from (init_state, logger) over max_steps iterations with one key pair per iteration; state and logger are carried together"""
    name = "evo (fold of evo_step)"
    target = "rex/evo.py::evo"
    props = ("C18",)

    def opts(self, cfg):
        def scan(ex, f, init, xs, length):
            ex.ghost["scan"] = (f, init, xs)
            return (z3.Const("final_evo_state", Leaf), z3.Const("final_logger", Leaf)), z3.Const("stacked_losses", Leaf)
        return {"scan": scan}

    def run(self, ctx):
        ex = ctx.ex
        solver = Rec("EvoSolver", dict(strategy=Rec("Strategy", dict(popsize=8), module=None)), module="rex/evo.py", frozen=True)
        transform, loss, rng = z3.Const("transform", Leaf), z3.Const("loss_fn", Leaf), z3.Const("rng", Leaf)
        init, logger = z3.Const("init_state", Leaf), z3.Const("logger", Leaf)
        steps = []
        ex.summaries["evo_step"] = lambda ex_, o, a, k, node: (steps.append(a), ((z3.Const("stepped_state", Leaf), z3.Const("stepped_logger", Leaf)), z3.Const("step_losses", Leaf)))[1]
        out = ctx.call(args=[loss, solver, init, transform], kwargs=dict(max_steps=5, rng=rng, verbose=False, logger=logger))
        sc = ex.ghost.get("scan")
        ok = sc is not None and isinstance(sc[1], tuple) and len(sc[1]) == 2 and sc[1][0] is init and sc[1][1] is logger
        ctx.ensure("C18 evo is a scan that starts from the given strategy state and logger", z3.BoolVal(ok))
        ctx.ensure("returns (final state, final logger, losses of every generation)", z3.BoolVal(isinstance(out, tuple) and len(out) == 3 and z3.eq(toz(out[0]), z3.Const("final_evo_state", Leaf)) and z3.eq(toz(out[1]), z3.Const("final_logger", Leaf))
                                                                                          and z3.eq(toz(out[2]), z3.Const("stacked_losses", Leaf))))
        if not ok:
            return
        carry = (z3.Const("carry_state", Leaf), z3.Const("carry_logger", Leaf))
        xs_i = (z3.Int("i"), z3.Const("keys_i", Leaf))
        r = ex.call(sc[0], [carry, xs_i], {})
        ctx.ensure("C18 every generation is evo_step on the carried state and logger with that generation's keys; its result is carried on whole (state and logger), the losses are stacked",
                   z3.BoolVal(len(steps) == 1 and steps[0][0] is loss and steps[0][1] is solver and steps[0][2] is carry[0] and steps[0][3] is transform and steps[0][4] is xs_i[1] and steps[0][5] is carry[1]
                              and isinstance(r, tuple) and isinstance(r[0], tuple) and z3.eq(toz(r[0][0]), z3.Const("stepped_state", Leaf)) and z3.eq(toz(r[0][1]), z3.Const("stepped_logger", Leaf))
                              and z3.eq(toz(r[1]), z3.Const("step_losses", Leaf))))


UNITS = [CemUpdate(), CemRanking(), GaussianSample(), EvoStep(), EvoInit(), CemInitState(), CemStepDataflow(), EvoFold()]
EXTRA = dict(assumptions=["losses live in R u {NaN}; +inf is a sentinel above every finite loss (tagged encoding of IEEE values)",
                          "EVO: that evosax honours clip_min/clip_max and keeps its best member is the library's contract (assumed); only the rex-side dataflow is proved",
                          "CEM: base case (init_state: best = initial mean, loss +inf), step (cem_update_mean_stdev) and the fold structure (cem = scan of cem_step from the given state; cem_step = sample / evaluate / update on the carried state) are each under contract; "
                          "'equals the smallest finite loss so far' then follows by induction over iterations (the induction itself is a written argument; eqx.filter_vmap is taken as the leafwise map it documents)",
                          "parameters analysed as one scalar leaf (tree_map is leafwise)"])


def check(tier, seed):
    from pyvc import bounded
    md = bounded.model_differential(300 if tier == "quick" else 3000, seed)
    extra = dict(EXTRA)
    extra["explanation"] = (extra.get("explanation", "") + " Assumed library contracts spot-checked on the real functions (not a proof): argmin returns the FIRST NaN index when a NaN is present, argsort a permutation "
                            "that sorts ascending, nanmax / nanmin the extreme over the non-NaN entries: " + str({k: v for k, v in md.items() if k != "first_disagreements"}))
    code = check_property("C18", UNITS, tier, seed, extra=extra)
    if md.get("error") or md.get("disagreements"):
        print(f"ERROR property=C18 library model differential: {md}")
        return 3 if code == 0 else code
    return code
