"""C06 — every scheduled step executes the user's step function exactly once."""
from pyvc.driver import check_property
from . import async_node, async_misc, compiled, graph_api

UNITS = [u for u in async_node.UNITS + async_misc.UNITS + compiled.UNITS + graph_api.UNITS if "C06" in u.props]


def check(tier, seed):
    return check_property("C06", UNITS, tier, seed)
