"""C06 — every scheduled step executes the user's step function exactly once."""
from pyvc.driver import check_property
from . import async_node, async_misc, compiled, graph_api

UNITS = [u for u in async_node.UNITS + async_misc.UNITS + compiled.UNITS + graph_api.UNITS if "C06" in u.props]


def check(tier, seed):
    from pyvc import bounded
    lines, ev, err = bounded.async_episodes("C06", tier, seed)
    lines2, ev2, err2 = bounded.compiled_api("C06", tier, seed)
    lines, err = lines + lines2, err or err2
    extra = {}
    extra["bounded"] = list(extra.get("bounded", [])) + [ev, ev2]
    for l in ev.get("known_finding_lines", []) + ev2.get("known_finding_lines", []):
        print(l)
    code = check_property("C06", UNITS, tier, seed, extra=extra)
    return bounded.finish_with_bounded("C06", code, lines, err)
