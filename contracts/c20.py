"""C20 — the exported policy computes the same action as the trained actor (rex/ppo.py Policy, rex/actor_critic.py Actor)."""
import z3
from pyvc.driver import Unit, check_property
from pyvc.values import *
from pyvc.interp import RaiseEx
from pyvc import smt
from . import aw

PPO, AC, RL = "rex/ppo.py", "rex/actor_critic.py", "rex/rl.py"
DENSE = z3.Function("dense", Leaf, Leaf, Leaf)            # nn.Dense(params_i)(x): uninterpreted in params and input (any width)
ACT = {k: z3.Function("act_" + k, Leaf, Leaf) for k in ("tanh", "relu", "gelu", "softplus")}
EXPV = z3.Function("exp_vec", Leaf, Leaf)
HALF = z3.Function("half_times", Leaf, Leaf)
LO, HI = z3.Function("first_n", Leaf, Leaf), z3.Function("from_n", Leaf, Leaf)
SAMPLE = z3.Function("mvn_sample", Leaf, Leaf, Leaf, Leaf)   # sample(loc, scale, rng)
NORMALIZE = z3.Function("obs_normalize", Leaf, Leaf)
UNSQUASH = z3.Function("act_unsquash", Leaf, Leaf)
P = lambda i: z3.Const(f"Dense_{i}", Leaf)
LOGSTD = z3.Const("log_std", Leaf)


class KernelShape:
    def pyvc_getattr(self, ex, attr):
        if attr == "shape":
            return (z3.Int("in_dim"), z3.Int("out_dim"))
        raise Unsupported(attr)


class Layer:
    """the parameter dict of one Dense layer"""

    def __init__(self, i):
        self.i = i

    def pyvc_getitem(self, ex, k):
        if k == "kernel":
            return KernelShape()
        raise Unsupported(k)


class DenseModule:
    """flax nn.Dense(units, ...): .apply({'params': p}, x) and, inside a compact module, __call__(x) with the next auto-named parameter set"""

    def __init__(self, counter=None):
        self.counter = counter

    def pyvc_getattr(self, ex, attr):
        if attr == "apply":
            return lambda ex_, variables, x: DENSE(P(variables["params"].i), x)
        raise Unsupported(attr)

    def __call__(self, ex, x):
        ex.assumptions_used.add("flax names the i-th nn.Dense created in a compact module 'Dense_i' (creation order)")
        i = self.counter[0]
        self.counter[0] += 1
        return DENSE(P(i), x)


def nn_models(ex, counter):
    def act(name):
        def f(ex_, x, **kw):
            # keyword arguments select a different function (e.g. gelu(approximate=False) is not the default gelu)
            if not kw:
                return ACT[name](x)
            tag = ",".join(f"{k}={kw[k]!r}" for k in sorted(kw))
            return z3.Function(f"act_{name}[{tag}]", Leaf, Leaf)(x)
        return f
    nn = NS("flax.linen", {k: act(k) for k in ACT})
    nn.entries["Dense"] = lambda ex_, units, **k: DenseModule(counter)
    nn.entries["initializers"] = NS("init", {"uniform": lambda ex_, **k: None, "zeros": None})
    nn.entries["compact"] = lambda ex_, f: f
    nn.entries["Module"] = TypeTag("Module")
    ex.lib.ns["flax.linen"] = nn
    ex.lib.ns["distrax"] = NS("distrax", {
        "MultivariateNormalDiag": lambda ex_, loc, scale: Rec("MVN", dict(loc=loc, scale=scale, sample=lambda ex2, seed=None: SAMPLE(loc, scale, seed)), module=None, frozen=True),
        "Deterministic": lambda ex_, x: Rec("Deterministic", dict(loc=x), module=None, frozen=True), "Distribution": TypeTag("distrax.Distribution")})
    jnp = ex.lib.ns["jax.numpy"]
    saved = jnp.entries.get("exp")
    jnp.entries["exp"] = lambda ex_, x: EXPV(x) if is_sym(x) and x.sort() == Leaf else saved(ex_, x)
    return saved


def leaf_getitem_hook(ex, o, i):
    return None


class PolicyVsActor(Unit):
    """product program: Actor.__call__ and Policy.apply_actor over the same uninterpreted dense layers and activations"""
    name = "Policy.apply_actor == Actor.__call__"
    target = PPO + "::Policy.apply_actor"
    props = ("C20",)

    def configs(self):
        for depth in (0, 1, 2, 3):
            for act in ("tanh", "relu", "gelu", "softplus"):
                if depth not in (0, 2) and act != "relu":
                    continue
                for rng in (False, True):
                    for sis in (True, False):
                        if not sis and (depth != 2 or act != "relu"):
                            continue
                        yield f"depth={depth},{act},rng={int(rng)},state_independent_std={int(sis)}", dict(depth=depth, act=act, rng=rng, sis=sis)
        # parameters that went through jit / scan / tree_map (every trained PPOResult) come back with their dict keys SORTED: Dense_0, Dense_1, Dense_10, Dense_11, Dense_2, ...
        # (numeric and lexicographic order differ from 10 hidden layers on)
        for rng in (False, True):
            yield f"depth=11,relu,rng={int(rng)},state_independent_std=1,keys in pytree (sorted) order", dict(depth=11, act="relu", rng=rng, sis=True, sorted_keys=True)

    def opts(self, cfg):
        import ast as _ast

        def getitem(ex, o, i):
            if isinstance(i, slice):
                return LO(o) if i.start is None else HI(o)
            return None

        def binop(ex, op, a, b):
            if isinstance(op, _ast.Mult) and a == 0.5:
                return HALF(b)
            return None
        return {"leaf_getitem": getitem, "leaf_binop": binop}

    def run(self, ctx):
        ex, cfg = ctx.ex, ctx.cfg
        counter = [0]
        saved = nn_models(ex, counter)
        try:
            x = z3.Const("norm_obs", Leaf)
            rng = z3.Const("rng", Leaf)
            # ---- the trained actor (real Actor.__call__)
            KI = NS("KERNEL_INIT_FN", {})
            actor = Rec("Actor", dict(num_output_units=z3.Int("n_out"), num_hidden_units=z3.Int("n_hidden"), num_hidden_layers=cfg["depth"], hidden_activation=cfg["act"],
                                      output_activation="gaussian", kernel_init_type="lecun_normal", state_independent_std=cfg["sis"],
                                      param=lambda ex_, name, init, shape: LOGSTD), module=AC)
            ex.summaries["KERNEL_INIT"] = None
            m, node = ctx.repo.find(AC + "::Actor.__call__")

            class _KI:
                def pyvc_getitem(self, ex_, k):
                    return lambda ex2: None
            ex.frames.append(__import__("pyvc.interp", fromlist=["Frame"]).Frame({"KERNEL_INIT_FN": _KI()}, [], m, "<actor>"))
            try:
                pi = ex.call_closure(Closure(node, [ex.frames[-1].env], m, self_obj=actor, cls="Actor"), [x], {})
            finally:
                ex.frames.pop()
            # ---- the exported policy (real Policy.apply_actor)
            layers = {f"Dense_{i}": Layer(i) for i in range(cfg["depth"] + 1)}
            if cfg["sis"]:
                layers["log_std"] = LOGSTD
            if cfg.get("sorted_keys"):
                layers = {k: layers[k] for k in sorted(layers)}
            pol = Rec("Policy", dict(act_scaling=None, obs_scaling=None, model={"actor": layers}, hidden_activation=cfg["act"], output_activation="gaussian", state_independent_std=cfg["sis"]), module=PPO, frozen=True)
            try:
                a = ctx.call(self_obj=pol, args=[x], kwargs=dict(rng=rng) if cfg["rng"] else {})
            except RaiseEx as e:
                ctx.ensure("C20 the exported policy evaluates for this network", z3.BoolVal(False))
                return
        finally:
            ex.lib.ns["jax.numpy"].entries["exp"] = saved
        ok = isinstance(pi, Rec) and pi.cls == "MVN"
        ctx.ensure("the actor defines a diagonal Gaussian", z3.BoolVal(ok))
        if not ok:
            return
        if not cfg["rng"]:
            ctx.ensure("C20 without rng the exported policy returns exactly the mean of the actor's Gaussian (the deterministic action), for every observation", toz(a) == toz(pi.f["loc"]))
        else:
            ctx.ensure("C20 with an rng the exported policy samples from the Gaussian the actor defines (same mean, same scale)", toz(a) == SAMPLE(toz(pi.f["loc"]), toz(pi.f["scale"]), rng))

    def replay(self, label, clause, probes, model):
        d = dict(x.split("=") if "=" in x else ("act", x) for x in label.split(","))
        return {"kind": "policy_vs_actor", "depth": int(d["depth"]), "act": d["act"], "rng": d["rng"] == "1", "sis": d["state_independent_std"] == "1"}


class GetAction(Unit):
    name = "Policy.get_action"
    target = PPO + "::Policy.get_action"
    props = ("C20",)

    def configs(self):
        for rng in (False, True):
            yield f"rng={int(rng)}", dict(rng=rng)

    def run(self, ctx):
        ex = ctx.ex
        seen = {}

        def normalize(ex_, x, clip=None, subtract_mean=None):
            seen["norm"] = (clip, subtract_mean)
            return NORMALIZE(x)
        APPLY = z3.Function("apply_actor", Leaf, Leaf, Leaf)
        NONE = z3.Const("no_rng", Leaf)
        pol = Rec("Policy", dict(act_scaling=Rec("SquashState", dict(unsquash=lambda ex_, a: UNSQUASH(a)), module=None, frozen=True),
                                 obs_scaling=Rec("NormalizeVec", dict(normalize=normalize), module=None, frozen=True), model={"actor": {}},
                                 apply_actor=lambda ex_, o, rng=None: APPLY(o, rng if rng is not None else NONE)), module=PPO, frozen=True)
        obs, rng = z3.Const("obs", Leaf), z3.Const("rng", Leaf)
        a = ctx.call(self_obj=pol, args=[obs], kwargs=dict(rng=rng) if ctx.cfg["rng"] else {})
        ctx.ensure("C20 get_action = unsquash(actor(normalize(obs))) - the training-time pipeline (observation normalisation with clipping and mean subtraction, actor, action squashing / clipping)",
                   z3.And(toz(a) == UNSQUASH(APPLY(NORMALIZE(obs), rng if ctx.cfg["rng"] else NONE)), z3.BoolVal(seen.get("norm") == (True, True))))


class PolicyExtraction(Unit):
    name = "PPOResult.policy"
    target = PPO + "::PPOResult.policy"
    props = ("C20",)

    def run(self, ctx):
        ex = ctx.ex
        FIRST = z3.Function("first_env", Leaf, Leaf)
        jax_tm = ex.lib.ns["jax"].entries["tree_util"].entries["tree_map"]
        params = z3.Const("trained_params", Leaf)
        act_sc = z3.Const("act_scaling_state", Leaf)
        # the running observation statistics of training (a real NormalizeVec, so that a copy with altered statistics is seen)
        norm_obs = Rec("NormalizeVec", dict(mean=z3.Real("norm.mean"), var=z3.Real("norm.var"), count=z3.Real("norm.count"), return_val=None, clip=z3.Real("norm.clip")), module="rex/rl.py", frozen=True)
        ctx.require(norm_obs.f["var"] >= 0)
        ex.opts["leaf_getitem"] = lambda ex_, o, i: FIRST(o)
        env_state = Rec("GraphState", dict(aux={"norm_obs": norm_obs, "act_scaling": act_sc, "norm_reward": z3.Const("rwd", Leaf)}), module=None, frozen=True)
        rs = Rec("RunnerState", dict(train_state=Rec("TrainState", dict(params={"params": params}), module=None, frozen=True), env_state=env_state), module=PPO, frozen=True)
        res = Rec("PPOResult", dict(config=Rec("Config", dict(HIDDEN_ACTIVATION="gelu", STATE_INDEPENDENT_STD=True), module=None, frozen=True), runner_state=rs, metrics={}), module=PPO, frozen=True)
        ex.summaries[("jax.tree_util", "tree_map")] = None
        pol = ex.getattr(res, "policy")
        ok = isinstance(pol, Rec) and pol.cls == "Policy"
        ctx.ensure("returns a Policy", z3.BoolVal(ok))
        if ok:
            ctx.ensure("C20 the exported policy carries the trained parameters, the training-time observation normalisation state, the first environment's action scaling, the training activation and std flag",
                       z3.And(toz(aw.same(pol.f["model"], params)), z3.BoolVal(isinstance(pol.f["obs_scaling"], Rec) and pol.f["obs_scaling"].cls == "NormalizeVec"),
                              *([toz(pol.f["obs_scaling"].f[k]) == norm_obs.f[k] for k in ("mean", "var", "count", "clip")] if isinstance(pol.f["obs_scaling"], Rec) else []), toz(aw.same(pol.f["act_scaling"], FIRST(act_sc))),
                              z3.BoolVal(pol.f["hidden_activation"] == "gelu" and pol.f["output_activation"] == "gaussian" and pol.f["state_independent_std"] is True)))


UNITS = [PolicyVsActor(), GetAction(), PolicyExtraction()]
EXTRA = dict(assumptions=["flax nn.Dense is a function of (its parameters, its input); the i-th Dense created in a compact module is named Dense_i",
                          "network depth enumerated 0..3 hidden layers (BOUNDED in depth); width, parameter values, observation and rng are unbounded (uninterpreted dense layers)",
                          "activation functions: the same flax functions on both sides (finite table of four names, exhaustive)"],
             bounded=["network depth 0..3 hidden layers enumerated (all four activations at depth 0 and 2)"])


def check(tier, seed):
    return check_property("C20", UNITS, tier, seed, extra=EXTRA)
