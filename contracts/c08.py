"""C08 — input windows read exactly the scheduled messages from the output buffers."""
from pyvc.driver import check_property
from . import compiled, graph_api

UNITS = [u for u in compiled.UNITS + graph_api.UNITS if "C08" in u.props]


def check(tier, seed):
    return check_property("C08", UNITS, tier, seed)
