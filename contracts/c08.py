"""C08 — input windows read exactly the scheduled messages from the output buffers."""
from pyvc.driver import check_property
from . import compiled, graph_api

UNITS = [u for u in compiled.UNITS + graph_api.UNITS if "C08" in u.props]


def check(tier, seed):
    from pyvc import bounded
    n = 12 if tier == "quick" else 96
    res = bounded.run_native("c08_buffers.py", ["--n", str(n), "--seed", str(seed)])
    lines, ev, err = bounded.report("C08", "automatic buffer sizes vs replayed schedule", res, "c08_buffers.py")
    extra = dict(bounded=[dict(ev, bound=f"{n} random 3-node graphs (rates 1..20 Hz, windows 1..4, trainable / jittery delays, 3 supergraph modes x prune, 1-2 episodes): "
                                          "Timings.get_buffer_sizes of the real pipeline checked against the executable contract 'every scheduled read finds its payload'")],
                 assumptions=["Timings.get_buffer_sizes (numpy masked arrays) is outside PyVC's reach: covered only by the bounded stand-in above (instance validation, not a proof)"])
    code = check_property("C08", UNITS, tier, seed, extra=extra)
    if lines:
        for l in lines:
            print(l)
        return 1
    if err and code == 0:
        print(f"ERROR property=C08 bounded stand-in failed to run: {err[-300:]}")
        return 3
    return code
