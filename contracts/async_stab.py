"""C02 — relational (2-safety) stability obligations and the single-consumer check.

Stability of a firing rule: once a handler's guard holds, entries appended later (by tasks that other threads submit, in whatever order
the executor happens to run them) change neither the guard nor what the handler does.  Each unit runs the REAL handler twice: on a queue
state q and on q ++ [x] for an arbitrary well-formed x, and requires the same decision."""
import ast
import z3
from pyvc.driver import Unit
from pyvc.values import *
from pyvc import values as V
from pyvc.interp import LoopSpec
from pyvc import smt
from . import aw
from .async_conn import mk_conn_world, conn_summaries, stop_cond, popped


def extend(ex, q, tag):
    """q ++ [x] with fresh x"""
    q2 = Seq(q.schema, dict(q.arrs), q.lo, q.hi + 1, q.kind)
    for p, a in q.arrs.items():
        q2.arrs[p] = z3.Store(a, q.hi, z3.Const(f"{tag}!x{''.join('_' + str(i) for i in p)}", a.sort().range()))
    return q2


class StabNonblocking(Unit):
    name = "stability: push_expected_nonblocking vs later announcements"
    target = aw.AS + "::_AsyncConnectionWrapper.push_expected_nonblocking"
    props = ("C02",)

    def configs(self):
        for jit in ("LATEST", "BUFFER"):
            yield jit, dict(clock="SIMULATED", jitter=jit, blocking=False)

    def opts(self, cfg):
        return {"opaque_div": True}

    def summaries(self, cfg):
        return conn_summaries(["push_selection"])

    def one(self, ctx, extended):
        ex, cfg = ctx.ex, ctx.cfg
        w, c, src, dst = mk_conn_world(ctx, cfg)   # same names => same symbolic pre-state in both runs
        if extended:
            c.f["q_ts_input"] = extend(ex, c.f["q_ts_input"], "later")
            c.f["_prev_recv_sc"] = z3.Real("later!prev")
            for _, cl in aw.wf_conn_clauses(c):
                ex.assume(cl)
        pre = ctx.snapshot(c)
        qi, qn = pre.f["q_ts_input"], pre.f["q_ts_next_step"]
        t = qn.leaf((1,), 0)
        stop = lambda idx: stop_cond(c, z3.Select(qi.arrs[(0,)], qi.lo + idx), z3.Select(qi.arrs[(1,)], qi.lo + idx), t, cfg["jitter"])

        roles = aw.Roles()

        def inv(ex_, k):
            env = ex_.frame.env
            j = z3.Int("j!en")
            return z3.And(toz(roles.get(env, "num_msgs", aw.is_zero)) == k, toz(roles.get(env, "ts_step", aw.is_term(t))) == t, z3.ForAll([j], z3.Implies(z3.And(0 <= j, j < k), z3.Not(stop(j)))), aw.same(c.f["q_ts_input"], qi))

        ex.loops[("push_expected_nonblocking", 1)] = LoopSpec(inv)
        n0 = len(ex.ev)
        ctx.call(self_obj=c)
        calls = [e for e in ex.ev[n0:] if e.kind == "call"]
        if not calls:
            return None
        at = calls[0].snap
        return at.f["q_ts_input"].lo - qi.lo, at.f["q_expected_select"].leaf((0,), pre.f["q_expected_select"].length())

    def run(self, ctx):
        try:
            self.run2(ctx)
        finally:
            # safety / loop obligations of these runs are discharged by the single-run units for every well-formed state
            ctx.ex.obligations[:] = [o for o in ctx.ex.obligations if o.kind == "ensures"]

    def run2(self, ctx):
        a = self.one(ctx, False)
        if a is None:
            return   # guard false on the shorter stream: nothing to preserve
        b = self.one(ctx, True)
        ctx.ensure("C02 stability: a guard that holds keeps holding when a later announcement has already arrived", z3.BoolVal(b is not None),
                   hyps=lambda h: not smt.is_nonlinear(h))   # the guard is linear; keep the BUFFER loop's nonlinear facts out of this query
        if b is not None:
            ctx.ensure("C02 stability: same number of messages and same step time, whether or not a later announcement has already arrived", z3.And(a[0] == b[0], a[1] == b[1]))


class StabTsMax(Unit):
    name = "stability: push_ts_max vs later announcements"
    target = aw.AS + "::_AsyncConnectionWrapper.push_ts_max"
    props = ("C02",)

    def configs(self):
        yield "B", dict(clock="SIMULATED", blocking=True)

    def summaries(self, cfg):
        return conn_summaries([])

    def one(self, ctx, extended):
        ex = ctx.ex
        w, c, src, dst = mk_conn_world(ctx, ctx.cfg)
        qe = c.f["q_expected_ts_max"]
        j = z3.Int("j!tm")
        ex.assume(z3.ForAll([j], z3.Implies(z3.And(qe.lo <= j, j < qe.hi), z3.Select(qe.arrs[()], j) >= 0)))
        if extended:
            c.f["q_ts_input"] = extend(ex, c.f["q_ts_input"], "later")
            c.f["_prev_recv_sc"] = z3.Real("later!prev")
            for _, cl in aw.wf_conn_clauses(c):
                ex.assume(cl)
        pre = ctx.snapshot(c)
        n0 = len(ex.ev)
        from .async_conn import running_max_spec
        ex.loops[("push_ts_max", 1)] = running_max_spec(c, pre.f["q_ts_input"], pre.f["q_expected_ts_max"].leaf((), 0))      # only used if the code has such a loop
        ctx.call(self_obj=c)
        if not [e for e in ex.ev[n0:] if e.kind == "submit"]:
            return None
        return c.f["q_ts_max"].leaf((), pre.f["q_ts_max"].length()), c.f["q_ts_input"].lo - pre.f["q_ts_input"].lo

    def run(self, ctx):
        try:
            self.run2(ctx)
        finally:
            # safety / loop obligations of these runs are discharged by the single-run units for every well-formed state
            ctx.ex.obligations[:] = [o for o in ctx.ex.obligations if o.kind == "ensures"]

    def run2(self, ctx):
        a = self.one(ctx, False)
        if a is None:
            return
        b = self.one(ctx, True)
        ctx.ensure("C02 stability: fires as well when a later announcement has already arrived", z3.BoolVal(b is not None))
        if b is not None:
            ctx.ensure("C02 stability: same ts_max and same number of consumed timestamps", z3.And(a[0] == b[0], a[1] == b[1]))


class StabSelection(Unit):
    name = "stability: push_selection vs later messages"
    target = aw.AS + "::_AsyncConnectionWrapper.push_selection"
    props = ("C02",)

    def configs(self):
        yield "N", dict(clock="SIMULATED", blocking=False)

    def summaries(self, cfg):
        return conn_summaries([])

    def one(self, ctx, extended):
        ex = ctx.ex
        w, c, src, dst = mk_conn_world(ctx, ctx.cfg)
        if extended:
            c.f["q_msgs"] = extend(ex, c.f["q_msgs"], "later")
        pre = ctx.snapshot(c)
        qm0, rm0, tick0 = pre.f["q_msgs"], pre.f["_record_messages"], pre.f["_tick"]

        def inv(ex_, k):
            env = ex_.frame.env
            g = aw.Roles().get(env, "grouped")
            qm, rm = c.f["q_msgs"], c.f["_record_messages"]
            j = z3.Int("j!ps")
            M = lambda p, t: z3.Select(qm0.arrs[p], qm0.lo + t)
            parts = [qm.lo == qm0.lo + k, qm.hi == qm0.hi, rm.hi == rm0.hi + k] + [aw.same(qm.arrs[p], qm0.arrs[p]) for p in qm0.arrs]
            if isinstance(g, list):
                parts.append(k == 0)
            else:
                parts.append(g.length() == k)
                A = lambda p, i: z3.Select(g.arrs[p], i)   # absolute index, so that the trigger matches every read of the group
                parts.append(z3.ForAll([j], z3.Implies(z3.And(g.lo <= j, j < g.hi), z3.And(
                    A((0,), j) == M((0, "seq_out"), j - g.lo), A((1,), j) == M((0, "ts_sent"), j - g.lo), A((2,), j) == M((0, "ts_recv"), j - g.lo), A((3,), j) == M((1,), j - g.lo)))))
            return z3.And([toz(p) for p in parts])

        ex.loops[("push_selection", 1)] = LoopSpec(inv, modifies=["self.q_msgs", "self._record_messages", "grouped"], schemas={"grouped": aw.GROUPED_ELEM})
        n0 = len(ex.ev)
        ctx.call(self_obj=c)
        if not [e for e in ex.ev[n0:] if e.kind == "submit"]:
            return None
        g = c.f["q_grouped"].at(pre.f["q_grouped"].length())
        return c.f["q_msgs"].lo - qm0.lo, g

    def run(self, ctx):
        try:
            self.run2(ctx)
        finally:
            # safety / loop obligations of these runs are discharged by the single-run units for every well-formed state
            ctx.ex.obligations[:] = [o for o in ctx.ex.obligations if o.kind == "ensures"]

    def run2(self, ctx):
        a = self.one(ctx, False)
        if a is None:
            return
        b = self.one(ctx, True)
        ctx.ensure("C02 stability: fires as well when a later message has already arrived", z3.BoolVal(b is not None))
        if b is not None:
            j = z3.Int("j!s")
            ga, gb = a[1], b[1]
            ctx.ensure("C02 stability: same messages consumed and the same group handed to the step",
                       z3.And(a[0] == b[0], ga.length() == gb.length(),
                              z3.ForAll([j], z3.Implies(z3.And(ga.lo <= j, j < ga.hi), z3.And([z3.Select(ga.arrs[p], j) == z3.Select(gb.arrs[p], j - ga.lo + gb.lo) for p in ((0,), (1,), (2,), (3,))])))))


# single-consumer table --------------------------------------------------------------------------
EXPECTED_POPPERS = {
    "q_tick": {"_AsyncNodeWrapper.push_scheduled_ts"}, "q_ts_scheduled": {"_AsyncNodeWrapper.push_phase_shift"},
    "q_ts_end_prev": {"_AsyncNodeWrapper.push_phase_shift"}, "q_ts_start": {"_AsyncNodeWrapper.push_step"},
    "q_sample": {"_AsyncNodeWrapper.push_phase_shift", "_AsyncConnectionWrapper.push_ts_input"},
    "q_ts_max": {"_AsyncNodeWrapper.push_phase_shift"}, "q_grouped": {"_AsyncNodeWrapper.push_step"},
    "q_ts_next_step": {"_AsyncConnectionWrapper.push_expected_nonblocking", "_AsyncConnectionWrapper.push_expected_blocking"},
    "q_ts_input": {"_AsyncConnectionWrapper.push_expected_nonblocking", "_AsyncConnectionWrapper.push_ts_max"},
    "q_expected_ts_max": {"_AsyncConnectionWrapper.push_ts_max"}, "q_expected_select": {"_AsyncConnectionWrapper.push_selection"},
    "q_zip_msgs": {"_AsyncConnectionWrapper.push_zip"}, "q_zip_delay": {"_AsyncConnectionWrapper.push_zip"},
    "q_msgs": {"_AsyncConnectionWrapper.push_selection"},
}


class SingleConsumer(Unit):
    """(Q) every event queue is consumed by the handlers of exactly one thread (checked on the extracted sources: who pops what)"""
    name = "single consumer per queue"
    target = None
    kind = "lemma"
    props = ("C02",)

    def run(self, ctx):
        m = ctx.repo.module(aw.AS)
        found = {}
        for cls in m.tree.body:
            if not isinstance(cls, ast.ClassDef):
                continue
            for fn in cls.body:
                if not isinstance(fn, ast.FunctionDef):
                    continue
                for x in ast.walk(fn):
                    if isinstance(x, ast.Call) and isinstance(x.func, ast.Attribute) and x.func.attr in ("popleft", "pop", "clear") and isinstance(x.func.value, ast.Attribute):
                        q = x.func.value.attr
                        if q.startswith("q_"):
                            found.setdefault(q, set()).add(f"{cls.name}.{fn.name}")
        for q in sorted(set(found) | set(EXPECTED_POPPERS)):
            ctx.ensure(f"queue {q} is popped only by {sorted(EXPECTED_POPPERS.get(q, set()))}", z3.BoolVal(found.get(q, set()) <= EXPECTED_POPPERS.get(q, set())))
        # each consumer set lives on one executor: node handlers on the node's, connection handlers on the connection's,
        # except q_sample (one queue object per wrapper) and q_ts_max / q_grouped (popped by the node thread, appended by the connection thread)
        for q, who in EXPECTED_POPPERS.items():
            if q == "q_sample":
                continue
            ctx.ensure(f"queue {q}: all consumers are handlers of one wrapper class", z3.BoolVal(len({w.split('.')[0] for w in who}) == 1))


UNITS = [StabNonblocking(), StabTsMax(), StabSelection(), SingleConsumer()]
