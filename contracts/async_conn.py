"""Contracts on the connection-thread handlers of rex/asynchronous.py:
push_ts_input, push_input, push_zip, push_selection, push_expected_nonblocking, push_expected_blocking, push_ts_max, reset."""
import z3
from pyvc.driver import Unit
from pyvc.values import *
from pyvc import values as V
from pyvc.interp import RaiseEx, LoopSpec
from pyvc import smt
from . import aw
from .aw import World, ASYNC, CLOCK, Ev
from .async_node import COMMON_SUMM, throttle_summary


def mk_conn_world(ctx, cfg):
    w = World(ctx, cfg.get("clock", "SIMULATED"))
    src = w.node("src")
    dst = w.node("dst", state=cfg.get("node_state", "RUNNING"))
    c = w.conn(src, dst, "in0", blocking=cfg.get("blocking", False), jitter=cfg.get("jitter", "LATEST"), state=cfg.get("state", "RUNNING"))
    w.req += [cl for _, cl in aw.wf_conn_clauses(c)]
    w.assume_all()
    return w, c, src, dst


def conn_summaries(extra=()):
    s = dict(COMMON_SUMM)
    s[("_AsyncNodeWrapper", "throttle")] = throttle_summary
    table = {
        "push_selection": aw.frame_push_selection, "push_zip": aw.frame_push_zip, "push_ts_max": aw.frame_push_ts_max,
        "push_expected_nonblocking": aw.frame_push_expected_nonblocking, "push_ts_input": aw.frame_push_ts_input,
    }
    for nm in extra:
        s[("_AsyncConnectionWrapper", nm)] = aw.make_call_summary(nm, table[nm], aw.wf_conn_clauses)
    return s


def kept(q1, q0):
    """the entries of q0 are still stored at the same positions in q1 (nothing rewritten)"""
    j = z3.Int("j!k")
    return z3.And([z3.ForAll([j], z3.Implies(z3.And(q0.lo <= j, j < q0.hi), z3.Select(q1.arrs[p], j) == z3.Select(q0.arrs[p], j))) for p in q0.arrs])


def appended_one(q1, q0):
    return z3.And(q1.lo == q0.lo, q1.hi == q0.hi + 1, kept(q1, q0))


def popped(q1, q0, k):
    return z3.And(q1.lo == q0.lo + k, q1.hi == q0.hi, kept(q1, Seq(q0.schema, q0.arrs, q0.lo + k, q0.hi)))


def finish(ctx, c, pre, allowed):
    aw.frame_check(ctx, aw.reachable(pre), aw.reachable(c), allowed)
    ctx.ensure("no task submitted to a foreign wrapper", z3.BoolVal(not any(e.kind == "bad-submit-target" for e in ctx.ex.ev)))
    ctx.ensure("wf(connection) kept: FIFO receive times, non-negative samples, tick >= 0", z3.And([cl for _, cl in aw.wf_conn_clauses(c)]), props=("C03", "C02"))


# =========================================================================================== push_ts_input
class PushTsInput(Unit):
    name = "push_ts_input"
    target = aw.AS + "::_AsyncConnectionWrapper.push_ts_input"
    props = ("C02", "C03", "C04", "C05x")

    def configs(self):
        for clock in ("SIMULATED", "WALL_CLOCK"):
            for blocking in (True, False):
                for state in ("RUNNING", "READY", "STOPPING", "STOPPED"):
                    yield f"{clock[:3]},{'B' if blocking else 'N'},{state}", dict(clock=clock, blocking=blocking, state=state)

    def summaries(self, cfg):
        s = conn_summaries(["push_zip", "push_ts_max", "push_expected_nonblocking"])
        s[("_AsyncNodeWrapper", "now")] = lambda ex, o, a, k, n: ex.fresh("now", REAL)
        return s

    def run(self, ctx):
        ex, cfg = ctx.ex, ctx.cfg
        sim = cfg["clock"] == "SIMULATED"
        w, c, src, dst = mk_conn_world(ctx, cfg)
        hdr = Rec("Header", dict(eps=z3.Int("h.eps"), seq=z3.Int("h.seq"), ts=z3.Real("h.ts")), module="rex/base.py", frozen=True)
        msg = z3.Const("msg", Leaf)
        ctx.require(hdr.f["ts"] >= 0)
        pre = ctx.snapshot(c)
        ctx.call(self_obj=c, args=[msg, hdr])
        finish(ctx, c, pre, aw.frame_push_ts_input(c))
        calls = [e for e in ex.ev if e.kind == "call"]
        accepted = cfg["state"] in ("RUNNING", "READY")
        same_eps = hdr.f["eps"] == dst.f["_eps"]
        if not calls:
            ctx.ensure("C03/C05 isolation: rejected iff not running or the message is from another episode",
                       z3.BoolVal(not accepted) if not accepted else z3.Not(same_eps), props=("C03", "C02"))
            aw.frame_check(ctx, aw.reachable(pre), aw.reachable(c), [], label="rejected => empty frame")
            ctx.ensure("rejected => no events", z3.BoolVal(not ex.ev))
            return
        ctx.ensure("accepted only when READY/RUNNING and from the current episode", z3.And(z3.BoolVal(accepted), same_eps), props=("C03", "C02"))
        names = [e.fn for e in calls]
        ctx.ensure("dispatch: push_zip, then push_ts_max (blocking) / push_expected_nonblocking (non-blocking)",
                   z3.BoolVal(names == ["push_zip", "push_ts_max" if cfg["blocking"] else "push_expected_nonblocking"]), props=("C02", "C03"))
        at_zip, at_next = calls[0].snap, calls[1].snap
        sent = hdr.f["ts"]
        if sim:
            qs = pre.f["q_sample"]
            refill = qs.length() == 0
            delay = z3.If(refill, aw.SAMP(pre.f["_dist_state"], 0), qs.leaf((), 0))
            prev = pre.f["_prev_recv_sc"]
            recv = R6(z3.If(sent + delay >= prev, sent + delay, prev))
            ctx.probe("sent", sent); ctx.probe("delay", delay); ctx.probe("prev_recv", prev)
            ctx.ensure("C04 receive time = R6(max(sent + sampled delay, previous receive time)); FIFO register updated",
                       z3.And(at_zip.f["_prev_recv_sc"] == recv, delay >= 0,
                              at_zip.f["_dist_state"] == z3.If(refill, aw.NEXT(pre.f["_dist_state"]), pre.f["_dist_state"])), props=("C04", "C03", "C02"))
            ctx.ensure("C03 FIFO: receive times never decrease", recv >= prev, props=("C03",))
            ctx.ensure("C03 causal up to the rounding grid: recv >= sent - 5e-7", recv >= sent - z3.RealVal("5e-7"), props=("C03",))
            ctx.ensure("C03 literal causality: recv >= sent", recv >= sent, props=("C03",))
        else:
            recv = at_zip.f["q_zip_delay"].leaf((), pre.f["q_zip_delay"].length()) + sent
        qz0, qz1 = pre.f["q_zip_delay"], at_zip.f["q_zip_delay"]
        ctx.ensure("communication delay recv - sent queued for the zip stage (exactly one)",
                   z3.And(appended_one(qz1, qz0), qz1.leaf((), qz0.length()) == recv - sent), props=("C03", "C04"))
        qi0, qi1 = calls[0].snap.f["q_ts_input"], at_next.f["q_ts_input"]
        # q_ts_input is not in push_zip's frame, so at the second call it is pre ++ [(seq, recv)]
        ctx.ensure("C03 (header.seq, recv) appended to the timestamp stream exactly once, after the zip stage ran",
                   z3.And(aw.same(qi0, pre.f["q_ts_input"]), appended_one(qi1, pre.f["q_ts_input"]),
                          qi1.leaf((0,), qi0.length()) == hdr.f["seq"], qi1.leaf((1,), qi0.length()) == recv), props=("C03", "C02", "C04"))

    def replay(self, label, clause, probes, model):
        return {"kind": "push_ts_input", "label": label, "probes": probes}


# =========================================================================================== push_input
class PushInput(Unit):
    name = "push_input"
    target = aw.AS + "::_AsyncConnectionWrapper.push_input"
    props = ("C02", "C03")

    def configs(self):
        for clock in ("SIMULATED", "WALL_CLOCK"):
            for state in ("RUNNING", "STOPPED"):
                yield f"{clock[:3]},{state}", dict(clock=clock, state=state, blocking=False)

    def summaries(self, cfg):
        return conn_summaries(["push_zip", "push_ts_input"])

    def run(self, ctx):
        ex, cfg = ctx.ex, ctx.cfg
        w, c, src, dst = mk_conn_world(ctx, cfg)
        hdr = Rec("Header", dict(eps=z3.Int("h.eps"), seq=z3.Int("h.seq"), ts=z3.Real("h.ts")), module="rex/base.py", frozen=True)
        msg = z3.Const("msg", Leaf)
        pre = ctx.snapshot(c)
        ctx.call(self_obj=c, args=[msg, hdr])
        fr = aw.frame_push_zip(c) + (aw.frame_push_ts_input(c) if cfg["clock"] == "WALL_CLOCK" else [])
        finish(ctx, c, pre, fr)
        calls = [e for e in ex.ev if e.kind == "call"]
        accepted = cfg["state"] in ("RUNNING", "READY")
        same_eps = hdr.f["eps"] == dst.f["_eps"]
        if not calls:
            ctx.ensure("C03/C05 isolation: rejected iff not running or from another episode", z3.BoolVal(not accepted) if not accepted else z3.Not(same_eps))
            aw.frame_check(ctx, aw.reachable(pre), aw.reachable(c), [], label="rejected => empty frame")
            return
        ctx.ensure("accepted only when running and from the current episode", z3.And(z3.BoolVal(accepted), same_eps))
        want = ["push_ts_input", "push_zip"] if cfg["clock"] == "WALL_CLOCK" else ["push_zip"]
        ctx.ensure("dispatch order", z3.BoolVal([e.fn for e in calls] == want))
        at = calls[-1].snap
        base = calls[-2].snap if len(calls) > 1 else None
        q0 = pre.f["q_zip_msgs"] if cfg["clock"] == "SIMULATED" else None
        q1 = at.f["q_zip_msgs"]
        if q0 is not None:
            ctx.ensure("C03 (payload, header) queued exactly once for the zip stage",
                       z3.And(appended_one(q1, q0), q1.leaf((0,), q0.length()) == msg, q1.leaf((1, "seq"), q0.length()) == hdr.f["seq"],
                              q1.leaf((1, "ts"), q0.length()) == hdr.f["ts"], q1.leaf((1, "eps"), q0.length()) == hdr.f["eps"]))
        else:
            ctx.ensure("C03 (payload, header) is the newest zip entry", z3.And(q1.length() >= 1, q1.leaf((0,), q1.length() - 1) == msg, q1.leaf((1, "seq"), q1.length() - 1) == hdr.f["seq"]))


# =========================================================================================== push_zip
class PushZip(Unit):
    name = "push_zip"
    target = aw.AS + "::_AsyncConnectionWrapper.push_zip"
    props = ("C02", "C03", "C04")

    def configs(self):
        for clock in ("SIMULATED", "WALL_CLOCK"):
            yield clock[:3], dict(clock=clock, blocking=False)

    def summaries(self, cfg):
        return conn_summaries(["push_selection"])

    def run(self, ctx):
        ex, cfg = ctx.ex, ctx.cfg
        sim = cfg["clock"] == "SIMULATED"
        w, c, src, dst = mk_conn_world(ctx, cfg)
        pre = ctx.snapshot(c)
        ctx.call(self_obj=c)
        finish(ctx, c, pre, aw.frame_push_zip(c))
        calls = [e for e in ex.ev if e.kind == "call"]
        guard = z3.And(pre.f["q_zip_msgs"].length() > 0, pre.f["q_zip_delay"].length() > 0)
        if not calls:
            ctx.ensure("not fired => guard false", z3.Not(guard), props=("C02", "C03"))
            aw.frame_check(ctx, aw.reachable(pre), aw.reachable(c), [], label="not fired => empty frame")
            ctx.ensure("not fired => no events", z3.BoolVal(not ex.ev))
            return
        ctx.ensure("fired => guard", guard, props=("C02", "C03"))
        ctx.ensure("exactly one push_selection", z3.BoolVal([e.fn for e in calls] == ["push_selection"]))
        at = calls[0].snap
        qm, qd = pre.f["q_zip_msgs"], pre.f["q_zip_delay"]
        ctx.ensure("C03 k-th payload paired with k-th delay: one popped from each", z3.And(popped(at.f["q_zip_msgs"], qm, 1), popped(at.f["q_zip_delay"], qd, 1)), props=("C03", "C02"))
        q0, q1 = pre.f["q_msgs"], at.f["q_msgs"]
        sent, d = qm.leaf((1, "ts"), 0), qd.leaf((), 0)
        recv = R6(sent + d) if sim else sent + d
        k = q0.length()
        ctx.ensure("C03/C04 message record = (seq_out = header.seq, ts_sent = header.ts, ts_recv = sent + delay (R6 under the simulated clock), delay), payload kept",
                   z3.And(appended_one(q1, q0), q1.leaf((0, "seq_out"), k) == qm.leaf((1, "seq"), 0), q1.leaf((0, "ts_sent"), k) == sent,
                          q1.leaf((0, "ts_recv"), k) == recv, q1.leaf((0, "delay"), k) == d, q1.leaf((1,), k) == qm.leaf((0,), 0)), props=("C03", "C04", "C02", "C13"))
        th = [e for e in ex.ev if e.kind == "throttle"]
        ctx.ensure("throttle sees only the receive time", z3.And(z3.BoolVal(len(th) == 1), toz(th[0].args[0]) == recv) if th else z3.BoolVal(False), props=("C02",))


# =========================================================================================== push_selection
class PushSelection(Unit):
    name = "push_selection"
    target = aw.AS + "::_AsyncConnectionWrapper.push_selection"
    props = ("C01", "C02", "C03", "C13")

    def configs(self):
        yield "SIM", dict(clock="SIMULATED", blocking=False)

    def summaries(self, cfg):
        return conn_summaries([])

    def run(self, ctx):
        ex, cfg = ctx.ex, ctx.cfg
        w, c, src, dst = mk_conn_world(ctx, cfg)
        pre = ctx.snapshot(c)
        qm0, rm0 = pre.f["q_msgs"], pre.f["_record_messages"]
        tick0 = pre.f["_tick"]
        roles_ps = aw.Roles()

        def inv(ex_, k):
            env = ex_.frame.env
            g = roles_ps.get(env, "grouped", aw.is_empty_list)
            qm, rm = c.f["q_msgs"], c.f["_record_messages"]
            j = z3.Int("j!ps")
            parts = [qm.lo == qm0.lo + k, qm.hi == qm0.hi, rm.lo == rm0.lo, rm.hi == rm0.hi + k, aw.same(roles_ps.get(env, "tick", aw.is_term(tick0)), tick0)]
            parts += [aw.same(qm.arrs[p], qm0.arrs[p]) for p in qm0.arrs]
            parts.append(kept(rm, rm0))
            M = lambda p, t: z3.Select(qm0.arrs[p], qm0.lo + t)
            R = lambda p, t: z3.Select(rm.arrs[p], rm0.hi + t)
            parts.append(z3.ForAll([j], z3.Implies(z3.And(0 <= j, j < k), z3.And(
                R(("seq_out",), j) == M((0, "seq_out"), j), R(("seq_in",), j) == tick0, R(("ts_sent",), j) == M((0, "ts_sent"), j),
                R(("ts_recv",), j) == M((0, "ts_recv"), j), R(("delay",), j) == M((0, "delay"), j)))))
            if isinstance(g, list):
                parts.append(z3.BoolVal(len(g) == 0) if True else None)
                parts.append(k == 0)
            else:
                parts.append(g.length() == k)
                parts.append(z3.ForAll([j], z3.Implies(z3.And(g.lo <= j, j < g.hi), z3.And(
                    z3.Select(g.arrs[(0,)], j) == M((0, "seq_out"), j - g.lo), z3.Select(g.arrs[(1,)], j) == M((0, "ts_sent"), j - g.lo),
                    z3.Select(g.arrs[(2,)], j) == M((0, "ts_recv"), j - g.lo), z3.Select(g.arrs[(3,)], j) == M((1,), j - g.lo)))))
            return z3.And([toz(p) for p in parts])

        ex.loops[("push_selection", 1)] = LoopSpec(inv, modifies=["self.q_msgs", "self._record_messages", "grouped"], schemas={"grouped": aw.GROUPED_ELEM})
        ctx.call(self_obj=c)
        finish(ctx, c, pre, aw.frame_push_selection(c))
        subs = [e for e in ex.ev if e.kind == "submit"]
        qe = pre.f["q_expected_select"]
        num = qe.leaf((1,), 0)
        guard = z3.And(qe.length() > 0, qm0.length() >= num)
        if not subs:
            ctx.ensure("not fired => guard false", z3.Not(guard), props=("C02", "C03"))
            aw.frame_check(ctx, aw.reachable(pre), aw.reachable(c), [], label="not fired => empty frame")
            return
        ctx.ensure("fired => guard", guard, props=("C02", "C03"))
        ctx.require(num >= 0)  # producers only queue counts >= 0 (proved for push_expected_*)
        ctx.ensure("exactly one push_step task, on the consuming node's executor", z3.BoolVal(len(subs) == 1 and subs[0].fn == "push_step" and subs[0].target.oid == dst.oid), props=("C02", "C03"))
        ctx.ensure("expectation consumed", popped(c.f["q_expected_select"], qe, 1), props=("C03",))
        ctx.ensure("C03 gap-free grouping ticks: _tick' = _tick + 1", c.f["_tick"] == tick0 + 1, props=("C03",))
        qm1, rm1 = c.f["q_msgs"], c.f["_record_messages"]
        ctx.ensure("C03 exactly the `num` oldest messages leave the queue, in order", popped(qm1, qm0, num), props=("C03", "C02"))
        j = z3.Int("j!e")
        M = lambda p, t: z3.Select(qm0.arrs[p], qm0.lo + t)
        R = lambda p, t: z3.Select(rm1.arrs[p], rm0.hi + t)
        ctx.ensure("C03/C13 every consumed message is recorded once, in order, with seq_in = this grouping tick",
                   z3.And(rm1.lo == rm0.lo, rm1.hi == rm0.hi + num, kept(rm1, rm0),
                          z3.ForAll([j], z3.Implies(z3.And(0 <= j, j < num), z3.And(
                              R(("seq_out",), j) == M((0, "seq_out"), j), R(("seq_in",), j) == tick0, R(("ts_sent",), j) == M((0, "ts_sent"), j),
                              R(("ts_recv",), j) == M((0, "ts_recv"), j), R(("delay",), j) == M((0, "delay"), j))))), props=("C03", "C13"))
        qg0, qg1 = pre.f["q_grouped"], c.f["q_grouped"]
        g = qg1.at(qg0.length())
        win = c.f["connection"].f["window"]
        glen = z3.If(num < win, num, win)
        GA = lambda p, i: z3.Select(g.arrs[p], i)      # absolute index into the group's storage, so the trigger matches every read of it
        off = lambda i: num - glen + (i - g.lo)
        ctx.ensure("C03/C01 the group handed to the step = the last `window` of the consumed messages, oldest first",
                   z3.And(qg1.lo == qg0.lo, qg1.hi == qg0.hi + 1, g.length() == glen,
                          z3.ForAll([j], z3.Implies(z3.And(g.lo <= j, j < g.hi), z3.And(
                              GA((0,), j) == M((0, "seq_out"), off(j)), GA((1,), j) == M((0, "ts_sent"), off(j)),
                              GA((2,), j) == M((0, "ts_recv"), off(j)), GA((3,), j) == M((1,), off(j)))))), props=("C01", "C03"))


# =========================================================================================== push_ts_max
def running_max_spec(c, qi, total):
    """OPTIONAL invariant, used only if push_ts_max computes its maximum with an explicit loop (the pinned code uses max([0.0] + [...]) and has no loop):
    after k iterations the accumulator is the running maximum max(0, recv_0 .. recv_{k-1}) of the arrivals at the head of q_ts_input; if the loop
    pops as it goes, exactly k entries have left the queue."""
    roles = aw.Roles()
    variant = {}
    lo0 = qi.lo
    recv = lambda t: z3.Select(qi.arrs[(1,)], lo0 + t)
    is_zero_num = lambda v: (isinstance(v, (int, float)) and not isinstance(v, bool) and v == 0) or (is_sym(v) and z3.is_rational_value(z3.simplify(toz(v))) and z3.simplify(toz(v)).as_fraction() == 0)

    def inv(ex_, k):
        acc = toz(roles.get(ex_.frame.env, "ts_max", is_zero_num, exclude=("num_msgs",)))
        if acc.sort() == INT:
            acc = z3.ToReal(acc)
        j, wit = z3.Int("j!rm"), z3.Int("w!rm")
        q = c.f["q_ts_input"]
        if "inside" not in variant:        # fixed at loop entry: nothing popped yet => the loop pops as it goes; otherwise everything was popped before the loop
            variant["inside"] = z3.eq(z3.simplify(toz(q.lo)), z3.simplify(toz(lo0)))
        pops_inside = (q.lo == lo0 + k) if variant["inside"] else (q.lo == lo0 + total)
        unchanged = z3.And(q.hi == qi.hi, *[toz(aw.same(q.arrs[p_], qi.arrs[p_])) for p_ in qi.arrs])      # only heads leave the queue; contents are never rewritten
        return z3.And(acc >= 0, z3.ForAll([j], z3.Implies(z3.And(0 <= j, j < k), acc >= recv(j))), z3.Or(acc == 0, z3.Exists([wit], z3.And(0 <= wit, wit < k, acc == recv(wit)))), pops_inside, unchanged)
    return LoopSpec(inv, modifies=["self.q_ts_input"])


class PushTsMax(Unit):
    name = "push_ts_max"
    target = aw.AS + "::_AsyncConnectionWrapper.push_ts_max"
    props = ("C02", "C03", "C04")

    def configs(self):
        yield "SIM,B", dict(clock="SIMULATED", blocking=True)

    def summaries(self, cfg):
        return conn_summaries([])

    def run(self, ctx):
        ex = ctx.ex
        w, c, src, dst = mk_conn_world(ctx, ctx.cfg)
        pre = ctx.snapshot(c)
        qe, qi = pre.f["q_expected_ts_max"], pre.f["q_ts_input"]
        j = z3.Int("j!tm")
        ctx.require(z3.ForAll([j], z3.Implies(z3.And(qe.lo <= j, j < qe.hi), z3.Select(qe.arrs[()], j) >= 0)))  # counts queued by push_expected_blocking are >= 0 (its contract)
        ex.loops[("push_ts_max", 1)] = running_max_spec(c, qi, qe.leaf((), 0))
        ctx.call(self_obj=c)
        finish(ctx, c, pre, aw.frame_push_ts_max(c))
        subs = [e for e in ex.ev if e.kind == "submit"]
        k = qe.leaf((), 0)
        guard = z3.And(qe.length() > 0, k <= qi.length())
        if not subs:
            ctx.ensure("not fired => guard false", z3.Not(guard), props=("C02", "C03"))
            aw.frame_check(ctx, aw.reachable(pre), aw.reachable(c), [], label="not fired => empty frame")
            return
        ctx.ensure("fired => guard", guard, props=("C02", "C03"))
        ctx.ensure("exactly one push_phase_shift task on the consuming node's executor", z3.BoolVal(len(subs) == 1 and subs[0].fn == "push_phase_shift" and subs[0].target.oid == dst.oid), props=("C02",))
        ctx.ensure("expected count consumed; exactly that many timestamps leave the stream, oldest first", z3.And(popped(c.f["q_expected_ts_max"], qe, 1), popped(c.f["q_ts_input"], qi, k)), props=("C03", "C04"))
        q0, q1 = pre.f["q_ts_max"], c.f["q_ts_max"]
        m = q1.leaf((), q0.length())
        recv = lambda t: z3.Select(qi.arrs[(1,)], qi.lo + t)
        wit = z3.Int("wit")
        ctx.ensure("C04 ts_max = latest arrival among exactly the messages this step waits for (0 if none)",
                   z3.And(appended_one(q1, q0), m >= 0, z3.ForAll([j], z3.Implies(z3.And(0 <= j, j < k), m >= recv(j))),
                          z3.Or(m == 0, z3.Exists([wit], z3.And(0 <= wit, wit < k, m == recv(wit))))), props=("C04", "C03", "C02"))


# =========================================================================================== push_expected_nonblocking
def stop_cond(c, seq, ts, t, jitter):
    """the message at the head must NOT be taken by a step starting at t"""
    skip = c.f["connection"].f["skip"]
    late = z3.Or(ts > t, z3.And(skip, ts == t)) if jitter == "LATEST" else None
    if jitter == "LATEST":
        return late
    rate = c.f["connection"].f["output_node"].f["rate"]
    expected = V.RDIV(z3.ToReal(seq), rate) + c.f["_phase"]     # the units that use this run with opts['opaque_div']
    return z3.Or(expected > t, ts > t)


class PushExpectedNonblocking(Unit):
    name = "push_expected_nonblocking"
    target = aw.AS + "::_AsyncConnectionWrapper.push_expected_nonblocking"
    props = ("C02", "C03")

    def configs(self):
        for clock in ("SIMULATED", "WALL_CLOCK"):
            for jit in ("LATEST", "BUFFER"):
                yield f"{clock[:3]},{jit}", dict(clock=clock, jitter=jit, blocking=False)

    def opts(self, cfg):
        return {"opaque_div": True}

    def summaries(self, cfg):
        return conn_summaries(["push_selection"])

    def run(self, ctx):
        ex, cfg = ctx.ex, ctx.cfg
        sim = cfg["clock"] == "SIMULATED"
        w, c, src, dst = mk_conn_world(ctx, cfg)
        pre = ctx.snapshot(c)
        qi, qn = pre.f["q_ts_input"], pre.f["q_ts_next_step"]
        t = qn.leaf((1,), 0)
        S = lambda idx: z3.Select(qi.arrs[(0,)], qi.lo + idx)
        T = lambda idx: z3.Select(qi.arrs[(1,)], qi.lo + idx)
        stop = lambda idx: stop_cond(c, S(idx), T(idx), t, cfg["jitter"])
        roles = aw.Roles()

        def inv(ex_, k):
            env = ex_.frame.env
            j = z3.Int("j!en")
            return z3.And(toz(roles.get(env, "num_msgs", aw.is_zero)) == k, toz(roles.get(env, "ts_step", aw.is_term(t))) == t, z3.ForAll([j], z3.Implies(z3.And(0 <= j, j < k), z3.Not(stop(j)))),
                          aw.same(c.f["q_ts_input"], qi))

        ex.loops[("push_expected_nonblocking", 1)] = LoopSpec(inv)
        ctx.call(self_obj=c)
        finish(ctx, c, pre, aw.frame_push_expected_nonblocking(c))
        calls = [e for e in ex.ev if e.kind == "call"]
        j = z3.Int("j!g")
        future = z3.Exists([j], z3.And(0 <= j, j < qi.length(), T(j) > t))
        guard = z3.And(qn.length() > 0, qi.length() > 0, future) if sim else qn.length() > 0
        if not calls:
            ctx.ensure("not fired => guard false (waits for a timestamp strictly in the future)", z3.Not(guard), props=("C02", "C03"))
            aw.frame_check(ctx, aw.reachable(pre), aw.reachable(c), [], label="not fired => empty frame")
            ctx.ensure("not fired => no events", z3.BoolVal(not ex.ev))
            return
        ctx.ensure("fired => guard", guard, props=("C02", "C03"))
        ctx.ensure("exactly one push_selection", z3.BoolVal([e.fn for e in calls] == ["push_selection"]))
        at = calls[0].snap
        k = at.f["q_ts_input"].lo - qi.lo
        ctx.probe("k", k); ctx.probe("t", t)
        ctx.ensure("next-step entry consumed", popped(at.f["q_ts_next_step"], qn, 1), props=("C03",))
        ctx.ensure("timestamps leave the stream oldest first, nothing rewritten", z3.And(k >= 0, k <= qi.length(), popped(at.f["q_ts_input"], qi, k)), props=("C03",))
        rule = "recv <= t (recv < t if skipped)" if cfg["jitter"] == "LATEST" else "recv <= t and seq/rate + phase <= t"
        ctx.ensure(f"C03 consumption rule: the step starting at t takes exactly the maximal prefix of queued messages with {rule}",
                   z3.And(z3.ForAll([j], z3.Implies(z3.And(0 <= j, j < k), z3.Not(stop(j)))), z3.Or(k == qi.length(), stop(k))), props=("C03", "C02"))
        if sim and cfg["jitter"] == "LATEST":
            ctx.ensure("C03 (with FIFO receive times) no message that arrived by t is left behind: every remaining one is late",
                       z3.ForAll([j], z3.Implies(z3.And(k <= j, j < qi.length()), stop(j))), props=("C03",))
            ctx.ensure("C02 stability: the decision does not depend on how much of the stream has arrived (k < len, the deciding entry is present)", k < qi.length(), props=("C02",))
        q0, q1 = pre.f["q_expected_select"], at.f["q_expected_select"]
        ctx.ensure("(t, k) queued for the selection stage", z3.And(appended_one(q1, q0), q1.leaf((0,), q0.length()) == t, q1.leaf((1,), q0.length()) == k, k >= 0), props=("C03", "C02"))

    def replay(self, label, clause, probes, model):
        return {"kind": "push_expected_nonblocking", "label": label, "probes": probes}


UNITS = [PushTsInput(), PushInput(), PushZip(), PushSelection(), PushTsMax(), PushExpectedNonblocking()]


# =========================================================================================== push_expected_blocking
CNT = z3.Function("blocking_count", INT, INT)


class PushExpectedBlocking(Unit):
    """how many producer messages a blocking step takes: the producer ticks j >= 0 whose scheduled output time
    T(j) = R6(j/rate_in + phase_in) falls in (t_low, t_high] ([t_low, t_high) if skipped; step 0 also takes everything earlier)"""
    name = "push_expected_blocking"
    target = aw.AS + "::_AsyncConnectionWrapper.push_expected_blocking"
    props = ("C02", "C03")

    def configs(self):
        yield "SIM,B", dict(clock="SIMULATED", blocking=True)

    def summaries(self, cfg):
        return conn_summaries(["push_ts_max", "push_selection"])

    def opts(self, cfg):
        return {"no_ifexp_merge": True}   # fork on `N_node > 0` so that the start index is a plain term on each path

    def setup(self, ctx):
        ex = ctx.ex
        w, c, src, dst = mk_conn_world(ctx, ctx.cfg)
        conn = c.f["connection"]
        pre = ctx.snapshot(c)
        qn = pre.f["q_ts_next_step"]
        N = qn.leaf((0,), 0)
        rate_in, rate_node = conn.f["output_node"].f["rate"], conn.f["input_node"].f["rate"]
        phase_in, phase_node = R6(conn.f["output_node"].f["phase"]), R6(conn.f["input_node"].f["phase"])
        skip = conn.f["skip"]
        ctx.require(N >= 0)                       # ticks are counted from 0 (push_scheduled_ts contract)
        ctx.require(rate_in <= 100000)            # a producer period exceeds the 1e-6 rounding grid
        ctx.require(conn.f["output_node"].f["phase"] >= 0)
        ctx.require(conn.f["input_node"].f["phase"] >= 0)
        t_high = R6((1 / rate_node) * z3.ToReal(N) + phase_node)
        t_low = R6((1 / rate_node) * z3.ToReal(N - 1) + phase_node)
        T = lambda j: R6(z3.ToReal(j) / rate_in + phase_in)

        def qual(j):
            t = T(j)
            first = z3.And(N == 0, z3.Or(z3.And(z3.Not(skip), t <= t_low), z3.And(skip, t < t_low)))
            mid = z3.Or(z3.And(z3.Not(skip), t_low < t, t <= t_high), z3.And(skip, t_low <= t, t < t_high))
            return z3.And(t >= phase_in, z3.Or(first, mid))

        return w, c, dst, pre, N, rate_in, phase_in, t_low, t_high, T, qual, skip

    def run(self, ctx):
        ex = ctx.ex
        w, c, dst, pre, N, rate_in, phase_in, t_low, t_high, T, qual, skip = self.setup(ctx)
        i0 = z3.Int("i0")  # ghost: the start index chosen by the code, captured at loop entry
        j = z3.Int("j!pb")
        holder = {}
        roles = aw.Roles()

        def inv(ex_, k):
            env = ex_.frame.env
            # the count of qualifying producer ticks so far is kept either as a list of their times (len) or as an integer counter
            i, t, tt = roles.get(env, "i"), roles.get(env, "t"), roles.get(env, "text_t", lambda v: aw.is_empty_list(v) or aw.is_zero(v), exclude=("i", "flag", "N_node"))
            if "i0" not in holder:
                holder["i0"] = i  # value at loop entry (init obligation is evaluated first)
                # definition of the ghost counter relative to the start index (conservative extension)
                ex_.assume(CNT(toz(i)) == 0)
                ex_.assume(z3.ForAll([j], z3.Implies(j >= toz(i), CNT(j + 1) == CNT(j) + z3.If(qual(j), 1, 0)), patterns=[CNT(j + 1)]))
            s = toz(holder["i0"])
            n = len(tt) if isinstance(tt, list) else (tt.length() if hasattr(tt, "length") else toz(tt))
            return z3.And(toz(i) >= s, toz(t) == T(toz(i)), toz(n) == CNT(toz(i)), z3.ForAll([j], z3.Implies(z3.And(s <= j, j < toz(i)), T(j) <= t_high)),
                          aw.same(c.f["q_ts_next_step"], Seq(pre.f["q_ts_next_step"].schema, pre.f["q_ts_next_step"].arrs, pre.f["q_ts_next_step"].lo + 1, pre.f["q_ts_next_step"].hi)))

        ex.loops[("push_expected_blocking", 1)] = LoopSpec(inv, schemas={"text_t": ConstSchema("<str>")})
        ctx.call(self_obj=c)
        fr = [(c, f) for f in ("q_ts_next_step", "q_expected_ts_max", "q_expected_select")] + aw.frame_push_ts_max(c) + aw.frame_push_selection(c)
        finish(ctx, c, pre, fr)
        calls = [e for e in ex.ev if e.kind == "call"]
        if not calls:
            ctx.ensure("not fired => no pending step", pre.f["q_ts_next_step"].length() == 0)
            aw.frame_check(ctx, aw.reachable(pre), aw.reachable(c), [], label="not fired => empty frame")
            return
        ctx.ensure("dispatch: push_ts_max then push_selection", z3.BoolVal([e.fn for e in calls] == ["push_ts_max", "push_selection"]))
        at1, at2 = calls[0].snap, calls[1].snap
        s = toz(holder["i0"]) if "i0" in holder else None
        num = at1.f["q_expected_ts_max"].leaf((), pre.f["q_expected_ts_max"].length())
        iend = z3.Int("i_end")
        ctx.ensure("next-step entry consumed", popped(at1.f["q_ts_next_step"], pre.f["q_ts_next_step"], 1))
        ctx.ensure("count queued once for ts_max and once (with the scheduled time) for the selection",
                   z3.And(appended_one(at1.f["q_expected_ts_max"], pre.f["q_expected_ts_max"]), num >= 0,
                          at2.f["q_expected_select"].hi == at1.f["q_expected_select"].hi + 1,
                          at2.f["q_expected_select"].leaf((1,), at1.f["q_expected_select"].length()) == num,
                          at2.f["q_expected_select"].leaf((0,), at1.f["q_expected_select"].length()) == pre.f["q_ts_next_step"].leaf((1,), 0)), props=("C03", "C02"))
        if s is not None:
            ctx.ensure("C03 blocking rule: count = number of qualifying producer ticks from the start index up to the first tick scheduled after t_high",
                       z3.Exists([iend], z3.And(iend >= s, num == CNT(iend), T(iend) > t_high, z3.ForAll([j], z3.Implies(z3.And(s <= j, j < iend), T(j) <= t_high)))), props=("C03",))
            # start-index lemma, split so that the solver only needs linear reasoning over the product terms:
            jj = z3.Int("jj")           # an arbitrary producer tick (free constant = universally quantified)
            dt = 1 / rate_in
            h1 = z3.And(z3.ToReal(jj) / rate_in == z3.ToReal(jj) * dt, z3.ToReal(s) / rate_in == z3.ToReal(s) * dt)
            h2 = z3.Implies(jj + 1 <= s, z3.ToReal(jj + 1) * dt <= z3.ToReal(s) * dt)
            h3 = dt >= z3.RealVal("1e-5")
            ctx.ensure("lemma: x / r = x * (1 / r)", h1, props=("C03",))
            ctx.ensure("lemma: multiplication by the positive period is monotone", h2, props=("C03",))
            ctx.ensure("lemma: rate <= 1e5 => period >= 1e-5", h3, props=("C03",))
            ctx.ensure("C03 start index: no qualifying producer tick below it (floor-division fact)",
                       z3.Implies(z3.And(h1, h2, h3), z3.Implies(z3.And(0 <= jj, jj < s), z3.Not(qual(jj)))), props=("C03",),
                       hyps=lambda h: not smt._contains_quant(h))
            h4 = z3.Implies(jj <= -1, z3.ToReal(jj) * dt <= -dt)
            ctx.ensure("lemma: negative multiples of the period are <= -period", h4, props=("C03",))
            ctx.ensure("C03 a start index below 0 is harmless: ticks j < 0 are before the producer's phase and never qualify",
                       z3.Implies(z3.And(h1, h3, h4), z3.Implies(jj < 0, z3.Not(qual(jj)))), props=("C03",), hyps=lambda h: not smt._contains_quant(h))
        a, b = z3.Ints("m!a m!b")
        ctx.ensure("C03 producer schedule is monotone, so no qualifying tick after the first one beyond t_high", z3.ForAll([a, b], z3.Implies(z3.And(0 <= a, a <= b), T(a) <= T(b))), props=("C03",))
        ctx.ensure("C03 intervals of consecutive steps partition the time line: t_high(N) is t_low(N+1)",
                   R6((1 / c.f["connection"].f["input_node"].f["rate"]) * z3.ToReal(N) + R6(c.f["connection"].f["input_node"].f["phase"])) == t_high, props=("C03",))


UNITS.append(PushExpectedBlocking())
