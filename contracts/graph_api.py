"""C09 (and the supervisor part of C06 / C13): rex/graph.py Graph.run / step / reset / rollout / run_supervisor, GraphState.replace_eps / replace_step."""
import z3
from pyvc.driver import Unit
from pyvc.values import *
from pyvc import values as V
from pyvc.interp import RaiseEx, LoopSpec
from . import aw
from .compiled import BASE, PR, mk_window, mk_input_state, mk_steps_record, StepCounter, aw_rs

GR = "rex/graph.py"
RUS = z3.Function("run_until_supervisor", Leaf, Leaf)
RS = z3.Function("run_supervisor", Leaf, Leaf, Leaf, Leaf)
SS_OF = z3.Function("step_state_of", Leaf, Leaf)   # gs.step_state[supervisor]
NONE = z3.Const("None!leaf", Leaf)
RUN_N = z3.Function("run_n", INT, Leaf, Leaf)
REPL_EPS = z3.Function("replace_eps", Leaf, Leaf)
REPL_STEP = z3.Function("replace_step", Leaf, Leaf)


class _StepStates:
    def __init__(self, gs):
        self.gs = gs

    def pyvc_getitem(self, ex, i):
        return SS_OF(self.gs)


def leaf_attr(ex, o, attr):
    if attr == "step_state":
        return _StepStates(o)
    if attr in ("eps", "step"):
        return z3.Function("gs_" + attr, Leaf, INT)(o)
    if attr == "replace_eps":
        return lambda ex_, timings, eps=None: REPL_EPS(o)
    if attr == "replace_step":
        return lambda ex_, timings, step=None: REPL_STEP(o)
    return None


def mk_graph():
    sup = Rec("BaseNode", dict(name="sup"), module=None)
    return Rec("Graph", dict(supervisor=sup, _timings=Opaque("timings")), module=GR)


def api_summaries():
    def rus(ex, self_obj, args, kwargs, node):
        return RUS(args[0])

    def rs(ex, self_obj, args, kwargs, node):
        a = list(args) + [None] * (3 - len(args))
        a[1] = kwargs.get("step_state", a[1])
        a[2] = kwargs.get("output", a[2])
        return RS(a[0], a[1] if a[1] is not None else NONE, a[2] if a[2] is not None else NONE)
    return {("Graph", "run_until_supervisor"): rus, ("Graph", "run_supervisor"): rs}


class GraphApi(Unit):
    """run = RS . RUS ; step = RUS . RS ; reset = RUS  (RUS, RS are the two functions verified separately)"""
    props = ("C09",)

    def __init__(self, which):
        self.which = which
        self.name = f"Graph.{which}"
        self.target = f"{GR}::Graph.{which}"

    def summaries(self, cfg):
        return api_summaries()

    def opts(self, cfg):
        return {"leaf_attr": leaf_attr}

    def configs(self):
        if self.which == "step":
            yield "own step", dict(override=False)
            yield "override", dict(override=True)
        else:
            yield "default", {}

    def run(self, ctx):
        g = mk_graph()
        gs = z3.Const("gs", Leaf)
        pre = ctx.snapshot(g)
        if self.which == "run":
            ret = ctx.call(self_obj=g, args=[gs])
            ctx.ensure("C09 run(gs) = run_supervisor(run_until_supervisor(gs)) with the supervisor's own step", toz(aw.same(ret, RS(RUS(gs), NONE, NONE))))
        elif self.which == "reset":
            ret = ctx.call(self_obj=g, args=[gs])
            ok = isinstance(ret, tuple) and len(ret) == 2
            ctx.ensure("C09 reset(gs) = (run_until_supervisor(gs), its supervisor step state)", z3.And(toz(aw.same(ret[0], RUS(gs))), toz(aw.same(ret[1], SS_OF(RUS(gs))))) if ok else z3.BoolVal(False))
        else:
            ss, out = z3.Const("given_ss", Leaf), z3.Const("given_out", Leaf)
            ret = ctx.call(self_obj=g, args=[gs] + ([ss, out] if ctx.cfg["override"] else []))
            mid = RS(gs, ss, out) if ctx.cfg["override"] else RS(gs, NONE, NONE)
            ok = isinstance(ret, tuple) and len(ret) == 2
            ctx.ensure("C09 step(gs, ss, o) = run_until_supervisor(run_supervisor(gs, ss, o)) and returns the supervisor's next step state",
                       z3.And(toz(aw.same(ret[0], RUS(mid))), toz(aw.same(ret[1], SS_OF(RUS(mid))))) if ok else z3.BoolVal(False))
        aw.frame_check(ctx, aw.reachable(pre), aw.reachable(g), [], label="C09 purity: the graph object is not modified")


class ApiLemma(Unit):
    """n x step after reset = run_until_supervisor after n x run (driving API does not matter)"""
    name = "lemma: reset;step^n = run^n;run_until_supervisor"
    target = None
    kind = "lemma"
    props = ("C09",)

    def run(self, ctx):
        gs = z3.Const("gs", Leaf)
        n = z3.Int("n")
        run = lambda x: RS(RUS(x), NONE, NONE)
        step = lambda x: RUS(RS(x, NONE, NONE))
        STEP_N = z3.Function("step_n", INT, Leaf, Leaf)
        x = z3.Const("x", Leaf)
        defs = [z3.ForAll([x], RUN_N(0, x) == x), z3.ForAll([n, x], z3.Implies(n >= 0, RUN_N(n + 1, x) == run(RUN_N(n, x)))),
                z3.ForAll([x], STEP_N(0, x) == x), z3.ForAll([n, x], z3.Implies(n >= 0, STEP_N(n + 1, x) == step(STEP_N(n, x))))]
        for d in defs:
            ctx.require(d)
        k = z3.Int("k")
        ctx.ensure("base: step^0(reset(gs)) = RUS(run^0(gs))", STEP_N(0, RUS(gs)) == RUS(RUN_N(0, gs)))
        ctx.ensure("step: step^k(reset(gs)) = RUS(run^k(gs)) => step^(k+1)(reset(gs)) = RUS(run^(k+1)(gs))",
                   z3.Implies(z3.And(k >= 0, STEP_N(k, RUS(gs)) == RUS(RUN_N(k, gs))), STEP_N(k + 1, RUS(gs)) == RUS(RUN_N(k + 1, gs))))


class Rollout(Unit):
    name = "Graph.rollout"
    target = f"{GR}::Graph.rollout"
    props = ("C09",)

    def configs(self):
        yield "carry_only", dict(carry=True)
        yield "trajectory", dict(carry=False)

    def summaries(self, cfg):
        s = api_summaries()
        s[("Graph", "run")] = lambda ex, o, a, k, n: RS(RUS(a[0]), NONE, NONE)   # Graph.run's own contract (unit Graph.run)
        return s

    def opts(self, cfg):
        seen = {}

        def fori(ex, lo, hi, body, init):
            c = z3.Const("carry!any", Leaf)
            r = ex.call(body, [z3.Int("i!any"), c], {})
            seen["body"] = (c, r)
            seen["lo"] = lo
            return RUN_N(toz(hi) - toz(lo), init)

        def scan(ex, f, init, xs, length):
            c = z3.Const("carry!any", Leaf)
            r = ex.call(f, [c, z3.Int("x!any")], {})
            seen["scan"] = (c, r)
            n = xs.n if isinstance(xs, Arr) else length
            seen["n"] = n
            j = z3.Int("j!sc")
            return RUN_N(toz(n), init), Arr(z3.Lambda([j], RUN_N(j + 1, init)), n)
        self.seen = seen
        return {"leaf_attr": leaf_attr, "fori_loop": fori, "scan": scan}

    def run(self, ctx):
        g = mk_graph()
        g.f["max_steps"] = z3.Int("max_steps")
        gs = z3.Const("gs", Leaf)
        n = z3.Int("n")
        ctx.require(n >= 0)
        ret = ctx.call(self_obj=g, args=[gs], kwargs=dict(max_steps=n, carry_only=ctx.cfg["carry"]))
        start = REPL_STEP(REPL_EPS(gs))
        run = lambda x: RS(RUS(x), NONE, NONE)
        if ctx.cfg["carry"]:
            c, r = self.seen.get("body", (None, None))
            ctx.ensure("C09 the loop body is one run() of the carried graph state, whatever the loop index", toz(aw.same(r, run(c))) if c is not None else z3.BoolVal(False))
            ctx.ensure("C09 rollout(gs, n) = run^n(gs with eps and step clipped)", z3.And(toz(aw.same(ret, RUN_N(n, start))), toz(self.seen.get("lo", 1)) == 0))
        else:
            c, r = self.seen.get("scan", (None, None))
            ok = isinstance(r, tuple) and len(r) == 2
            ctx.ensure("C09 the scan body is one run() of the carry and emits the new state", z3.And(toz(aw.same(r[0], run(c))), toz(aw.same(r[1], run(c)))) if ok else z3.BoolVal(False))
            ctx.ensure("C09 trajectory rollout returns [run^1(gs'), ..., run^n(gs')]", z3.And(z3.BoolVal(isinstance(ret, Arr)), ret.n == n, z3.Select(ret.a, z3.Int("jj")) == RUN_N(z3.Int("jj") + 1, start)) if isinstance(ret, Arr) else z3.BoolVal(False))


class ReplaceClip(Unit):
    """out-of-range episode / step indices are clipped, not wrapped"""
    props = ("C09",)

    def __init__(self, which):
        self.which = which
        self.name = f"GraphState.replace_{which}"
        self.target = f"{BASE}::GraphState.replace_{which}"

    def summaries(self, cfg):
        return {"tree_take": lambda ex, o, a, k, n: ("taken", a[0], a[1])}

    def run(self, ctx):
        E, P = z3.Int("max_eps"), z3.Int("max_step")
        ctx.require(z3.And(E >= 1, P >= 1))

        class Nd:
            shape = (E, P)

            def pyvc_getattr(self, ex, attr):
                if attr == "shape":
                    return (E, P)
                raise Unsupported(attr)
        slot = Rec("SlotVertex", dict(run=Nd()), module=BASE, frozen=True)
        timings = Rec("Timings", dict(slots={"s0": slot}), module=BASE, frozen=True)
        gs = Rec("GraphState", dict(step=z3.Int("gs.step"), eps=z3.Int("gs.eps"), rng={}, seq={}, ts={}, params={}, state={}, inputs={}, timings_eps=Opaque("old"), buffer=None, aux={}), module=BASE, frozen=True)
        v = z3.Int("v")
        ret = ctx.call(self_obj=gs, args=[timings, v])
        clip = lambda x, hi: z3.If(x < 0, 0, z3.If(x > hi - 1, hi - 1, x))
        if self.which == "eps":
            ctx.ensure("C09 eps' = clip(eps, 0, max_eps - 1) and the episode's timings are taken at the clipped index",
                       z3.And(ret.f["eps"] == clip(v, E), z3.BoolVal(isinstance(ret.f["timings_eps"], tuple) and ret.f["timings_eps"][1] is timings), toz(ret.f["timings_eps"][2]) == clip(v, E)
                              if isinstance(ret.f["timings_eps"], tuple) else z3.BoolVal(False), ret.f["step"] == gs.f["step"]))
        else:
            ctx.ensure("C09 step' = clip(step, 0, max_step - 1); nothing else changes", z3.And(ret.f["step"] == clip(v, P), ret.f["eps"] == gs.f["eps"], z3.BoolVal(ret.f["timings_eps"] is gs.f["timings_eps"])))


def _replay_clip(self, label, clause, probes, model):
    return {"kind": "pure", "which": "replace_eps", "probes": probes}


ReplaceClip.replay = _replay_clip


UNITS = [GraphApi("run"), GraphApi("step"), GraphApi("reset"), ApiLemma(), Rollout(), ReplaceClip("eps"), ReplaceClip("step")]


# =========================================================================================== Graph.run_supervisor (real body)
class NdShape:
    def __init__(self, dims):
        self.dims = dims

    def pyvc_getattr(self, ex, attr):
        if attr == "shape":
            return self.dims
        raise Unsupported(attr)


class RunSupervisor(Unit):
    name = "Graph.run_supervisor"
    target = f"{GR}::Graph.run_supervisor"
    props = ("C06", "C09", "C13", "C08")

    def configs(self):
        for override in (False, True):
            for rec, rs in ((False, aw_rs(False)), (True, aw_rs(True)), (True, aw_rs(False))):
                yield f"override={int(override)},record={int(rec)}:{'all' if rs['output'] else 'none'}", dict(override=override, record=rec, rs=rs)

    def run(self, ctx):
        ex, cfg = ctx.ex, ctx.cfg
        ctr = StepCounter()
        sup = Rec("BaseNode", dict(name="sup", inputs={}, outputs={}, step=ctr.make("sup")), module=None)
        E, P = z3.Int("max_eps"), z3.Int("max_step")
        ctx.require(z3.And(E >= 1, P >= 1))
        tslot = Rec("SlotVertex", dict(run=NdShape((E, P)), kind="sup", generation=1), module=BASE, frozen=True)
        timings = Rec("Timings", dict(slots={"sup_0": tslot}), module=BASE, frozen=True)
        g = Rec("Graph", dict(supervisor=sup, _supervisor_kind="sup", _supervisor_slot="sup_0", _timings=timings), module=GR)
        # episode timings of the supervisor slot: one row per step
        eslot = Rec("SlotVertex", dict(seq=Arr.fresh("te.seq", INT, P), ts_start=Arr.fresh("te.ts_start", REAL, P), ts_end=Arr.fresh("te.ts_end", REAL, P), windows={},
                                       run=Arr.fresh("te.run", BOOL, P), kind="sup", generation=1), module=BASE, frozen=True)
        size, rows = z3.Int("sup.bufsize"), z3.Int("record.rows")
        ctx.require(z3.And(size >= 1, rows >= 1))
        buf = {"sup": [Arr.fresh("buffer.sup", Leaf, size)]}
        aux = {}
        if cfg["record"]:
            steps = mk_steps_record("rec.sup", rows, cfg["rs"])
            rec = Rec("EpisodeRecord", dict(nodes={"sup": Rec("NodeRecord", dict(info=None, clock=None, real_time_factor=0, ts_start=0.0, params=None, inputs=None, steps=steps), module=BASE, frozen=True)}), module=BASE, frozen=True)
            aux = {"record": rec}
        step = z3.Int("gs.step")
        gs = Rec("GraphState", dict(step=step, eps=z3.Int("gs.eps"), rng={"sup": z3.Const("sup.rng", Leaf)}, seq={"sup": z3.Int("sup.seq")}, ts={"sup": z3.Real("sup.ts")},
                                    params={"sup": z3.Const("sup.params", Leaf)}, state={"sup": z3.Const("sup.state", Leaf)}, inputs={"sup": {}},
                                    timings_eps=Rec("Timings", dict(slots={"sup_0": eslot}), module=BASE, frozen=True), buffer=buf, aux=aux), module=BASE, frozen=True)
        ctx.require(z3.And(step >= 1, step <= P - 1))   # the documented use: run_until_supervisor has already advanced the step counter (reset() before step())
        seq = z3.Select(eslot.f["seq"].a, step - 1)
        ctx.require(z3.And(seq >= 0, seq < rows))
        over = Rec("StepState", dict(rng=z3.Const("o.rng", Leaf), state=z3.Const("o.state", Leaf), params=z3.Const("o.params", Leaf), inputs={}, eps=z3.Int("o.eps"), seq=z3.Int("o.seq"), ts=z3.Real("o.ts")), module=BASE, frozen=True)
        over_out = [z3.Const("o.out", Leaf)]
        # jnp.take on the output buffer with the raw sequence number: in range is an obligation of the model; the real jnp.take fills out-of-range reads,
        # and that value is only used on the skipped branch (step == 0), which the precondition excludes.
        ctx.require(seq < size) if False else None
        pre = ctx.snapshot(g)
        try:
            ret = ctx.call(self_obj=g, args=[gs] + ([over, over_out] if cfg["override"] else []))
        except RaiseEx as e:
            ctx.ensure("no exception", z3.BoolVal(False))
            return
        aw.frame_check(ctx, aw.reachable(pre), aw.reachable(g), [], label="C09 purity: the graph object is not modified")
        n = len(ctr.calls)
        ctx.ensure("C06 the supervisor's step runs exactly once when not overridden and zero times when (step_state, output) are supplied", z3.BoolVal(n == (0 if cfg["override"] else 1)), props=("C06",))
        if cfg["override"]:
            st, out = over, over_out[0]
        else:
            if n != 1:
                return
            ss = ctr.calls[0][1]
            ctx.ensure("C06/C09 it runs on the supervisor's current step state", z3.And(ss.f["seq"] == z3.Int("sup.seq"), ss.f["state"] == z3.Const("sup.state", Leaf), ss.f["rng"] == z3.Const("sup.rng", Leaf), ss.f["ts"] == z3.Real("sup.ts")), props=("C06", "C09"))
            st = Rec("StepState", dict(rng=z3.Const("c_rng1", Leaf), state=z3.Const("c_state1", Leaf), params=z3.Const("c_params1", Leaf), inputs={}, eps=gs.f["eps"], seq=z3.Int("c_seq1"), ts=z3.Real("c_ts1")), module=BASE, frozen=True)
            out = z3.Const("c_out1", Leaf)
        ctx.ensure("C09 the supervisor continues from the given / computed state with seq + 1 (so passing the supervisor's own result to step() equals letting step() run it)",
                   z3.And(ret.f["seq"]["sup"] == st.f["seq"] + 1, ret.f["state"]["sup"] == st.f["state"], ret.f["rng"]["sup"] == st.f["rng"], ret.f["ts"]["sup"] == st.f["ts"], ret.f["params"]["sup"] == st.f["params"]), props=("C09", "C06", "C13"))
        b0, b1 = buf["sup"][0], ret.f["buffer"]["sup"][0]
        j = z3.Int("j!rs")
        m = PYMOD(seq, size)
        ctx.ensure("C08 the supervisor's output is written at slot seq(step-1) mod size; other slots unchanged",
                   z3.And(z3.Select(b1.a, m) == out, z3.ForAll([j], z3.Implies(z3.And(0 <= j, j < size, j != m), z3.Select(b1.a, j) == z3.Select(b0.a, j)))), props=("C08", "C09", "C13"))
        ctx.ensure("step counter and episode unchanged by run_supervisor", z3.And(ret.f["step"] == step, ret.f["eps"] == gs.f["eps"]), props=("C09", "C13"))
        if cfg["record"] and cfg["rs"]["output"]:
            a0, a1 = steps.f["output"][0], ret.f["aux"]["record"].f["nodes"]["sup"].f["steps"].f["output"][0]
            ctx.ensure("C13 the supervisor's output is recorded in the row of the step it belongs to; other rows untouched",
                       z3.And(z3.Select(a1.a, seq) == out, z3.ForAll([j], z3.Implies(z3.And(0 <= j, j < rows, j != seq), z3.Select(a1.a, j) == z3.Select(a0.a, j)))), props=("C13",))


UNITS.append(RunSupervisor())


# =========================================================================================== Graph.init
class GraphInit(Unit):
    """params, starting episode and starting step given to init() are exactly what the steps see (indices clipped)"""
    name = "Graph.init"
    target = f"{GR}::Graph.init"
    props = ("C09",)

    def configs(self):
        yield "params for b supplied", dict(given=["b"])
        yield "no params supplied", dict(given=[])
        yield "all params supplied", dict(given=["sup", "a", "b"])

    def run(self, ctx):
        ex, cfg = ctx.ex, ctx.cfg
        IP, IS, II = z3.Function("init_params", Leaf, Leaf, Leaf), z3.Function("init_state", Leaf, Leaf, Leaf), z3.Function("init_inputs", Leaf, Leaf, Leaf)
        called = {"params": []}

        def mk(name):
            nid = z3.Const(f"node.{name}", Leaf)
            return Rec("BaseNode", dict(name=name, init_params=lambda ex_, rng, gs: (called["params"].append(name), IP(nid, rng))[1], init_state=lambda ex_, rng, gs: IS(nid, rng),
                                        init_inputs=lambda ex_, rng, gs: II(nid, rng)), module=None)
        nodes = {"a": mk("a"), "b": mk("b"), "sup": mk("sup")}
        E, P = z3.Int("max_eps"), z3.Int("max_step")
        ctx.require(z3.And(E >= 1, P >= 1))
        buf = z3.Const("output_buffer", Leaf)
        slot = Rec("SlotVertex", dict(run=NdShape((E, P))), module=BASE, frozen=True)
        timings = Rec("Timings", dict(slots={"s0": slot}, get_output_buffer=lambda ex_, nodes_, sizes, pad, gs, rng=None: buf), module=BASE, frozen=True)
        g = Rec("Graph", dict(nodes=nodes, supervisor=nodes["sup"], nodes_excl_supervisor={"a": nodes["a"], "b": nodes["b"]}, _timings=timings, _buffer_sizes=Opaque("sizes"), _extra_padding=0), module=GR)
        given = {k: z3.Const(f"given_params.{k}", Leaf) for k in cfg["given"]}
        rng = z3.Const("rng", Leaf)
        s_eps, s_step = z3.Int("starting_eps"), z3.Int("starting_step")
        ex.summaries["tree_take"] = lambda ex_, o, a, k, n: ("timings_of_episode", a[1])
        pre = ctx.snapshot(g)
        gs = ctx.call(self_obj=g, kwargs=dict(rng=rng, params=dict(given), starting_step=s_step, starting_eps=s_eps))
        aw.frame_check(ctx, aw.reachable(pre), aw.reachable(g), [], label="C09 purity: the graph object is not modified")
        clip = lambda x, hi: z3.If(x < 0, 0, z3.If(x > hi - 1, hi - 1, x))
        ctx.ensure("C09 the starting episode and step are what the steps see, clipped (not wrapped) into range; the episode's timings are taken at the clipped episode",
                   z3.And(toz(gs.f["eps"]) == clip(s_eps, E), toz(gs.f["step"]) == clip(s_step, P), z3.BoolVal(isinstance(gs.f["timings_eps"], tuple)), toz(gs.f["timings_eps"][1]) == clip(s_eps, E)))
        for k in nodes:
            if k in given:
                ctx.ensure(f"C09 supplied params of {k} are used as given (the node's init_params is not consulted)", z3.And(toz(aw.same(gs.f["params"][k], given[k])), z3.BoolVal(True)))
            else:
                ctx.ensure(f"params of {k} come from its own init_params", z3.BoolVal(is_sym(gs.f["params"][k]) and gs.f["params"][k].decl().name() == "init_params"))
            ctx.ensure(f"state / inputs of {k} come from its own init functions; seq 0, ts 0", z3.And(z3.BoolVal(gs.f["state"][k].decl().name() == "init_state" and gs.f["inputs"][k].decl().name() == "init_inputs"), toz(gs.f["seq"][k]) == 0, toz(gs.f["ts"][k]) == 0))
        rr = [gs.f["rng"][k] for k in ("sup", "a", "b")]
        ctx.ensure("every node gets its own rng, split from the given key (supervisor first, then the others in order)", z3.And(rr[0] != rr[1], rr[1] != rr[2], rr[0] != rr[2]) if False else z3.BoolVal(len({str(r) for r in rr}) == 3))
        ctx.ensure("the output buffer is the one sized by the timings", toz(aw.same(gs.f["buffer"], buf)))


UNITS.append(GraphInit())
