"""C09 (and the supervisor part of C06 / C13): rex/graph.py Graph.run / step / reset / rollout / run_supervisor, GraphState.replace_eps / replace_step."""
import z3
from pyvc.driver import Unit
from pyvc.values import *
from pyvc import values as V
from pyvc.interp import RaiseEx, LoopSpec
from . import aw
from .compiled import BASE, PR, mk_window, mk_input_state, mk_steps_record, StepCounter, aw_rs

GR = "rex/graph.py"
RUS = z3.Function("run_until_supervisor", Leaf, Leaf)
RS = z3.Function("run_supervisor", Leaf, Leaf, Leaf, Leaf)
SS_OF = z3.Function("step_state_of", Leaf, Leaf)   # gs.step_state[supervisor]
NONE = z3.Const("None!leaf", Leaf)
RUN_N = z3.Function("run_n", INT, Leaf, Leaf)
REPL_EPS = z3.Function("replace_eps", Leaf, Leaf)
REPL_STEP = z3.Function("replace_step", Leaf, Leaf)


class _StepStates:
    def __init__(self, gs):
        self.gs = gs

    def pyvc_getitem(self, ex, i):
        return SS_OF(self.gs)


def leaf_attr(ex, o, attr):
    if attr == "step_state":
        return _StepStates(o)
    if attr in ("eps", "step"):
        return z3.Function("gs_" + attr, Leaf, INT)(o)
    if attr == "replace_eps":
        return lambda ex_, timings, eps=None: REPL_EPS(o)
    if attr == "replace_step":
        return lambda ex_, timings, step=None: REPL_STEP(o)
    return None


def mk_graph():
    sup = Rec("BaseNode", dict(name="sup"), module=None)
    return Rec("Graph", dict(supervisor=sup, _timings=Opaque("timings")), module=GR)


def api_summaries():
    def rus(ex, self_obj, args, kwargs, node):
        return RUS(args[0])

    def rs(ex, self_obj, args, kwargs, node):
        a = list(args) + [None] * (3 - len(args))
        a[1] = kwargs.get("step_state", a[1])
        a[2] = kwargs.get("output", a[2])
        return RS(a[0], a[1] if a[1] is not None else NONE, a[2] if a[2] is not None else NONE)
    return {("Graph", "run_until_supervisor"): rus, ("Graph", "run_supervisor"): rs}


class GraphApi(Unit):
    """run = RS . RUS ; step = RUS . RS ; reset = RUS  (RUS, RS are the two functions verified separately)"""
    props = ("C09",)

    def __init__(self, which):
        self.which = which
        self.name = f"Graph.{which}"
        self.target = f"{GR}::Graph.{which}"

    def summaries(self, cfg):
        return api_summaries()

    def opts(self, cfg):
        return {"leaf_attr": leaf_attr}

    def configs(self):
        if self.which == "step":
            yield "own step", dict(override=False)
            yield "override", dict(override=True)
        else:
            yield "default", {}

    def run(self, ctx):
        g = mk_graph()
        gs = z3.Const("gs", Leaf)
        pre = ctx.snapshot(g)
        if self.which == "run":
            ret = ctx.call(self_obj=g, args=[gs])
            ctx.ensure("C09 run(gs) = run_supervisor(run_until_supervisor(gs)) with the supervisor's own step", toz(aw.same(ret, RS(RUS(gs), NONE, NONE))))
        elif self.which == "reset":
            ret = ctx.call(self_obj=g, args=[gs])
            ok = isinstance(ret, tuple) and len(ret) == 2
            ctx.ensure("C09 reset(gs) = (run_until_supervisor(gs), its supervisor step state)", z3.And(toz(aw.same(ret[0], RUS(gs))), toz(aw.same(ret[1], SS_OF(RUS(gs))))) if ok else z3.BoolVal(False))
        else:
            ss, out = z3.Const("given_ss", Leaf), z3.Const("given_out", Leaf)
            ret = ctx.call(self_obj=g, args=[gs] + ([ss, out] if ctx.cfg["override"] else []))
            mid = RS(gs, ss, out) if ctx.cfg["override"] else RS(gs, NONE, NONE)
            ok = isinstance(ret, tuple) and len(ret) == 2
            ctx.ensure("C09 step(gs, ss, o) = run_until_supervisor(run_supervisor(gs, ss, o)) and returns the supervisor's next step state",
                       z3.And(toz(aw.same(ret[0], RUS(mid))), toz(aw.same(ret[1], SS_OF(RUS(mid))))) if ok else z3.BoolVal(False))
        aw.frame_check(ctx, aw.reachable(pre), aw.reachable(g), [], label="C09 purity: the graph object is not modified")


class ApiLemma(Unit):
    """n x step after reset = run_until_supervisor after n x run (driving API does not matter)"""
    name = "lemma: reset;step^n = run^n;run_until_supervisor"
    target = None
    kind = "lemma"
    props = ("C09",)

    def run(self, ctx):
        gs = z3.Const("gs", Leaf)
        n = z3.Int("n")
        run = lambda x: RS(RUS(x), NONE, NONE)
        step = lambda x: RUS(RS(x, NONE, NONE))
        STEP_N = z3.Function("step_n", INT, Leaf, Leaf)
        x = z3.Const("x", Leaf)
        defs = [z3.ForAll([x], RUN_N(0, x) == x), z3.ForAll([n, x], z3.Implies(n >= 0, RUN_N(n + 1, x) == run(RUN_N(n, x)))),
                z3.ForAll([x], STEP_N(0, x) == x), z3.ForAll([n, x], z3.Implies(n >= 0, STEP_N(n + 1, x) == step(STEP_N(n, x))))]
        for d in defs:
            ctx.require(d)
        k = z3.Int("k")
        ctx.ensure("base: step^0(reset(gs)) = RUS(run^0(gs))", STEP_N(0, RUS(gs)) == RUS(RUN_N(0, gs)))
        ctx.ensure("step: step^k(reset(gs)) = RUS(run^k(gs)) => step^(k+1)(reset(gs)) = RUS(run^(k+1)(gs))",
                   z3.Implies(z3.And(k >= 0, STEP_N(k, RUS(gs)) == RUS(RUN_N(k, gs))), STEP_N(k + 1, RUS(gs)) == RUS(RUN_N(k + 1, gs))))


class Rollout(Unit):
    name = "Graph.rollout"
    target = f"{GR}::Graph.rollout"
    props = ("C09",)

    def configs(self):
        yield "carry_only", dict(carry=True)
        yield "trajectory", dict(carry=False)
        yield "carry_only,max_steps=None", dict(carry=True, default_n=True)
        yield "trajectory,max_steps=None", dict(carry=False, default_n=True)

    def summaries(self, cfg):
        s = api_summaries()
        s[("Graph", "run")] = lambda ex, o, a, k, n: RS(RUS(a[0]), NONE, NONE)   # Graph.run's own contract (unit Graph.run)
        return s

    def opts(self, cfg):
        seen = {}

        def fori(ex, lo, hi, body, init):
            c = z3.Const("carry!any", Leaf)
            r = ex.call(body, [z3.Int("i!any"), c], {})
            seen["body"] = (c, r)
            seen["lo"] = lo
            return RUN_N(toz(hi) - toz(lo), init)

        def scan(ex, f, init, xs, length):
            c = z3.Const("carry!any", Leaf)
            r = ex.call(f, [c, z3.Int("x!any")], {})
            seen["scan"] = (c, r)
            n = xs.n if isinstance(xs, Arr) else length
            seen["n"] = n
            j = z3.Int("j!sc")
            return RUN_N(toz(n), init), Arr(z3.Lambda([j], RUN_N(j + 1, init)), n)
        self.seen = seen
        return {"leaf_attr": leaf_attr, "fori_loop": fori, "scan": scan}

    def run(self, ctx):
        g = mk_graph()
        g.f["max_steps"] = z3.Int("max_steps")
        gs = z3.Const("gs", Leaf)
        n = z3.Int("n")
        ctx.require(n >= 0)
        if ctx.cfg.get("default_n"):      # max_steps=None: the graph's own episode length
            ctx.require(g.f["max_steps"] >= 0)
            ret = ctx.call(self_obj=g, args=[gs], kwargs=dict(max_steps=None, carry_only=ctx.cfg["carry"]))
            n = g.f["max_steps"]
        else:
            ret = ctx.call(self_obj=g, args=[gs], kwargs=dict(max_steps=n, carry_only=ctx.cfg["carry"]))
        start = REPL_STEP(REPL_EPS(gs))
        run = lambda x: RS(RUS(x), NONE, NONE)
        if ctx.cfg["carry"]:
            c, r = self.seen.get("body", (None, None))
            ctx.ensure("C09 the loop body is one run() of the carried graph state, whatever the loop index", toz(aw.same(r, run(c))) if c is not None else z3.BoolVal(False))
            ctx.ensure("C09 rollout(gs, n) = run^n(gs with eps and step clipped)", z3.And(toz(aw.same(ret, RUN_N(n, start))), toz(self.seen.get("lo", 1)) == 0))
        else:
            c, r = self.seen.get("scan", (None, None))
            ok = isinstance(r, tuple) and len(r) == 2
            ctx.ensure("C09 the scan body is one run() of the carry and emits the new state", z3.And(toz(aw.same(r[0], run(c))), toz(aw.same(r[1], run(c)))) if ok else z3.BoolVal(False))
            ctx.ensure("C09 trajectory rollout returns [run^1(gs'), ..., run^n(gs')]", z3.And(z3.BoolVal(isinstance(ret, Arr)), ret.n == n, z3.Select(ret.a, z3.Int("jj")) == RUN_N(z3.Int("jj") + 1, start)) if isinstance(ret, Arr) else z3.BoolVal(False))


class ReplaceClip(Unit):
    """out-of-range episode / step indices are clipped, not wrapped"""
    props = ("C09",)

    def __init__(self, which):
        self.which = which
        self.name = f"GraphState.replace_{which}"
        self.target = f"{BASE}::GraphState.replace_{which}"

    def summaries(self, cfg):
        return {"tree_take": lambda ex, o, a, k, n: ("taken", a[0], a[1])}

    def run(self, ctx):
        E, P = z3.Int("max_eps"), z3.Int("max_step")
        ctx.require(z3.And(E >= 1, P >= 1))

        class Nd:
            shape = (E, P)

            def pyvc_getattr(self, ex, attr):
                if attr == "shape":
                    return (E, P)
                raise Unsupported(attr)
        slot = Rec("SlotVertex", dict(run=Nd()), module=BASE, frozen=True)
        timings = Rec("Timings", dict(slots={"s0": slot}), module=BASE, frozen=True)
        gs = Rec("GraphState", dict(step=z3.Int("gs.step"), eps=z3.Int("gs.eps"), rng={}, seq={}, ts={}, params={}, state={}, inputs={}, timings_eps=Opaque("old"), buffer=None, aux={}), module=BASE, frozen=True)
        v = z3.Int("v")
        ret = ctx.call(self_obj=gs, args=[timings, v])
        clip = lambda x, hi: z3.If(x < 0, 0, z3.If(x > hi - 1, hi - 1, x))
        if self.which == "eps":
            ctx.ensure("C09 eps' = clip(eps, 0, max_eps - 1) and the episode's timings are taken at the clipped index",
                       z3.And(ret.f["eps"] == clip(v, E), z3.BoolVal(isinstance(ret.f["timings_eps"], tuple) and ret.f["timings_eps"][1] is timings), toz(ret.f["timings_eps"][2]) == clip(v, E)
                              if isinstance(ret.f["timings_eps"], tuple) else z3.BoolVal(False), ret.f["step"] == gs.f["step"]))
        else:
            ctx.ensure("C09 step' = clip(step, 0, max_step - 1); nothing else changes", z3.And(ret.f["step"] == clip(v, P), ret.f["eps"] == gs.f["eps"], z3.BoolVal(ret.f["timings_eps"] is gs.f["timings_eps"])))


def _replay_clip(self, label, clause, probes, model):
    return {"kind": "pure", "which": "replace_eps", "probes": probes}


ReplaceClip.replay = _replay_clip


UNITS = [GraphApi("run"), GraphApi("step"), GraphApi("reset"), ApiLemma(), Rollout(), ReplaceClip("eps"), ReplaceClip("step")]


# =========================================================================================== Graph.run_supervisor (real body)
class NdShape:
    def __init__(self, dims):
        self.dims = dims

    def pyvc_getattr(self, ex, attr):
        if attr == "shape":
            return self.dims
        raise Unsupported(attr)


class RunSupervisor(Unit):
    name = "Graph.run_supervisor"
    target = f"{GR}::Graph.run_supervisor"
    props = ("C06", "C09", "C13", "C08")

    def configs(self):
        for override in (False, True):
            for rec, rs in ((False, aw_rs(False)), (True, aw_rs(True)), (True, aw_rs(False))):
                yield f"override={int(override)},record={int(rec)}:{'all' if rs['output'] else 'none'}", dict(override=override, record=rec, rs=rs)

    def run(self, ctx):
        ex, cfg = ctx.ex, ctx.cfg
        ctr = StepCounter()
        sup = Rec("BaseNode", dict(name="sup", inputs={}, outputs={}, step=ctr.make("sup")), module=None)
        E, P = z3.Int("max_eps"), z3.Int("max_step")
        ctx.require(z3.And(E >= 1, P >= 1))
        tslot = Rec("SlotVertex", dict(run=NdShape((E, P)), kind="sup", generation=1), module=BASE, frozen=True)
        timings = Rec("Timings", dict(slots={"sup_0": tslot}), module=BASE, frozen=True)
        g = Rec("Graph", dict(supervisor=sup, _supervisor_kind="sup", _supervisor_slot="sup_0", _timings=timings), module=GR)
        # episode timings of the supervisor slot: one row per step
        eslot = Rec("SlotVertex", dict(seq=Arr.fresh("te.seq", INT, P), ts_start=Arr.fresh("te.ts_start", REAL, P), ts_end=Arr.fresh("te.ts_end", REAL, P), windows={},
                                       run=Arr.fresh("te.run", BOOL, P), kind="sup", generation=1), module=BASE, frozen=True)
        size, rows = z3.Int("sup.bufsize"), z3.Int("record.rows")
        ctx.require(z3.And(size >= 1, rows >= 1))
        buf = {"sup": [Arr.fresh("buffer.sup", Leaf, size)]}
        aux = {}
        if cfg["record"]:
            steps = mk_steps_record("rec.sup", rows, cfg["rs"])
            rec = Rec("EpisodeRecord", dict(nodes={"sup": Rec("NodeRecord", dict(info=None, clock=None, real_time_factor=0, ts_start=0.0, params=None, inputs=None, steps=steps), module=BASE, frozen=True)}), module=BASE, frozen=True)
            aux = {"record": rec}
        step = z3.Int("gs.step")
        gs = Rec("GraphState", dict(step=step, eps=z3.Int("gs.eps"), rng={"sup": z3.Const("sup.rng", Leaf)}, seq={"sup": z3.Int("sup.seq")}, ts={"sup": z3.Real("sup.ts")},
                                    params={"sup": z3.Const("sup.params", Leaf)}, state={"sup": z3.Const("sup.state", Leaf)}, inputs={"sup": {}},
                                    timings_eps=Rec("Timings", dict(slots={"sup_0": eslot}), module=BASE, frozen=True), buffer=buf, aux=aux), module=BASE, frozen=True)
        ctx.require(z3.And(step >= 1, step <= P - 1))   # the documented use: run_until_supervisor has already advanced the step counter (reset() before step())
        seq = z3.Select(eslot.f["seq"].a, step - 1)
        ctx.require(z3.And(seq >= 0, seq < rows))
        over = Rec("StepState", dict(rng=z3.Const("o.rng", Leaf), state=z3.Const("o.state", Leaf), params=z3.Const("o.params", Leaf), inputs={}, eps=z3.Int("o.eps"), seq=z3.Int("o.seq"), ts=z3.Real("o.ts")), module=BASE, frozen=True)
        over_out = [z3.Const("o.out", Leaf)]
        # jnp.take on the output buffer with the raw sequence number: in range is an obligation of the model; the real jnp.take fills out-of-range reads,
        # and that value is only used on the skipped branch (step == 0), which the precondition excludes.
        ctx.require(seq < size) if False else None
        pre = ctx.snapshot(g)
        try:
            ret = ctx.call(self_obj=g, args=[gs] + ([over, over_out] if cfg["override"] else []))
        except RaiseEx as e:
            ctx.ensure("no exception", z3.BoolVal(False))
            return
        aw.frame_check(ctx, aw.reachable(pre), aw.reachable(g), [], label="C09 purity: the graph object is not modified")
        n = len(ctr.calls)
        ctx.ensure("C06 the supervisor's step runs exactly once when not overridden and zero times when (step_state, output) are supplied", z3.BoolVal(n == (0 if cfg["override"] else 1)), props=("C06",))
        if cfg["override"]:
            st, out = over, over_out[0]
        else:
            if n != 1:
                return
            ss = ctr.calls[0][1]
            ctx.ensure("C06/C09 it runs on the supervisor's current step state", z3.And(ss.f["seq"] == z3.Int("sup.seq"), ss.f["state"] == z3.Const("sup.state", Leaf), ss.f["rng"] == z3.Const("sup.rng", Leaf), ss.f["ts"] == z3.Real("sup.ts")), props=("C06", "C09"))
            st = Rec("StepState", dict(rng=z3.Const("c_rng1", Leaf), state=z3.Const("c_state1", Leaf), params=z3.Const("c_params1", Leaf), inputs={}, eps=gs.f["eps"], seq=z3.Int("c_seq1"), ts=z3.Real("c_ts1")), module=BASE, frozen=True)
            out = z3.Const("c_out1", Leaf)
        ctx.ensure("C09 the supervisor continues from the given / computed state with seq + 1 (so passing the supervisor's own result to step() equals letting step() run it)",
                   z3.And(ret.f["seq"]["sup"] == st.f["seq"] + 1, ret.f["state"]["sup"] == st.f["state"], ret.f["rng"]["sup"] == st.f["rng"], ret.f["ts"]["sup"] == st.f["ts"], ret.f["params"]["sup"] == st.f["params"]), props=("C09", "C06", "C13"))
        b0, b1 = buf["sup"][0], ret.f["buffer"]["sup"][0]
        j = z3.Int("j!rs")
        m = PYMOD(seq, size)
        ctx.ensure("C08 the supervisor's output is written at slot seq(step-1) mod size; other slots unchanged",
                   z3.And(z3.Select(b1.a, m) == out, z3.ForAll([j], z3.Implies(z3.And(0 <= j, j < size, j != m), z3.Select(b1.a, j) == z3.Select(b0.a, j)))), props=("C08", "C09", "C13"))
        ctx.ensure("step counter and episode unchanged by run_supervisor", z3.And(ret.f["step"] == step, ret.f["eps"] == gs.f["eps"]), props=("C09", "C13"))
        if cfg["record"] and cfg["rs"]["output"]:
            a0, a1 = steps.f["output"][0], ret.f["aux"]["record"].f["nodes"]["sup"].f["steps"].f["output"][0]
            ctx.ensure("C13 the supervisor's output is recorded in the row of the step it belongs to; other rows untouched",
                       z3.And(z3.Select(a1.a, seq) == out, z3.ForAll([j], z3.Implies(z3.And(0 <= j, j < rows, j != seq), z3.Select(a1.a, j) == z3.Select(a0.a, j)))), props=("C13",))


UNITS.append(RunSupervisor())


# =========================================================================================== Graph.init
class GraphInit(Unit):
    """params, starting episode and starting step given to init() are exactly what the steps see (indices clipped)"""
    name = "Graph.init"
    target = f"{GR}::Graph.init"
    props = ("C09",)

    def configs(self):
        yield "params for b supplied", dict(given=["b"])
        yield "no params supplied", dict(given=[])
        yield "all params supplied", dict(given=["sup", "a", "b"])

    def run(self, ctx):
        ex, cfg = ctx.ex, ctx.cfg
        IP, IS, II = z3.Function("init_params", Leaf, Leaf, Leaf), z3.Function("init_state", Leaf, Leaf, Leaf), z3.Function("init_inputs", Leaf, Leaf, Leaf)
        called = {"params": []}

        def mk(name):
            nid = z3.Const(f"node.{name}", Leaf)
            return Rec("BaseNode", dict(name=name, init_params=lambda ex_, rng, gs: (called["params"].append(name), IP(nid, rng))[1], init_state=lambda ex_, rng, gs: IS(nid, rng),
                                        init_inputs=lambda ex_, rng, gs: II(nid, rng)), module=None)
        nodes = {"a": mk("a"), "b": mk("b"), "sup": mk("sup")}
        E, P = z3.Int("max_eps"), z3.Int("max_step")
        ctx.require(z3.And(E >= 1, P >= 1))
        buf = z3.Const("output_buffer", Leaf)
        slot = Rec("SlotVertex", dict(run=NdShape((E, P))), module=BASE, frozen=True)
        timings = Rec("Timings", dict(slots={"s0": slot}, get_output_buffer=lambda ex_, nodes_, sizes, pad, gs, rng=None: buf), module=BASE, frozen=True)
        g = Rec("Graph", dict(nodes=nodes, supervisor=nodes["sup"], nodes_excl_supervisor={"a": nodes["a"], "b": nodes["b"]}, _timings=timings, _buffer_sizes=Opaque("sizes"), _extra_padding=0), module=GR)
        given = {k: z3.Const(f"given_params.{k}", Leaf) for k in cfg["given"]}
        rng = z3.Const("rng", Leaf)
        s_eps, s_step = z3.Int("starting_eps"), z3.Int("starting_step")
        ex.summaries["tree_take"] = lambda ex_, o, a, k, n: ("timings_of_episode", a[1])
        pre = ctx.snapshot(g)
        p_arg = dict(given)          # the caller's override dict (a plain dict, as rex.rl.Environment keeps and re-uses one)
        gs = ctx.call(self_obj=g, kwargs=dict(rng=rng, params=p_arg, starting_step=s_step, starting_eps=s_eps))
        aw.frame_check(ctx, aw.reachable(pre), aw.reachable(g), [], label="C09 purity: the graph object is not modified")
        ctx.ensure("C09 purity: the caller's params override is not modified (a second init with the same dict and another rng must not see this call's draws)",
                   z3.BoolVal(set(p_arg) == set(given) and all(p_arg[k] is given[k] for k in given)))
        clip = lambda x, hi: z3.If(x < 0, 0, z3.If(x > hi - 1, hi - 1, x))
        ctx.ensure("C09 the starting episode and step are what the steps see, clipped (not wrapped) into range; the episode's timings are taken at the clipped episode",
                   z3.And(toz(gs.f["eps"]) == clip(s_eps, E), toz(gs.f["step"]) == clip(s_step, P), z3.BoolVal(isinstance(gs.f["timings_eps"], tuple)), toz(gs.f["timings_eps"][1]) == clip(s_eps, E)))
        for k in nodes:
            if k in given:
                ctx.ensure(f"C09 supplied params of {k} are used as given (the node's init_params is not consulted)", z3.And(toz(aw.same(gs.f["params"][k], given[k])), z3.BoolVal(True)))
            else:
                ctx.ensure(f"params of {k} come from its own init_params", z3.BoolVal(is_sym(gs.f["params"][k]) and gs.f["params"][k].decl().name() == "init_params"))
            ctx.ensure(f"state / inputs of {k} come from its own init functions; seq 0, ts 0", z3.And(z3.BoolVal(gs.f["state"][k].decl().name() == "init_state" and gs.f["inputs"][k].decl().name() == "init_inputs"), toz(gs.f["seq"][k]) == 0, toz(gs.f["ts"][k]) == 0))
        rr = [gs.f["rng"][k] for k in ("sup", "a", "b")]
        ctx.ensure("every node gets its own rng, split from the given key (supervisor first, then the others in order)", z3.And(rr[0] != rr[1], rr[1] != rr[2], rr[0] != rr[2]) if False else z3.BoolVal(len({str(r) for r in rr}) == 3))
        ctx.ensure("the output buffer is the one sized by the timings", toz(aw.same(gs.f["buffer"], buf)))


UNITS.append(GraphInit())


class AsyncInitAgrees(Unit):
    """AsyncGraph.init: order, params override, per-node rngs, purity with respect to the caller's override"""
    name = "AsyncGraph.init"
    target = "rex/asynchronous.py::AsyncGraph.init"
    props = ("C02", "C01")

    def configs(self):
        yield "params for b supplied, default order", dict(given=["b"], order=None)
        yield "no params, explicit partial order", dict(given=[], order=("b",))
        yield "all params supplied, explicit full order", dict(given=["sup", "a", "b"], order=("a", "sup", "b"))

    def run(self, ctx):
        ex, cfg = ctx.ex, ctx.cfg
        IP, IS, II = z3.Function("init_params", Leaf, Leaf, Leaf), z3.Function("init_state", Leaf, Leaf, Leaf), z3.Function("init_inputs", Leaf, Leaf, Leaf)
        order_seen = {"params": [], "state": [], "inputs": []}

        def mk(name):
            nid = z3.Const(f"node.{name}", Leaf)
            return Rec("BaseNode", dict(name=name, init_params=lambda ex_, rng, gs: (order_seen["params"].append(name), IP(nid, rng))[1], init_state=lambda ex_, rng, gs: (order_seen["state"].append(name), IS(nid, rng))[1],
                                        init_inputs=lambda ex_, rng, gs: (order_seen["inputs"].append(name), II(nid, rng))[1]), module=None)
        nodes = {"a": mk("a"), "b": mk("b"), "sup": mk("sup")}
        ag = Rec("AsyncGraph", dict(nodes=nodes, supervisor=nodes["sup"], nodes_excl_supervisor={"a": nodes["a"], "b": nodes["b"]}), module="rex/asynchronous.py")
        given = {k: z3.Const(f"given_params.{k}", Leaf) for k in cfg["given"]}
        rng = z3.Const("rng", Leaf)
        p_arg = dict(given)
        kw = dict(rng=rng, params=p_arg)
        if cfg["order"] is not None:
            kw["order"] = cfg["order"]
        gs = ctx.call(self_obj=ag, kwargs=dict(kw))
        ok = isinstance(gs, Rec) and gs.cls == "GraphState"
        ctx.ensure("returns a graph state", z3.BoolVal(ok))
        if not ok:
            return
        full = list(cfg["order"] or ()) + [n for n in ("sup", "a", "b") if n not in (cfg["order"] or ())]
        ctx.ensure("nodes are initialised in the requested order, the rest (supervisor first) appended; params only where none were supplied",
                   z3.BoolVal(order_seen["state"] == full and order_seen["inputs"] == full and [n for n in order_seen["params"]] == [n for n in full if n not in given or True][:len(order_seen["params"])]))
        ctx.ensure("the caller's params override is not modified", z3.BoolVal(set(p_arg) == set(given) and all(p_arg[k] is given[k] for k in given)))
        for k in nodes:
            ctx.ensure(f"{k}: supplied params are used as given, otherwise the node's own init_params; state / inputs from its own init functions; seq 0, ts 0, episode 0",
                       z3.And(toz(aw.same(gs.f["params"][k], given[k])) if k in given else z3.BoolVal(is_sym(gs.f["params"][k]) and gs.f["params"][k].decl().name() == "init_params"),
                              z3.BoolVal(gs.f["state"][k].decl().name() == "init_state" and gs.f["inputs"][k].decl().name() == "init_inputs"), toz(gs.f["seq"][k]) == 0, toz(gs.f["ts"][k]) == 0, toz(gs.f["eps"]) == 0))
        rr = [gs.f["rng"][k] for k in full]
        ctx.ensure("every node gets its own step rng, split from the given key in initialisation order", z3.BoolVal(len({str(r) for r in rr}) == 3))
        # NOTE (DESIGN 10.6): Graph.init splits the key five ways (one key for the random starting episode), AsyncGraph.init four ways, so the same key does NOT give the
        # two runtimes the same per-node rng / params / state. C01 takes equal initial values as its premise (the same GraphState is handed to both), so this is an
        # observation, not an obligation; a clause demanding agreement was written first and refuted by the unchanged code - it asked for more than the property states.


UNITS.append(AsyncInitAgrees())


# =========================================================================================== Graph.init_record
class _Filled:
    """contract-level value: an array of the given shape filled with one value (what jnp.ones(shape) * v is)"""
    def __init__(self, shape, val):
        self.shape, self.val = tuple(shape), val

    def pyvc_binop(self, ex, op, other, reflected):
        import ast as _ast
        if isinstance(op, _ast.Mult) and isinstance(other, (int, float)):
            return _Filled(self.shape, self.val * other)
        raise V.Unsupported("operator on a filled array")

    def pyvc_getattr(self, ex, attr):
        if attr == "astype":
            return lambda ex_, d=None: self
        if attr == "shape":
            return self.shape
        raise V.Unsupported(f"filled array attribute {attr}")


class _RunVec:
    """contract-level value: the per-episode number of executions summed over a set of slots (slot.run.sum(axis=-1) and sums thereof)"""
    def __init__(self, slots):
        self.slots = tuple(slots)

    def pyvc_binop(self, ex, op, other, reflected):
        import ast as _ast
        if isinstance(op, _ast.Add) and isinstance(other, _RunVec):
            return _RunVec(self.slots + other.slots)
        raise V.Unsupported("operator on run counts")


def max_runs(slots):
    return z3.Int("max_over_episodes_of_runs[" + "+".join(sorted(slots)) + "]")


class InitRecord(Unit):
    """the pre-sized record: one row per possible execution of the node (maximum over episodes of its slots' run counts, all of its slots and only those),
    every row of every column marked -1; switched-off columns absent; nothing of the graph state changes except aux['record']"""
    name = "Graph.init_record"
    target = f"{GR}::Graph.init_record"
    props = ("C13",)

    def configs(self):
        yield "all on", dict(flags={f: True for f in ("params", "rng", "inputs", "state", "output")})
        yield "defaults (all off)", dict(flags={})
        for f in ("params", "rng", "inputs", "state", "output"):
            yield f"only {f}", dict(flags={f: True})
        yield "per-node dict", dict(flags={"state": {"a": True}, "output": {"sup": True, "a": False}})
        yield "already initialised", dict(flags={}, already=True)

    def opts(self, cfg):
        return {"leaf_attr": lambda ex, o, attr: (z3.Function("shape_of", Leaf, Leaf)(o) if attr == "shape" else z3.Function("dtype_of", Leaf, Leaf)(o) if attr == "dtype" else None),
                "leaf_getitem": lambda ex, o, i: z3.Function("row_of", Leaf, z3.IntSort(), Leaf)(o, toz(i)),
                "leaf_binop": lambda ex, op, x, y: (tuple(x) + (y,)) if isinstance(x, tuple) and type(op).__name__ == "Add" else None}      # (rows,) + x.shape

    def run(self, ctx):
        ex, cfg = ctx.ex, ctx.cfg
        mkslot = lambda nm, kind: Rec("SlotVertex", dict(kind=kind, run=Rec("ndarray", dict(sum=lambda ex_, axis=None: _RunVec([nm])), module=None)), module=BASE, frozen=True)
        slots = {"sa_0": mkslot("sa_0", "a"), "ssup_0": mkslot("ssup_0", "sup"), "sa_1": mkslot("sa_1", "a")}
        a = Rec("BaseNode", dict(name="a", info=leaf_("info.a"), inputs={}), module=None)
        sup = Rec("BaseNode", dict(name="sup", info=leaf_("info.sup"), inputs={}), module=None)
        sup.f["inputs"]["a_in"] = Rec("Connection", dict(output_node=a, input_node=sup), module=None)
        g = Rec("Graph", dict(supervisor=sup, nodes={"a": a, "sup": sup}, _timings=Rec("Timings", dict(slots=slots), module=BASE, frozen=True)), module=GR)
        per = lambda tag: {k: leaf_(f"{tag}.{k}") for k in ("a", "sup")}
        aux0 = {"other": leaf_("aux.other")}
        if cfg.get("already"):
            aux0["record"] = leaf_("old.record")
        gs = Rec("GraphState", dict(step=z3.Int("gs.step"), eps=z3.Int("gs.eps"), rng=per("rng"), seq=per("seq"), ts=per("ts"), params=per("params"), state=per("state"), inputs=per("inputs"),
                                    timings_eps=leaf_("timings_eps"), buffer=per("buffer"), aux=aux0), module=BASE, frozen=True)
        onp, jnp, jx = ex.lib.ns["numpy"], ex.lib.ns["jax.numpy"], ex.lib.ns["jax"]
        o_zl, o_max, o_ones = onp.entries["zeros_like"], onp.entries["max"], jnp.entries["ones"]
        onp.entries["zeros_like"] = lambda ex_, x: _RunVec([]) if isinstance(x, _RunVec) else o_zl(ex_, x)
        onp.entries["max"] = lambda ex_, x, **k: max_runs(x.slots) if isinstance(x, _RunVec) else o_max(ex_, x, **k)

        def ones(ex_, shape=(), **k):
            if isinstance(shape, tuple):
                return _Filled(shape, 1)
            return o_ones(ex_, shape, **k)
        jnp.entries["ones"] = ones
        jx.entries["dtypes"] = NS("jax.dtypes", {"canonicalize_dtype": lambda ex_, d: d})
        try:
            try:
                ret = ctx.call(self_obj=g, args=[gs], kwargs=dict(cfg["flags"]))
            except RaiseEx as e:
                ctx.ensure("a second init_record on the same graph state is refused (AssertionError), nothing else raises", z3.BoolVal(bool(cfg.get("already")) and e.exc == "AssertionError"))
                return
        finally:
            onp.entries["zeros_like"], onp.entries["max"], jnp.entries["ones"] = o_zl, o_max, o_ones
        ctx.ensure("a second init_record on the same graph state is refused", z3.BoolVal(not cfg.get("already")))
        ctx.ensure("C13 enabling recording changes nothing of the graph state except aux['record'] (every other field and every other aux entry is the very same object)",
                   z3.BoolVal(isinstance(ret, Rec) and all(ret.f[k] is gs.f[k] for k in gs.f if k != "aux") and set(ret.f["aux"]) == {"other", "record"} and ret.f["aux"]["other"] is aux0["other"] and "record" not in aux0))
        rec = ret.f["aux"]["record"]
        want_rows = {"a": max_runs(["sa_0", "sa_1"]), "sup": max_runs(["ssup_0"])}
        on = lambda f, nm: (cfg["flags"].get(f, False) if not isinstance(cfg["flags"].get(f, False), dict) else cfg["flags"][f].get(nm, False))
        cl, cl_off = [], []
        for nm in ("a", "sup"):
            nr = rec.f["nodes"][nm]
            st = nr.f["steps"]
            for fld in ("eps", "seq", "ts_start", "ts_end", "delay"):
                v = st.f[fld]
                cl.append(z3.BoolVal(isinstance(v, _Filled) and len(v.shape) == 1 and v.val == -1))
                if isinstance(v, _Filled):
                    cl.append(toz(v.shape[0]) == want_rows[nm])
            src = {"rng": gs.f["rng"][nm], "inputs": gs.f["inputs"][nm], "state": gs.f["state"][nm], "output": z3.Function("row_of", Leaf, z3.IntSort(), Leaf)(gs.f["buffer"][nm], z3.IntVal(0))}
            for fld in ("rng", "inputs", "state", "output"):
                v = st.f[fld]
                if not on(fld, nm):
                    cl_off.append(z3.BoolVal(v is None))
                    continue
                ok = isinstance(v, _Filled) and v.val == -1 and len(v.shape) == 2
                cl.append(z3.BoolVal(ok))
                if ok:       # shape = (rows,) + shape of one row of that node's rng / inputs / state / output
                    cl.append(z3.And(toz(v.shape[0]) == want_rows[nm], toz(v.shape[1]) == z3.Function("shape_of", Leaf, Leaf)(src[fld])))
            cl_off.append(z3.BoolVal((nr.f["params"] is gs.f["params"][nm]) if on("params", nm) else nr.f["params"] is None))
            cl.append(z3.BoolVal(nr.f["info"] is (a if nm == "a" else sup).f["info"]))
        ctx.ensure("C13 every column of every node's record has one row per possible execution of THAT node (max over episodes of the runs of all its slots and only its slots) "
                   "and every row is marked -1 (never-executed rows stay recognisable)", z3.And(*cl))
        ctx.ensure("C13 switched-off columns are absent, params are recorded iff requested (per node)", z3.And(*cl_off))


def leaf_(tag):
    return z3.Const(tag, Leaf)


UNITS += [InitRecord()]


# =========================================================================================== Graph.__init__: admissible user buffer sizes
class _Stop(Exception):
    pass


class OutputBuffer(Unit):
    """Timings.get_output_buffer: every node's ring has max(required sizes) + extra padding rows (at least one; max(1, padding) for a node nobody reads), and EVERY row starts as
    the node's default output - what a window entry with a negative sequence number must read (C08) before the producer has written anything"""
    name = "Timings.get_output_buffer"
    target = BASE + "::Timings.get_output_buffer"
    props = ("C08", "C01")

    def configs(self):
        yield "sizes given, no padding", dict(sizes={"a": [2, 3], "b": [1], "c": []}, pad=0, given=True)
        yield "sizes given, padding 2", dict(sizes={"a": [2, 3], "b": [1], "c": []}, pad=2, given=True)
        yield "sizes from get_buffer_sizes", dict(sizes={"a": [4], "b": [2, 2]}, pad=1, given=False)

    def opts(self, cfg):
        return {"assert_raises": True}

    def run(self, ctx):
        ex, cfg = ctx.ex, ctx.cfg
        DEF = z3.Function("init_output", Leaf, Leaf, REAL)
        seen = []

        def mk(name):
            nid = z3.Const(f"node.{name}", Leaf)
            return Rec("BaseNode", dict(name=name, init_output=lambda ex_, rng=None, graph_state=None: (seen.append((name, rng)), {"y": DEF(nid, rng)})[1]), module=None)
        nodes = {k: mk(k) for k in cfg["sizes"]}
        T = Rec("Timings", dict(slots={}, get_buffer_sizes=lambda ex_: {k: list(v) for k, v in cfg["sizes"].items()}), module=BASE, frozen=True)
        rng, gs = z3.Const("rng", Leaf), z3.Const("graph_state", Leaf)
        kw = dict(extra_padding=cfg["pad"], graph_state=gs, rng=rng)
        if cfg["given"]:
            kw["sizes"] = {k: list(v) for k, v in cfg["sizes"].items()}
        out = ctx.call(self_obj=T, args=[nodes], kwargs=kw)
        ok = hasattr(out, "items") and set(dict(out.items())) == set(nodes)
        ctx.ensure("one ring buffer per node", z3.BoolVal(ok))
        if not ok:
            return
        out = dict(out.items())
        keys = {}
        for name, r in seen:
            keys.setdefault(name, set()).add(str(r))
        ctx.ensure("every node's default output is drawn with ONE key of its own", z3.BoolVal(all(len(v) == 1 for v in keys.values()) and len({next(iter(v)) for v in keys.values()}) == len(nodes)))
        for k, req in cfg["sizes"].items():
            want = (max(req) + cfg["pad"]) if req else max(1, cfg["pad"])
            b = out[k]["y"] if isinstance(out[k], dict) else None
            okk = isinstance(b, Arr)
            ctx.ensure(f"C08 node {k}: the ring has max(required sizes) + extra padding = {want} rows (a node nobody reads: max(1, padding))", toz(b.n) == want if okk else z3.BoolVal(False))
            if okk:
                r0 = z3.simplify(z3.Select(b.a, 0))
                ctx.ensure(f"C08 node {k}: every row starts as the node's default output (what an unfilled window entry reads)", z3.And(*[z3.Select(b.a, i) == r0 for i in range(want)], z3.BoolVal(r0.decl().name() == "init_output")))


class BufferAdmission(Unit):
    """user-supplied buffer_sizes are accepted only if the ring is at least as large as EVERY reader's requirement for that producer
    (so that no output is overwritten before its last scheduled reader: lemma RB needs size >= requirement); otherwise AssertionError"""
    name = "Graph.__init__ (buffer_sizes admission)"
    target = f"{GR}::Graph.__init__"
    props = ("C08",)

    def configs(self):
        for form in ("int", "list1", "list2"):
            for nreq in (1, 2, 3):
                yield f"size as {form}, {nreq} readers", dict(form=form, nreq=nreq)
        yield "producer without readers", dict(form="int", nreq=0)
        yield "no buffer_sizes given", dict(form=None, nreq=2)

    def opts(self, cfg):
        return {"assert_raises": True}

    def run(self, ctx):
        ex, cfg = ctx.ex, ctx.cfg
        req = [z3.Int(f"req{i}") for i in range(cfg["nreq"])]
        for r in req:
            ctx.require(r >= 1)
        sizes_auto = {"p": list(req), "q": [z3.Int("req_q")]}
        shape2 = Rec("ndarray", dict(shape=(z3.Int("E"), z3.Int("P"))), module=None)
        graphs_raw = Rec("Graph", dict(vertices={"p": Rec("Vertex", dict(seq=shape2), module=BASE, frozen=True)}, edges={}), module=BASE, frozen=True)
        timings = Rec("Timings", dict(get_buffer_sizes=lambda ex_: {k: list(v) for k, v in sizes_auto.items()}), module=BASE, frozen=True)

        class S_:
            def pyvc_getattr(self, ex_, attr):
                raise _Stop()            # everything after the admission block (supervisor slot lookup ...) is out of this unit's scope
        ex.summaries["apply_window"] = lambda ex_, o, a, k, n: Rec("WindowedGraph", dict(to_graph=lambda ex2: []), module=None)
        ex.summaries["to_timings"] = lambda ex_, o, a, k, n: timings
        ex.lib.ns["supergraph"] = NS("supergraph", {"grow_supergraph": lambda ex_, *a, **k: (S_(), {}, [])})
        sup = Rec("BaseNode", dict(name="sup"), module=None)
        p = Rec("BaseNode", dict(name="p"), module=None)
        user = z3.Int("user_size")
        user2 = z3.Int("user_size2")
        given = {None: None, "int": {"p": user}, "list1": {"p": [user]}, "list2": {"p": [user, user2]}}[cfg["form"]]
        g = Rec("Graph", {}, module=GR)
        accepted = None
        try:
            ctx.call(self_obj=g, args=[{"p": p}, sup, graphs_raw], kwargs=dict(buffer_sizes=given, supergraph=EnumV("Supergraph", "MCS")))
        except _Stop:
            accepted = True
        except RaiseEx as e:
            accepted = False
            ctx.ensure("only an AssertionError rejects the sizes", z3.BoolVal(e.exc == "AssertionError"))
        ctx.ensure("the constructor reaches the end of the admission block or rejects", z3.BoolVal(accepted is not None))
        if accepted is None:
            return
        biggest = user if cfg["form"] in ("int", "list1") else z3.If(user >= user2, user, user2)
        if cfg["form"] is None:
            ctx.ensure("without user sizes the automatic sizes are used as they are", z3.BoolVal(accepted and g.f["_buffer_sizes"]["p"] == req))
            return
        if accepted:
            fin = g.f["_buffer_sizes"]["p"]
            ring = biggest     # Timings.get_output_buffer allocates max(sizes[name]) (+ extra padding >= 0) slots
            ctx.ensure("C08 accepted user sizes are admissible: the ring is at least as large as EVERY reader's requirement of that producer",
                       z3.And(*[ring >= r for r in req]) if req else z3.BoolVal(True))
            ctx.ensure("C08 the accepted sizes are the ones used for that producer, the other producers keep their automatic sizes",
                       z3.BoolVal(isinstance(fin, list) and len(fin) == (2 if cfg["form"] == "list2" else 1) and g.f["_buffer_sizes"]["q"] == sizes_auto["q"]) if True else None)
            if isinstance(fin, list):
                mx = toz(fin[0]) if len(fin) == 1 else z3.If(toz(fin[0]) >= toz(fin[1]), toz(fin[0]), toz(fin[1]))
                ctx.ensure("C08 ... and their maximum is the user's maximum", mx == biggest)


UNITS += [BufferAdmission(), OutputBuffer()]


class TreeTake(Unit):
    """rex.jax_utils.tree_take (summarised as 'the i-th slice of every leaf' where Graph.init / replace_eps / run_supervisor use it): leaf by leaf x[i], structure kept"""
    name = "tree_take"
    target = "rex/jax_utils.py::tree_take"
    props = ("C09", "C01", "C13")

    def run(self, ctx):
        n, i = z3.Int("n"), z3.Int("i")
        ctx.require(z3.And(n >= 1, 0 <= i, i < n))
        a, c = Arr.fresh("leaf.a", REAL, n), Arr.fresh("leaf.c", INT, n)
        tree = {"a": a, "sub": {"c": c, "none": None}}
        ret = ctx.call(args=[tree, i])
        ok = isinstance(ret, dict) and set(ret) == {"a", "sub"} and isinstance(ret["sub"], dict) and set(ret["sub"]) == {"c", "none"} and ret["sub"]["none"] is None
        ctx.ensure("the result has the structure of the tree", z3.BoolVal(ok))
        if ok:
            ctx.ensure("C09/C01 every leaf of the result is the i-th entry of the corresponding leaf (no other index, no other leaf)",
                       z3.And(toz(ret["a"]) == z3.Select(a.a, i), toz(ret["sub"]["c"]) == z3.Select(c.a, i)))


UNITS += [TreeTake()]
