"""C12 — generated and augmented graphs are well-formed and match the node configuration (rex/artificial.py)."""
import z3
from pyvc.driver import Unit, check_property
from pyvc.values import *
from pyvc.interp import RaiseEx, LoopSpec, CutPath
from pyvc import smt
from . import aw

ART = "rex/artificial.py"
BASE = "rex/base.py"
DSAMPLE = z3.Function("dist_sample", Leaf, Leaf, REAL)    # raw sample of a distrax distribution for a key (may be negative: StaticDist clips)


class Captured(Exception):
    def __init__(self, fn):
        self.fn = fn


def mk_static_dist(tag):
    def sample(ex, sample_shape=(), seed=None):
        ex.ghost.setdefault("dsample_calls", []).append((tag, seed))
        return DSAMPLE(z3.Const(f"{tag}.dist", Leaf), seed)
    dist = Rec("distrax.Distribution", dict(id=z3.Const(f"{tag}.dist", Leaf), sample=sample), module=None, frozen=True)
    return Rec("StaticDist", dict(rng=z3.Const(f"{tag}.rng0", Leaf), dist=dist), module=BASE, frozen=True)


def capture_closures(ctx):
    """runs the real _generate_graphs up to the vmapped call and returns its inner functions (step, _scan_body_seq, episode)"""
    ex = ctx.ex
    a = Rec("BaseNode", dict(name="a", rate=z3.Real("a.rate"), delay_dist=mk_static_dist("a.comp"), phase=z3.Real("a.phase"), outputs={}, inputs={}, advance=False, scheduling=aw.SCHED["FREQUENCY"]), module=None)
    b = Rec("BaseNode", dict(name="b", rate=z3.Real("b.rate"), delay_dist=mk_static_dist("b.comp"), phase=z3.Real("b.phase"), outputs={}, inputs={}, advance=False, scheduling=aw.SCHED["FREQUENCY"]), module=None)
    c = Rec("Connection", dict(output_node=a, input_node=b, delay_dist=mk_static_dist("ab.comm"), blocking=False, skip=z3.Bool("ab.skip"), jitter=aw.JIT["LATEST"], window=1), module=None)
    a.f["outputs"]["b"] = c
    b.f["inputs"]["a"] = c
    ex.assume(z3.And(a.f["rate"] > 0, b.f["rate"] > 0))
    ex.lib.ns["distrax"].entries["Deterministic"] = lambda ex_, loc=None: Rec("distrax.Distribution", dict(id=z3.Const("det", Leaf), sample=lambda ex2, sample_shape=(), seed=None: loc), module=None, frozen=True)

    def vmap(ex_, fn, **k):
        raise Captured(fn)
    ex.lib.ns["jax"].entries["vmap"] = vmap
    nodes = {"a": a, "b": b}
    try:
        ctx.call(target=ART + "::_generate_graphs", kwargs=dict(nodes=nodes, rng=z3.Const("rng", Leaf), num_episodes=z3.Int("num_episodes"), ts_max=z3.Real("ts_max_arg")))
    except Captured as cap:
        env = cap.fn.env_chain[0]
        return nodes, env, cap.fn
    raise Unsupported("_generate_graphs did not reach the vmapped episode function")


class MinimalDelaySubstitution(Unit):
    """graphs are generated / augmented with the MINIMAL delay of a trainable connection (so that every delay in [min, max] can be realised by looking further back)"""
    name = "_generate_graphs (trainable connection -> minimal delay)"
    target = ART + "::_generate_graphs"
    props = ("C10", "C12")

    def run(self, ctx):
        ex = ctx.ex
        made = {}
        ex.lib.ns["distrax"].entries["Deterministic"] = lambda ex_, loc=None: Rec("distrax.Distribution", dict(id=z3.Const("det", Leaf), loc=loc, sample=lambda ex2, sample_shape=(), seed=None: loc), module=None, frozen=True)
        a = Rec("BaseNode", dict(name="a", rate=z3.Real("a.rate"), delay_dist=mk_static_dist("a.comp"), phase=z3.Real("a.phase"), outputs={}, inputs={}, advance=False, scheduling=aw.SCHED["FREQUENCY"]), module=None)
        b = Rec("BaseNode", dict(name="b", rate=z3.Real("b.rate"), delay_dist=mk_static_dist("b.comp"), phase=z3.Real("b.phase"), outputs={}, inputs={}, advance=False, scheduling=aw.SCHED["FREQUENCY"]), module=None)
        tmin, tmax, alpha = z3.Real("t.min"), z3.Real("t.max"), z3.Real("t.alpha")
        ex.assume(z3.And(0 <= tmin, tmin < tmax, 0 <= alpha, alpha <= 1))
        tdist = Rec("TrainableDist", dict(alpha=alpha, min=tmin, max=tmax, interp="zoh"), module=BASE, frozen=True)
        c = Rec("Connection", dict(output_node=a, input_node=b, delay_dist=tdist, blocking=False, skip=False, jitter=aw.JIT["LATEST"], window=1), module=None)
        a.f["outputs"]["b"] = c
        b.f["inputs"]["a"] = c

        def vmap(ex_, fn, **k):
            raise Captured(fn)
        ex.lib.ns["jax"].entries["vmap"] = vmap
        try:
            ctx.call(kwargs=dict(nodes={"a": a, "b": b}, rng=z3.Const("rng", Leaf), num_episodes=z3.Int("num_episodes"), ts_max=z3.Real("ts_max_arg")))
        except Captured as cap:
            env = cap.fn.env_chain[0]
        else:
            ctx.ensure("reaches the episode function", z3.BoolVal(False))
            return
        d = env["communication_delays"].get(("a", "b"))
        ok = isinstance(d, Rec) and d.cls == "StaticDist" and isinstance(d.f.get("dist"), Rec) and "loc" in d.f["dist"].f
        ctx.ensure("the trainable connection is replaced by a static deterministic delay for graph generation", z3.BoolVal(ok))
        if ok:
            ctx.ensure("C10 that delay is the distribution's minimum (not its current value)", toz(d.f["dist"].f["loc"]) == tmin)


class NodeStep(Unit):
    name = "_generate_graphs.step"
    target = ART + "::_generate_graphs.step"
    props = ("C12", "C15")

    def run(self, ctx):
        ex = ctx.ex
        nodes, env, episode = capture_closures(ctx)
        step = env["step"]
        ts_prev, rng_prev, ts_max, i = z3.Real("ts_prev"), z3.Const("rng_prev", Leaf), z3.Real("ts_max"), z3.Int("i")
        (nxt, rng_next), v = ex.call(step, ["a", ts_max, (ts_prev, rng_prev), i], {})
        rate = nodes["a"].f["rate"]
        s = v.f["ts_end"] - v.f["ts_start"]
        ctx.ensure("C12 a vertex starts at the carried time (the phase for the first one) and lasts one sampled, non-negative computation delay", z3.And(v.f["ts_start"] == ts_prev, s >= 0))
        ctx.ensure("C12 the next vertex starts no earlier than one period after this start and never before this one ended (spacing >= 1/rate, no overlap)",
                   z3.And(toz(nxt) >= ts_prev + 1 / rate, toz(nxt) >= v.f["ts_end"], z3.Or(toz(nxt) == ts_prev + 1 / rate, toz(nxt) == v.f["ts_end"])))
        ctx.ensure("C12 nothing valid ends after the requested horizon: seq = -1 iff ts_end > ts_max, else the running index", v.f["seq"] == z3.If(v.f["ts_end"] > ts_max, -1, i))
        ctx.ensure("C15 the computation delay is drawn from the node's distribution with a key split from the carried rng (replayable), clipped at 0",
                   z3.And(s == z3.If(DSAMPLE(z3.Const("a.comp.dist", Leaf), ex.lib.ns["jax.random"].entries["split"](ex, ex.lib.ns["jax.random"].entries["split"](ex, rng_prev, 2).unpack(ex, 2)[0], 2).unpack(ex, 2)[1]) < 0, 0,
                                      DSAMPLE(z3.Const("a.comp.dist", Leaf), ex.lib.ns["jax.random"].entries["split"](ex, ex.lib.ns["jax.random"].entries["split"](ex, rng_prev, 2).unpack(ex, 2)[0], 2).unpack(ex, 2)[1]))),
                   props=("C15", "C12"))


class EdgeAssign(Unit):
    name = "_generate_graphs._scan_body_seq"
    target = ART + "::_generate_graphs._scan_body_seq"
    props = ("C12",)

    def configs(self):
        yield "skip", dict(skip=True)
        yield "no-skip", dict(skip=False)

    def run(self, ctx):
        ex = ctx.ex
        nodes, env, episode = capture_closures(ctx)
        f = env["_scan_body_seq"]
        n = z3.Int("num_steps")
        ctx.require(n >= 1)
        T = Arr.fresh("receiver.ts_start", REAL, n)
        seq0, recv = z3.Int("seq_carry"), z3.Real("ts_recv")
        ctx.require(z3.And(0 <= seq0, seq0 <= n - 1))
        skip = ctx.cfg["skip"]
        late = (lambda t: z3.Select(T.a, t) > recv) if skip else (lambda t: z3.Select(T.a, t) >= recv)
        j = z3.Int("j!ea")
        ex.loops[("lax.while_loop", 1)] = LoopSpec(lambda ex_, x: z3.And(seq0 <= toz(x), toz(x) <= n - 1, z3.ForAll([j], z3.Implies(z3.And(seq0 <= j, j < toz(x)), z3.Not(late(j))))))
        last, clipped = ex.call(f, [skip, T, seq0, recv], {})
        last, clipped = toz(last), toz(clipped)
        rule = "strictly after" if skip else "at or after"
        ctx.ensure(f"C12 from the carried index on, the message is assigned to the first receiver step starting {rule} its arrival; -1 if no such step exists",
                   z3.And(seq0 <= last, last <= n - 1, z3.ForAll([j], z3.Implies(z3.And(seq0 <= j, j < last), z3.Not(late(j)))),
                          z3.If(late(last), clipped == last, z3.And(clipped == -1, last == n - 1))))
        a, b = z3.Ints("a!m b!m")
        mono = z3.ForAll([a, b], z3.Implies(z3.And(0 <= a, a <= b, b < n), z3.Select(T.a, a) <= z3.Select(T.a, b)))
        prev = z3.Real("previous_arrival")
        ctx.ensure("C12 lemma: with receiver starts in order and arrivals non-decreasing (the carry never passed a qualifying step), it is the first such step overall",
                   z3.Implies(z3.And(mono, prev <= recv, z3.ForAll([j], z3.Implies(z3.And(0 <= j, j < seq0), z3.Not((z3.Select(T.a, j) > prev) if skip else (z3.Select(T.a, j) >= prev)))), late(last)),
                              z3.ForAll([j], z3.Implies(z3.And(0 <= j, j < last), z3.Not(late(j))))))


class AugmentFrame(Unit):
    """augmenting keeps every existing vertex and edge object and adds exactly the missing ones"""
    name = "_generate_graphs.episode (augment frame)"
    target = ART + "::_generate_graphs.episode"
    props = ("C12",)

    def configs(self):
        yield "vertex b and edge (a,b) missing", dict(have_v=["a"], have_e=[])
        yield "only edge (a,b) missing", dict(have_v=["a", "b"], have_e=[])
        yield "nothing missing", dict(have_v=["a", "b"], have_e=[("a", "b")])
        # the graph being augmented also holds a vertex and an edge that the supplied nodes do not declare (e.g. a recorded tap x -> b): they must survive
        yield "extra undeclared vertex and edge present", dict(have_v=["a", "x"], have_e=[("x", "a")])

    def opts(self, cfg):
        def scan(ex, f, init, xs, length):
            name = getattr(f, "f", f)
            if isinstance(f, Partial) and getattr(f.f, "name", "") == "step":
                n = toz(length)
                return None, Rec("Vertex", dict(seq=Arr.fresh("new.seq", INT, n), ts_start=Arr.fresh("new.ts_start", REAL, n), ts_end=Arr.fresh("new.ts_end", REAL, n)), module=BASE, frozen=True)
            n = xs.n
            return z3.Int("last_seq"), Arr.fresh("new.seqs_clipped", INT, n)
        return {"scan": scan}

    def run(self, ctx):
        ex, cfg = ctx.ex, ctx.cfg
        nodes, env, episode = capture_closures(ctx)
        n = z3.Int("len")
        ctx.require(n >= 1)
        mkv = lambda t: Rec("Vertex", dict(seq=Arr.fresh(f"{t}.seq", INT, n), ts_start=Arr.fresh(f"{t}.ts_start", REAL, n), ts_end=Arr.fresh(f"{t}.ts_end", REAL, n)), module=BASE, frozen=True)
        V = {k: mkv("old." + k) for k in cfg["have_v"]}
        E = {k: Rec("Edge", dict(seq_out=Arr.fresh(f"old.e.{k[0]}{k[1]}.seq_out", INT, n), seq_in=Arr.fresh(f"old.e.{k[0]}{k[1]}.seq_in", INT, n), ts_recv=Arr.fresh(f"old.e.{k[0]}{k[1]}.ts_recv", REAL, n)), module=BASE, frozen=True)
             for k in cfg["have_e"]}
        g = Rec("Graph", dict(vertices=V, edges=E), module=BASE, frozen=True)
        env["ts_max"] = Arr.fresh("ts_max_all", REAL, z3.Int("num_episodes"))
        ex.assume(z3.Int("num_episodes") >= 1)
        jh = z3.Int("j!h")
        ex.assume(z3.ForAll([jh], z3.Select(env["ts_max"].a, jh) >= 0))     # the requested horizon is non-negative
        jnp = ex.lib.ns["jax.numpy"]
        orig_where = jnp.entries["where"]
        from pyvc import libmodels
        BIG = z3.Real("INF")
        ex.assume(BIG > z3.Real("ts_max_eps"))     # +inf exceeds the (finite) horizon

        def where(ex_, c, a, b):
            if a is libmodels._INF:
                a = BIG
            return orig_where(ex_, c, a, b)
        jnp.entries["where"] = where
        try:
            out = ex.call(episode, [z3.Const("rng_eps", Leaf), g, z3.Real("ts_max_eps")], {})
        finally:
            jnp.entries["where"] = orig_where
        ok = isinstance(out, Rec) and out.cls == "Graph"
        ctx.ensure("returns a Graph", z3.BoolVal(ok))
        if not ok:
            return
        ctx.ensure("C12 every existing vertex is returned unchanged (the very same arrays)", z3.BoolVal(all(out.f["vertices"].get(k) is V[k] for k in V)))
        ctx.ensure("C12 every existing edge is returned unchanged", z3.BoolVal(all(out.f["edges"].get(k) is E[k] for k in E)))
        ctx.ensure("C12 exactly the missing nodes and connections are added (everything that was there stays, declared by the supplied nodes or not)",
                   z3.BoolVal(set(out.f["vertices"]) == {"a", "b"} | set(V) and set(out.f["edges"]) == {("a", "b")} | set(E)))
        if ("a", "b") not in E:
            e = out.f["edges"][("a", "b")]
            so = out.f["vertices"]["a"].f["seq"]
            te = out.f["vertices"]["a"].f["ts_end"]
            j = z3.Int("j!af")
            ctx.ensure("C12 messages of unsent / out-of-horizon steps are masked with -1 (seq_out, seq_in and ts_recv)",
                       z3.ForAll([j], z3.Implies(z3.And(0 <= j, j < so.n, z3.Select(so.a, j) == -1), z3.And(z3.Select(e.f["seq_out"].a, j) == -1, z3.Select(e.f["ts_recv"].a, j) == -1, z3.Select(e.f["seq_in"].a, j) == -1))),
                       hyps=None)
            comm = [sd for (tg, sd) in ex.ghost.get("dsample_calls", []) if tg == "ab.comm"]
            ctx.ensure("C12 the communication delay is drawn once per generated edge, from that connection's own distribution", z3.BoolVal(len(comm) == 1))
            if len(comm) == 1:
                ds = DSAMPLE(z3.Const("ab.comm.dist", Leaf), comm[0])
                d = z3.If(ds < 0, z3.RealVal(0), ds)
                ctx.ensure("C12 a sent message is received at its sender's end time plus the (non-negative) sampled communication delay: never before it was sent",
                           z3.ForAll([j], z3.Implies(z3.And(0 <= j, j < so.n, z3.Select(so.a, j) != -1),
                                                     z3.And(z3.Select(e.f["ts_recv"].a, j) == z3.Select(te.a, j) + d, z3.Select(e.f["ts_recv"].a, j) >= z3.Select(te.a, j)))), hyps=None)
                tmx = z3.Real("ts_max_eps")
                ctx.ensure("C12 messages sent within the horizon keep their sequence number; later ones are masked",
                           z3.ForAll([j], z3.Implies(z3.And(0 <= j, j < so.n), z3.Select(e.f["seq_out"].a, j) == z3.If(z3.Or(z3.Select(so.a, j) == -1, z3.Select(te.a, j) > tmx), -1, z3.Select(so.a, j)))), hyps=None)


class VertexSpacing(Unit):
    """scan-level statement, independent of the carry's shape: two consecutive applications of the real scan body on an arbitrary carry"""
    name = "_generate_graphs.episode (vertex scan)"
    target = ART + "::_generate_graphs.episode"
    props = ("C12",)

    def opts(self, cfg):
        unit = self

        def scan(ex, f, init, xs, length):
            if isinstance(f, Partial) and getattr(f.f, "name", "") == "step":
                name = f.args[0]
                unit.seen = dict(name=name, init=init)
                c0 = ex.havoc(init, "carry")
                i0 = z3.Int("i0")
                c1, v1 = ex.call(f, [c0, i0], {})
                c2, v2 = ex.call(f, [c1, i0 + 1], {})
                unit.seen.update(v1=v1, v2=v2, c0=c0)
                # first application on the real initial carry
                _, vfirst = ex.call(f, [init, z3.IntVal(0)], {})
                unit.seen["vfirst"] = vfirst
                raise Captured(None)
            raise Unsupported("unexpected scan")
        return {"scan": scan}

    def run(self, ctx):
        ex = ctx.ex
        nodes, env, episode = capture_closures(ctx)
        env["ts_max"] = Arr.fresh("ts_max_all", REAL, z3.Int("num_episodes"))
        jh = z3.Int("j!h")
        ex.assume(z3.And(z3.Int("num_episodes") >= 1, z3.ForAll([jh], z3.Select(env["ts_max"].a, jh) >= 0)))     # at least one episode, non-negative horizon
        for nd in nodes.values():
            ex.assume(nd.f["phase"] >= 0)       # node phases are non-negative (BaseNode.phase contract, C16)
        g = Rec("Graph", dict(vertices={}, edges={}), module=BASE, frozen=True)
        self.seen = {}
        try:
            ex.call(episode, [z3.Const("rng_eps", Leaf), g, z3.Real("ts_max_eps")], {})
        except Captured:
            pass
        sn = self.seen
        ctx.ensure("the vertex timestamps of a new node are generated by a scan over the step function", z3.BoolVal("v1" in sn))
        if "v1" not in sn:
            return
        rate = nodes[sn["name"]].f["rate"]
        v1, v2, vf = sn["v1"].f, sn["v2"].f, sn["vfirst"].f
        ctx.ensure("C12 the first vertex of a node starts at its phase", toz(vf["ts_start"]) == nodes[sn["name"]].f["phase"])
        ctx.ensure("C12 consecutive vertices of a node start at least one period apart, from every state the scan can carry", toz(v2["ts_start"]) >= toz(v1["ts_start"]) + 1 / rate)
        ctx.ensure("C12 consecutive vertices never overlap: the next one starts no earlier than this one ends", toz(v2["ts_start"]) >= toz(v1["ts_end"]))
        ctx.ensure("C12 every vertex lasts a non-negative (sampled) computation delay", z3.And(toz(v1["ts_end"]) >= toz(v1["ts_start"]), toz(v2["ts_end"]) >= toz(v2["ts_start"])))
        ctx.ensure("C12 nothing valid ends after the horizon: seq = -1 iff ts_end > ts_max, else consecutive indices",
                   z3.And(toz(v1["seq"]) == z3.If(toz(v1["ts_end"]) > z3.Real("ts_max_eps"), -1, z3.Int("i0")), toz(v2["seq"]) == z3.If(toz(v2["ts_end"]) > z3.Real("ts_max_eps"), -1, z3.Int("i0") + 1)))



class _Shaped:
    """an array leaf of which only the rank matters here"""

    def __init__(self, tag, rank):
        self.tag, self.rank = tag, rank

    def pyvc_getattr(self, ex, attr):
        if attr == "shape":
            return tuple(z3.Int(f"{self.tag}.dim{i}") for i in range(self.rank))
        raise Unsupported(attr)

    def __repr__(self):
        return f"<{self.tag} rank {self.rank}>"


class PublicWrappers(Unit):
    """generate_graphs / augment_graphs hand their arguments to _generate_graphs unchanged (default key PRNGKey(0)); augmenting a single (unbatched) graph adds the
    episode axis to EVERY leaf before and removes it from every leaf of the result afterwards, a batched graph goes through as it is, anything else is refused"""
    name = "generate_graphs / augment_graphs (public wrappers)"
    target = ART + "::augment_graphs"
    props = ("C12",)

    def configs(self):
        yield "single graph (no episode axis)", dict(rank=1)
        yield "batched graphs", dict(rank=2)
        yield "three axes", dict(rank=3)

    def run(self, ctx):
        ex, cfg = ctx.ex, ctx.cfg
        calls = []
        result = Rec("Graph", dict(vertices={"a": Rec("Vertex", dict(seq=_Shaped("out.a.seq", 2), ts_start=_Shaped("out.a.ts_start", 2), ts_end=_Shaped("out.a.ts_end", 2)), module=BASE, frozen=True)},
                                   edges={("a", "b"): Rec("Edge", dict(seq_out=_Shaped("out.ab.seq_out", 2), seq_in=_Shaped("out.ab.seq_in", 2), ts_recv=_Shaped("out.ab.ts_recv", 2)), module=BASE, frozen=True)}), module=BASE, frozen=True)
        ex.summaries["_generate_graphs"] = lambda ex_, o, a, k, node: (calls.append((a, k)), result)[1]
        jnp = ex.lib.ns["jax.numpy"]
        saved = {k: jnp.entries.get(k) for k in ("expand_dims", "squeeze")}
        jnp.entries["expand_dims"] = lambda ex_, x, axis=None: ("expanded", x, axis)
        jnp.entries["squeeze"] = lambda ex_, x, axis=None: ("squeezed", x, axis)
        r = cfg["rank"]
        g = Rec("Graph", dict(vertices={"a": Rec("Vertex", dict(seq=_Shaped("a.seq", r), ts_start=_Shaped("a.ts_start", r), ts_end=_Shaped("a.ts_end", r)), module=BASE, frozen=True)},
                              edges={("a", "b"): Rec("Edge", dict(seq_out=_Shaped("ab.seq_out", r), seq_in=_Shaped("ab.seq_in", r), ts_recv=_Shaped("ab.ts_recv", r)), module=BASE, frozen=True)}), module=BASE, frozen=True)
        nodes, rng = {"a": z3.Const("node_a", Leaf)}, z3.Const("rng", Leaf)
        try:
            try:
                out = ctx.call(args=[g, nodes], kwargs=dict(rng=rng))
            except RaiseEx as e:
                ctx.ensure("C12 only a graph with more than two axes is refused (ValueError), before anything is generated", z3.BoolVal(r == 3 and e.exc == "ValueError" and not calls))
                return
            ctx.ensure("a graph with more than two axes is refused", z3.BoolVal(r != 3))
            ok = len(calls) == 1 and calls[0][1].get("nodes") is nodes and calls[0][1].get("rng") is rng and isinstance(calls[0][1].get("graphs"), Rec)
            ctx.ensure("C12 the generator is called once with the caller's nodes and key and the graphs to augment (no horizon / episode count of its own)", z3.BoolVal(ok and set(calls[0][1]) == {"nodes", "rng", "graphs"}))
            if not ok:
                return
            gin = calls[0][1]["graphs"]
            leaves_in = [gin.f["vertices"]["a"].f[k] for k in ("seq", "ts_start", "ts_end")] + [gin.f["edges"][("a", "b")].f[k] for k in ("seq_out", "seq_in", "ts_recv")]
            leaves_g = [g.f["vertices"]["a"].f[k] for k in ("seq", "ts_start", "ts_end")] + [g.f["edges"][("a", "b")].f[k] for k in ("seq_out", "seq_in", "ts_recv")]
            leaves_res = [result.f["vertices"]["a"].f[k] for k in ("seq", "ts_start", "ts_end")] + [result.f["edges"][("a", "b")].f[k] for k in ("seq_out", "seq_in", "ts_recv")]
            leaves_out = [out.f["vertices"]["a"].f[k] for k in ("seq", "ts_start", "ts_end")] + [out.f["edges"][("a", "b")].f[k] for k in ("seq_out", "seq_in", "ts_recv")] if isinstance(out, Rec) else []
            if r == 1:
                ctx.ensure("C12 a single graph: every vertex and edge array gets a leading episode axis on the way in ...", z3.BoolVal(all(isinstance(a, tuple) and a[0] == "expanded" and a[1] is b and a[2] == 0 for a, b in zip(leaves_in, leaves_g))))
                ctx.ensure("C12 ... and loses exactly that axis again on the way out (the caller gets a single graph back)", z3.BoolVal(len(leaves_out) == 6 and all(isinstance(a, tuple) and a[0] == "squeezed" and a[1] is b and a[2] == 0 for a, b in zip(leaves_out, leaves_res))))
            else:
                ctx.ensure("C12 batched graphs go in and come out as they are", z3.BoolVal(gin is g and out is result))
            # generate_graphs
            calls.clear()
            gg = ex.module_global(ctx.repo.module(ART), "generate_graphs")
            ts_max, n = z3.Real("ts_max"), z3.Int("num_episodes")
            out2 = ex.call(gg, [nodes, ts_max], dict(rng=rng, num_episodes=n))
            ok2 = len(calls) == 1 and calls[0][1].get("nodes") is nodes and calls[0][1].get("rng") is rng
            ctx.ensure("C12 generate_graphs hands nodes, horizon, key and episode count to the generator unchanged and returns its result",
                       z3.And(z3.BoolVal(ok2 and out2 is result and set(calls[0][1]) == {"nodes", "ts_max", "rng", "num_episodes"}), toz(calls[0][1]["ts_max"]) == ts_max, toz(calls[0][1]["num_episodes"]) == n) if ok2 else z3.BoolVal(False))
        finally:
            for k, v in saved.items():
                if v is not None:
                    jnp.entries[k] = v
                else:
                    jnp.entries.pop(k, None)


UNITS = [NodeStep(), VertexSpacing(), EdgeAssign(), AugmentFrame(), MinimalDelaySubstitution(), PublicWrappers()]


def all_units():
    """+ the sampling contract of the delay distributions the generator draws from (imported late: c15 -> c10 -> c12)"""
    from .c15 import StaticSample
    return UNITS + [StaticSample()]
EXTRA = dict(assumptions=["jax.lax.scan / vmap fold and batch the verified bodies (assumed); acyclicity follows from time order (vertex after its predecessor, edge to a step starting at/after arrival): written argument",
                          "the scan carry of the edge assignment assumes arrivals in send order; with jittery communication delays a message can be overtaken and is then assigned one step late "
                          "(confirmed on the real code in the design phase; recorded in DESIGN 7 as an observation - the per-call obligations proved here are conditional on the carry)"])


def check(tier, seed):
    from pyvc import bounded
    n = 24 if tier == "quick" else 200
    res = bounded.run_native("c12_generate.py", ["--n", str(n), "--seed", str(seed)])
    lines, ev, err = bounded.report("C12", "generated and augmented graphs checked vertex by vertex and edge by edge", res, "c12_generate.py")
    extra = dict(EXTRA)
    extra["bounded"] = [dict(ev, bound=f"{n} random node sets (2-4 nodes, rates 2-20 Hz, deterministic / normal computation and communication delays, trainable connections, skip, windows, 1-3 episodes, "
                                       "a third of them generated in two stages through augment_graphs): first vertex at the phase, spacing >= period, no overlap, nothing ends after the horizon, "
                                       "receive >= sender end, every message assigned to the first step starting at / strictly after its arrival, edges forward in time, augment keeps existing arrays bit for bit")]
    for l in ev.get("known_finding_lines", []):
        print(l)
    code = check_property("C12", all_units(), tier, seed, extra=extra)
    if lines:
        for l in lines:
            print(l)
        return 1
    if err and code == 0:
        print(f"ERROR property=C12 bounded stand-in failed to run: {err[-300:]}")
        return 3
    return code
