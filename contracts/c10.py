"""C10 — a trainable delay set to d behaves exactly like a static delay of d (zero-order hold): rex/base.py TrainableDist."""
import z3
from pyvc.driver import Unit, check_property
from pyvc.values import *
from pyvc.interp import RaiseEx
from pyvc import smt
from . import aw
from .compiled import mk_input_state, BASE


def mk_dist(interp="zoh"):
    mn, mx, alpha = z3.Real("dist.min"), z3.Real("dist.max"), z3.Real("dist.alpha")
    return Rec("TrainableDist", dict(alpha=alpha, min=mn, max=mx, interp=interp), module=BASE, frozen=True), mn, mx, alpha


class DistAlgebra(Unit):
    name = "TrainableDist.sample/quantile/mean/get_alpha/window"
    target = BASE + "::TrainableDist.sample"
    props = ("C10", "C15", "C11")

    def run(self, ctx):
        ex = ctx.ex
        D, mn, mx, alpha = mk_dist()
        ctx.require(z3.And(0 <= mn, mn < mx, 0 <= alpha, alpha <= 1))     # TrainableDist.create's assertions; get_alpha clips
        nd, s = ex.call(ex.getattr(D, "sample"), [], {})
        d = mn + alpha * (mx - mn)
        ctx.ensure("sample = quantile = mean = min + alpha (max - min), a value in [min, max] and >= 0; sampling returns the same distribution",
                   z3.And(toz(s) == d, toz(ex.call(ex.getattr(D, "quantile"), [z3.Real("q")], {})) == d, toz(ex.call(ex.getattr(D, "mean"), [], {})) == d, mn <= d, d <= mx, d >= 0, z3.BoolVal(nd is D)))
        delay = z3.Real("delay")
        a = toz(ex.call(ex.getattr(D, "get_alpha"), [delay], {}))
        eff = mn + a * (mx - mn)
        ctx.ensure("C10 a requested delay inside [min, max] is realised exactly; values outside saturate at the bounds",
                   eff == z3.If(delay < mn, mn, z3.If(delay > mx, mx, delay)))
        rate = z3.Real("rate")
        ctx.require(rate > 0)
        w = toz(ex.call(ex.getattr(D, "window"), [rate], {}))
        ctx.ensure("window extension = ceil(rate (max - min)) >= 1", z3.And(z3.ToReal(w) >= rate * (mx - mn), z3.ToReal(w) < rate * (mx - mn) + 1, w >= 1))


class DistCreate(Unit):
    """TrainableDist.create / equivalent: the route "through the distribution" of the statement - a distribution created with delay d in [min, max] realises exactly d; out-of-range
    requests, negative or empty ranges and unknown interpolation modes are refused at construction; two distributions are interchangeable at run time exactly when they
    agree on min, max and interp (whatever their alpha: that is what lets params / init_delays re-parametrise a compiled graph)"""
    name = "TrainableDist.create / equivalent"
    target = BASE + "::TrainableDist.create"
    props = ("C10", "C15")

    def configs(self):
        for interp in ("zoh", "linear", "linear_real_only", "cubic"):
            yield f"interp={interp}", dict(interp=interp)

    def opts(self, cfg):
        return {"assert_raises": True}

    def run(self, ctx):
        ex, cfg = ctx.ex, ctx.cfg
        d, mn, mx = z3.Reals("delay min max")
        cref = ex.module_global(ctx.repo.module(BASE), "TrainableDist")
        ok_args = z3.And(mn < mx, mn <= d, d <= mx, 0 <= mn)
        try:
            D = ctx.call(self_obj=cref, args=[d, mn, mx], kwargs=dict(interp=cfg["interp"]))
        except RaiseEx as e:
            ctx.ensure("C10 create refuses (AssertionError) only an empty / negative range, a delay outside [min, max] or an unknown interpolation mode",
                       z3.And(z3.BoolVal(e.exc == "AssertionError"), z3.Or(z3.Not(ok_args), z3.BoolVal(cfg["interp"] == "cubic"))))
            return
        ok = isinstance(D, Rec) and D.cls == "TrainableDist"
        ctx.ensure("creates a TrainableDist", z3.BoolVal(ok))
        if not ok:
            return
        ctx.ensure("C10 ... and accepts nothing else", z3.And(ok_args, z3.BoolVal(cfg["interp"] != "cubic")))
        ctx.ensure("C10 the created distribution realises exactly the requested delay: min + alpha (max - min) = d, with alpha in [0, 1]; bounds and interpolation mode are stored as given",
                   z3.And(toz(D.f["min"]) + toz(D.f["alpha"]) * (toz(D.f["max"]) - toz(D.f["min"])) == d, toz(D.f["alpha"]) >= 0, toz(D.f["alpha"]) <= 1, toz(D.f["min"]) == mn, toz(D.f["max"]) == mx,
                          z3.BoolVal(D.f["interp"] == cfg["interp"])))
        # equivalent
        a2, mn2, mx2 = z3.Reals("alpha2 min2 max2")
        for other_interp in ("zoh", "linear"):
            O = Rec("TrainableDist", dict(alpha=a2, min=mn2, max=mx2, interp=other_interp), module=BASE, frozen=True)
            eq = ex.call(ex.getattr(D, "equivalent"), [O], {})
            ctx.ensure(f"C10 equivalent(other[{other_interp}]) holds exactly when min, max and the interpolation mode agree - alpha is free",
                       toz(ex.truth(eq)) == z3.And(mn2 == mn, mx2 == mx, z3.BoolVal(other_interp == cfg["interp"])))
        S = Rec("StaticDist", dict(rng=z3.Const("rng", Leaf), dist=z3.Const("dist", Leaf)), module=BASE, frozen=True)
        ctx.ensure("a static distribution is never equivalent to a trainable one", z3.Not(toz(ex.truth(ex.call(ex.getattr(D, "equivalent"), [S], {})))))


class ApplyDelayZoh(Unit):
    name = "TrainableDist.apply_delay (zoh)"
    target = BASE + "::TrainableDist.apply_delay"
    props = ("C10",)

    def summaries(self, cfg):
        # TrainableDist.window is under its own contract (unit above): here it is an arbitrary extension Wd >= 0
        return {("TrainableDist", "window"): lambda ex, o, a, k, n: z3.Int("Wd")}

    def run(self, ctx):
        ex = ctx.ex
        D, mn, mx, alpha = mk_dist("zoh")
        ctx.require(z3.And(0 <= mn, mn < mx, 0 <= alpha, alpha <= 1))
        Wd, C = z3.Int("Wd"), z3.Int("C")
        ctx.require(z3.And(Wd >= 0, C >= 1, C - Wd >= 1))     # apply_window extends the connection's window (>= 1) by Wd
        inp = mk_input_state("in", C, dd=D)
        ts_start = z3.Real("ts_start")
        d = mn + alpha * (mx - mn)
        seq, sent, recv0, data = inp.f["seq"].a, inp.f["ts_sent"].a, inp.f["ts_recv"].a, inp.f["data"].a
        recv = lambda k: z3.If(z3.Select(seq, k) < 0, z3.Select(recv0, k), z3.Select(sent, k) + d)   # arrival under the delay d
        for nm, t in (("C", C), ("Wd", Wd), ("ts_start", ts_start), ("alpha", alpha), ("mn", mn), ("mx", mx)):
            ctx.probe(nm, t)
        for i in range(NPROBE):
            ctx.probe(f"seq{i}", z3.Select(seq, i)); ctx.probe(f"sent{i}", z3.Select(sent, i)); ctx.probe(f"recv{i}", z3.Select(recv0, i))
        ret = ctx.call(self_obj=D, args=[z3.Real("rate_out"), inp, ts_start])
        if ret is inp:
            ctx.ensure("no window extension (Wd = 0): the input state is returned as is", Wd == 0)
            return
        ctx.ensure("extension present", Wd > 0)
        W = C - Wd
        j, k = z3.Ints("j!ad k!ad")
        imax = z3.Int("imax")
        first_late = z3.Or(z3.And(imax == C, z3.ForAll([k], z3.Implies(z3.And(0 <= k, k < C), recv(k) <= ts_start))),
                           z3.And(0 <= imax, imax < C, recv(imax) > ts_start, z3.ForAll([k], z3.Implies(z3.And(0 <= k, k < imax), recv(k) <= ts_start))))
        raw = z3.If(imax - W < 0, imax - W + C, imax - W)            # dynamic_slice wraps a negative start before clamping
        start = z3.If(raw < 0, 0, z3.If(raw > C - W, C - W, raw))
        r = ret.f
        body = lambda off: z3.And(r["seq"].n == W, z3.ForAll([j], z3.Implies(z3.And(0 <= j, j < W), z3.And(
            z3.Select(r["seq"].a, j) == z3.Select(seq, off + j), z3.Select(r["ts_sent"].a, j) == z3.Select(sent, off + j),
            z3.Select(r["ts_recv"].a, j) == recv(off + j), z3.Select(r["data"].a, j) == z3.Select(data, off + j)))))
        ctx.ensure("C10 the step receives exactly `window` entries: the slice of the extended window that ends just before the first entry arriving after ts_start (a start before the window wraps and is clamped: only when fewer than `window` entries have arrived)",
                   z3.substitute(z3.And(first_late, body(start)), (imax, ex.ghost["argwhere"][-1])) if ex.ghost.get("argwhere") else z3.Exists([imax], z3.And(first_late, body(start))))
        # the equivalence clause, under the extended-window precondition
        pre = z3.And(z3.ForAll([j, k], z3.Implies(z3.And(0 <= j, j <= k, k < C), recv(j) <= recv(k))),           # arrivals in order
                     z3.Exists([imax], z3.And(first_late, imax >= W)))                                          # at most Wd entries are still in flight
        ctx.ensure("C10 with arrivals in order and at most Wd entries still in flight: the result is the last `window` entries that have arrived by ts_start under delay d "
                   "(what a graph recorded with the static delay d hands that step), each with receive time ts_sent + d",
                   z3.Implies(pre, z3.Exists([imax], z3.And(first_late, imax >= W, body(imax - W)))))
        ctx.ensure("the trainable distribution travels with the input (so the delay stays adjustable)", z3.BoolVal(r["delay_dist"] is D))


NODE = "rex/node.py"


class InitInputsDelays(Unit):
    """BaseNode.init_inputs: the route `init_delays -> alpha` of the statement ("through init_delays/params"). init_delays is keyed by INPUT name (the key of node.inputs, which may shadow the connected
    node's name); the entry for an input with a trainable distribution sets that input's alpha = clip((d - min) / (max - min), 0, 1); every other distribution is handed on untouched; the default window
    holds exactly `window` entries with negative sequence numbers."""
    name = "BaseNode.init_inputs (init_delays -> alpha)"
    target = NODE + "::BaseNode.init_inputs"
    props = ("C10",)

    def configs(self):
        yield "shadow input name", dict(inputs=[("obs", "plant", True, 2)], delays=["obs"])
        yield "input names and node names crossed", dict(inputs=[("a", "b", True, 1), ("b", "a", True, 3)], delays=["a", "b"])
        yield "entry under the connected node's name only", dict(inputs=[("obs", "plant", True, 2)], delays=["plant"])
        yield "partial dictionary", dict(inputs=[("x", "n1", True, 2), ("y", "n2", True, 1)], delays=["y"])
        yield "entry for a static connection", dict(inputs=[("x", "n1", False, 2), ("y", "n2", True, 2)], delays=["x", "y"])

    def run(self, ctx):
        ex, cfg = ctx.ex, ctx.cfg
        ins, dists, outs = {}, {}, {}
        for (iname, oname, trainable, window) in cfg["inputs"]:
            mn, mx, al = z3.Real(f"{iname}.min"), z3.Real(f"{iname}.max"), z3.Real(f"{iname}.alpha")
            ctx.require(z3.And(0 <= mn, mn < mx, 0 <= al, al <= 1))
            dd = Rec("TrainableDist", dict(alpha=al, min=mn, max=mx, interp="zoh"), module=BASE, frozen=True) if trainable else Rec("StaticDist", dict(dist=z3.Const(f"{iname}.dist", Leaf)), module=BASE, frozen=True)
            dists[iname] = (dd, mn, mx)
            outs[iname] = z3.Const(f"{oname}.default_output", Leaf)
            onode = Rec("BaseNode", dict(name=oname, init_output=(lambda o: lambda ex_, rng=None, gs=None: o)(outs[iname])), module=None)
            ins[iname] = Rec("Connection", dict(window=window, output_node=onode, delay_dist=dd), module=None)
        d = {k: z3.Real(f"delay[{k}]") for k in cfg["delays"]}
        node = Rec("BaseNode", dict(name="me", inputs=ins, init_delays=lambda ex_, rng=None, gs=None: dict(d)), module=NODE)
        ret = ctx.call(self_obj=node, args=[z3.Const("rng", Leaf), z3.Const("graph_state", Leaf)])
        got = dict(ret.items()) if hasattr(ret, "items") else None
        ctx.ensure("one InputState per input, under the input's name", z3.BoolVal(got is not None and list(got) == [i[0] for i in cfg["inputs"]]))
        if got is None:
            return
        for (iname, oname, trainable, window) in cfg["inputs"]:
            st, (dd, mn, mx) = got[iname], dists[iname]
            nd = st.f["delay_dist"]
            if trainable and iname in d:
                frac = (d[iname] - mn) / (mx - mn)
                ctx.ensure(f"C10 input {iname}: alpha is set from init_delays[{iname!r}] (its own entry, by input name), saturating at the bounds",
                           z3.And(z3.BoolVal(isinstance(nd, Rec) and nd.cls == "TrainableDist"), toz(nd.f["alpha"]) == z3.If(frac < 0, 0, z3.If(frac > 1, 1, frac)),
                                  toz(nd.f["min"]) == mn, toz(nd.f["max"]) == mx, z3.BoolVal(nd.f["interp"] == "zoh")) if isinstance(nd, Rec) and nd.cls == "TrainableDist" else z3.BoolVal(False))
            else:
                ctx.ensure(f"C10 input {iname}: no entry of its own (or not trainable) - the connection's distribution is handed on untouched", z3.BoolVal(nd is dd))
            seq = st.f["seq"]
            n = seq.n if isinstance(seq, Arr) else len(seq)
            j = z3.Int("j!ii")
            ctx.ensure(f"C10 input {iname}: exactly `window` default entries, all with negative sequence numbers (oldest first: -window .. -1)",
                       z3.And(toz(n) == window, *[toz(ex.getitem(seq, i)) == i - window for i in range(window)]))


NPROBE = 8


def _num(s):
    from fractions import Fraction
    s = str(s).replace("?", "")
    return float(Fraction(s)) if "/" in s else float(s)


def _replay_zoh(self, label, clause, probes, model):
    """the counter-model as an explicit case of bounded/c10_zoh.py (only when the whole extended window fits the probed prefix)"""
    try:
        C, Wd = int(_num(probes["C"])), int(_num(probes["Wd"]))
    except Exception:
        return None
    if not (1 <= C <= NPROBE and 0 < Wd < C):
        return None
    case = dict(mode="explicit", W=C - Wd, ts_start=_num(probes["ts_start"]), alpha=_num(probes["alpha"]), mn=_num(probes["mn"]), mx=_num(probes["mx"]),
                seq=[int(_num(probes[f"seq{i}"])) for i in range(C)], ts_sent=[_num(probes[f"sent{i}"]) for i in range(C)], ts_recv=[_num(probes[f"recv{i}"]) for i in range(C)])
    return {"kind": "bounded_case", "script": "c10_zoh.py", "case": case}


ApplyDelayZoh.replay = _replay_zoh
InitInputsDelays.replay = lambda self, label, clause, probes, model: {"kind": "pure", "which": "init_inputs", "cfg": dict(self.configs())[label]}
DistAlgebra.replay = lambda self, label, clause, probes, model: {"kind": "pure", "which": "trainable_dist", "probes": probes}


from .c12 import MinimalDelaySubstitution
from .c07 import ApplyWindowBody
from .compiled import UpdateInputsDelay
UNITS = [DistAlgebra(), DistCreate(), ApplyDelayZoh(), InitInputsDelays(), MinimalDelaySubstitution(), ApplyWindowBody(), UpdateInputsDelay()]
EXTRA = dict(assumptions=["the coverage lemma 'every generated / recorded graph satisfies the extended-window precondition' needs sender sends >= 1/rate apart; it is NOT proved here (DESIGN 6/C10: refuted for jittery computation delays - recorded as an observation, see DESIGN 7)",
                          "make_update_inputs keeps the previous delay distribution (proved under C08's _update_inputs unit)"])


def check(tier, seed):
    from pyvc import bounded
    md = bounded.model_differential(150 if tier == "quick" else 1500, seed)
    extra = dict(EXTRA)
    extra["explanation"] = ("library model differential (spot check of the trusted base, not a proof): the assumed contracts of clip / where / roll / take / dynamic_slice / argwhere / searchsorted / flip / "
                            ".at[].set / floor-division / round(.,6) / interp / max / min / int / ceil / pytree flattening order / tree_map with None leaves evaluated on random concrete inputs against the real numpy / jax functions, "
                            "and the axioms assumed for argmin (NaN propagation) / argsort / nanmax checked on the real functions' outputs: " + str({k: v for k, v in md.items() if k != "first_disagreements"}))
    n = 60 if tier == "quick" else 600
    res = bounded.run_native("c10_zoh.py", ["--n", str(n), "--seed", str(seed)])
    lines, ev, err = bounded.report("C10", "trainable delay d vs a graph recorded with static delay d (function level)", res, "c10_zoh.py")
    extra["bounded"] = [dict(ev, bound=f"{n} random (rate, min, max, alpha, window, step time, sender jitter) cases incl. ties and episode starts: the real apply_delay (zoh) on the extended window of a graph generated with the minimal delay "
                                       "must hand the step exactly the messages a static delay d would (last `window` with ts_sent + d <= ts_start)")]
    for l in ev.get("known_finding_lines", []):
        print(l)
    code = check_property("C10", UNITS, tier, seed, extra=extra)
    if lines:
        for l in lines:
            print(l)
        return 1
    if err and code == 0:
        print(f"ERROR property=C10 bounded stand-in failed to run: {err[-300:]}")
        return 3
    if md.get("error") or md.get("disagreements"):
        print(f"ERROR property=C10 library model differential: {md}")
        return 3 if code == 0 else code
    return code
