"""C07 — rex/utils.py::to_connected_graph (prune=False: vertices that are not ancestors of the last supervisor step are attached to a supervisor step) under contract on
enumerated small graphs whose TIMES are symbolic. The graph is a real networkx.DiGraph (structure concrete, so networkx itself computes copies / ancestors / edge
insertion); node attributes hold z3 terms. Sorting by a symbolic key and the time comparisons of the attachment loop fork the path (one path per consistent order)."""
import z3
import networkx as nx
from pyvc.driver import Unit
from pyvc.values import *
from pyvc.interp import RaiseEx

UTILS = "rex/utils.py"


class NxG:
    """a real networkx.DiGraph under the duck protocols of the executor"""

    def __init__(self, g):
        self.g = g

    def pyvc_getattr(self, ex, attr):
        g = self.g
        if attr == "copy":
            return lambda ex_: NxG(g.copy())
        if attr == "nodes":
            return _NodeView(g)
        if attr == "add_edge":
            return lambda ex_, u, v, **k: g.add_edge(u, v, **k)
        raise Unsupported(f"DiGraph.{attr}")


class _NodeView:
    def __init__(self, g):
        self.g = g

    def pyvc_getitem(self, ex, k):
        return self.g.nodes[k]

    def pyvc_iter(self):
        return list(self.g.nodes)

    def pyvc_len(self, ex):
        return len(self.g.nodes)

    def pyvc_call(self, ex, data=False):
        return [(n, d) for n, d in self.g.nodes(data=True)] if data else list(self.g.nodes)


class ToConnected(Unit):
    name = "to_connected_graph"
    target = UTILS + "::to_connected_graph"
    props = ("C07",)

    def configs(self):
        # supervisor steps s0 -> s1 -> s2 (stateful chain); a0 -> s0 is an ancestor; x0, x1 (chain x0 -> x1) and y0 feed nothing the supervisor depends on
        yield "three supervisor steps, three vertices outside its ancestry", dict(sup=["s_0", "s_1", "s_2"], anc=[("a_0", "s_0")], others=["x_0", "x_1", "y_0"], extra_edges=[("x_0", "x_1")])
        yield "two supervisor steps, one outside vertex", dict(sup=["s_0", "s_1"], anc=[("a_0", "s_1")], others=["x_0"], extra_edges=[])
        yield "nothing outside the ancestry", dict(sup=["s_0", "s_1"], anc=[("a_0", "s_0")], others=[], extra_edges=[])

    def run(self, ctx):
        ex, cfg = ctx.ex, ctx.cfg
        g = nx.DiGraph()
        T = {}

        def add(name, kind):
            T[name] = (z3.Real(f"{name}.ts_start"), z3.Real(f"{name}.ts_end"))
            ctx.require(T[name][0] <= T[name][1])
            g.add_node(name, kind=kind, seq=int(name.rsplit("_", 1)[1]), ts_start=T[name][0], ts_end=T[name][1])
        for s in cfg["sup"]:
            add(s, "s")
        for a, b in zip(cfg["sup"], cfg["sup"][1:]):
            g.add_edge(a, b)
            ctx.require(T[a][1] <= T[b][0])                  # consecutive steps of a node do not overlap (C03 / C12), so supervisor start times are strictly ordered
            ctx.require(T[a][0] < T[b][0])
        for (a, s) in cfg["anc"]:
            add(a, a.rsplit("_", 1)[0])
            g.add_edge(a, s)
        for o in cfg["others"]:
            add(o, o.rsplit("_", 1)[0])
        for (u, v) in cfg["extra_edges"]:
            g.add_edge(u, v)
            ctx.require(T[u][1] <= T[v][0])
        before_edges, before_nodes = set(g.edges), {n: dict(d) for n, d in g.nodes(data=True)}
        ex.lib.ns["networkx"] = NS("networkx", {"ancestors": lambda ex_, G, n: set(nx.ancestors(G.g, n)), "DiGraph": lambda ex_: NxG(nx.DiGraph())})
        sup = Rec("BaseNode", dict(name="s"), module=None)
        out = ctx.call(args=[NxG(g), sup])
        ok = isinstance(out, NxG)
        ctx.ensure("returns a graph", z3.BoolVal(ok))
        if not ok:
            return
        ctx.ensure("the input graph is not modified (the result is a copy)", z3.BoolVal(set(g.edges) == before_edges and out.g is not g))
        ctx.ensure("C07 no vertex is added, removed or altered; every existing edge is kept", z3.BoolVal(set(out.g.nodes) == set(before_nodes) and all(dict(out.g.nodes[n]) == before_nodes[n] for n in before_nodes) and before_edges <= set(out.g.edges)))
        new = set(out.g.edges) - before_edges
        last = cfg["sup"][-1]
        outside = set(g.nodes) - set(nx.ancestors(g, last)) - {last}
        ctx.ensure("C07 new edges only go from a vertex outside the last supervisor step's ancestry to a supervisor step", z3.BoolVal(all(u in outside and v in cfg["sup"] for (u, v) in new)))
        for x in sorted(outside):
            targets = [v for (u, v) in new if u == x]
            ctx.ensure(f"C07 {x}: attached to at most one supervisor step", z3.BoolVal(len(targets) <= 1))
            te = T[x][1]
            for s in cfg["sup"]:
                first = z3.And(T[s][0] >= te, *[z3.Or(T[s2][0] > T[s][0], T[s2][0] < te) for s2 in cfg["sup"] if s2 != s])
                ctx.ensure(f"C07 {x} -> {s}: attached exactly if {s} is the FIRST supervisor step that starts at or after {x} has ended (so {x} runs, in a partition that closes after it finished)",
                           first if (x, s) in new else z3.Not(first))
