"""Symbolic world of the threaded runtime: _AsyncNodeWrapper / _AsyncConnectionWrapper stubs whose
fields mirror the real classes (rex/asynchronous.py), with symbolic queues.  Shared by C02 C03 C04 C06 C13."""
import z3
from pyvc.values import *
from pyvc import values as V
from pyvc.interp import RaiseEx
from pyvc.source import Repo

AS = "rex/asynchronous.py"
ASYNC = {k: EnumV("Async", k) for k in ["READY", "STARTING", "READY_TO_START", "RUNNING", "STOPPING", "STOPPED"]}
CLOCK = {k: EnumV("Clock", k) for k in ["SIMULATED", "WALL_CLOCK", "COMPILED"]}
JIT = {k: EnumV("Jitter", k) for k in ["LATEST", "BUFFER"]}
SCHED = {k: EnumV("Scheduling", k) for k in ["PHASE", "FREQUENCY"]}

HEADER = RecSchema("Header", dict(eps=INT, seq=INT, ts=REAL), module="rex/base.py")
MSGREC_Q = RecSchema("MessageRecord", dict(seq_out=INT, seq_in=ConstSchema(None), ts_sent=REAL, ts_recv=REAL, delay=REAL), module="rex/base.py")
MSGREC_R = RecSchema("MessageRecord", dict(seq_out=INT, seq_in=INT, ts_sent=REAL, ts_recv=REAL, delay=REAL), module="rex/base.py")
GROUPED_ELEM = (INT, REAL, REAL, Leaf)

SAMP = z3.Function("delay_sample", Leaf, INT, REAL)  # j-th sample drawn from a distribution state
NEXT = z3.Function("dist_next_state", Leaf, Leaf)


INPUTSTATE = RecSchema("InputState", dict(seq=ArrSchema(INT), ts_sent=ArrSchema(REAL), ts_recv=ArrSchema(REAL), data=ArrSchema(Leaf), delay_dist=Leaf), module="rex/base.py")


def steprec_schema(stage, clock, rs, input_names=()):
    """AsyncStepRecord as stored in q_ts_start ('queued') or in _record_steps ('final')"""
    N = ConstSchema(None)
    f = dict(eps=INT, seq=INT, ts_start=REAL, ts_end=N, delay=N, rng=N, inputs=N, state=N, output=N,
             ts_scheduled=REAL, ts_max=REAL, ts_end_prev=REAL, phase=REAL, phase_scheduled=REAL, phase_inputs=REAL, phase_last=REAL,
             sent=N, phase_overwrite=REAL)
    if stage == "final":
        f.update(ts_end=REAL, delay=REAL, sent=HEADER, rng=Leaf if rs["rng"] else N, state=Leaf if rs["state"] else N,
                 output=Leaf if rs["output"] else N, inputs=DictSchema({k: INPUTSTATE for k in input_names}) if rs["inputs"] else N)
    return RecSchema("AsyncStepRecord", f, module="rex/base.py")


def sample_model(num_buffer_nonneg=True):
    def _jit_sample(ex, dist_state, shape=None):
        ex.assumptions_used.add("delay_dist.sample_pure(state, n) is a function of the distribution state: returns (NEXT(state), [SAMP(state, j)]_j<n); "
                                "every sample >= 0 (StaticDist.sample clips at 0: C15 contract)")
        n = shape
        j = z3.Int("j!smp")
        arr = z3.Lambda([j], SAMP(dist_state, j))
        ex.assume(z3.ForAll([j], SAMP(dist_state, j) >= 0))
        return (NEXT(dist_state), Arr(arr, n))

    return _jit_sample


class World:
    """builds node / connection wrapper records.  Everything symbolic is named after the field it stands for."""

    def __init__(self, ctx, clock="SIMULATED"):
        self.ctx, self.ex = ctx, ctx.ex
        self.clock = CLOCK[clock]
        self.req = []  # well-formedness facts assumed (requires)

    def q(self, name, schema, kind="deque"):
        s = Seq.fresh(name, schema, kind=kind)
        self.req.append(s.wf())
        return s

    def node_cfg(self, name, advance=False, scheduling="FREQUENCY"):
        rate = z3.Real(f"{name}.rate")
        self.req.append(rate > 0)
        node = Rec("BaseNode", dict(name=name, rate=rate, advance=advance, scheduling=SCHED[scheduling], delay=z3.Real(f"{name}.delay"),
                                    phase=z3.Real(f"{name}.node_phase"), inputs={}, outputs={}), module="rex/node.py")
        return node

    def node(self, name, state="RUNNING", advance=False, scheduling="FREQUENCY", rs=None, input_names=()):
        rs = rs or dict(params=False, rng=False, inputs=False, state=False, output=False)
        nd = self.node_cfg(name, advance, scheduling)
        w = Rec("_AsyncNodeWrapper", dict(
            node=nd, inputs={}, outputs={}, _record_setting=dict(rs), _max_records=z3.Int(f"{name}._max_records"), _num_buffer=50,
            _jit_sample=sample_model(), _eps=z3.Int(f"{name}._eps"), _state=ASYNC[state], _tick=z3.Int(f"{name}._tick"),
            _phase_scheduled=z3.Real(f"{name}._phase_scheduled"), _phase=z3.Real(f"{name}._phase"), _clock=self.clock,
            _real_time_factor=z3.Real(f"{name}._rtf"), _dist_state=z3.Const(f"{name}._dist_state", Leaf), _discarded=z3.Int(f"{name}._discarded"),
            _ts_start=z3.Real(f"{name}._ts_start"), _step_state=None,
            q_tick=self.q(f"{name}.q_tick", BOOL), q_ts_scheduled=self.q(f"{name}.q_ts_scheduled", (INT, REAL)),
            q_ts_end_prev=self.q(f"{name}.q_ts_end_prev", REAL),
            q_ts_start=self.q(f"{name}.q_ts_start", (INT, REAL, REAL if self.clock is CLOCK["SIMULATED"] else ConstSchema(None), steprec_schema("queued", self.clock, rs))),
            q_sample=self.q(f"{name}.q_sample", REAL),
            _record_steps=self.q(f"{name}._record_steps", steprec_schema("final", self.clock, rs, input_names), kind="list"),
        ), module=AS)
        self.req += [w.f["_real_time_factor"] >= 0, w.f["_discarded"] >= 0]
        self.req += [c for _, c in wf_node_clauses(w)]
        return w

    def conn(self, out_w, in_w, input_name, blocking, jitter="LATEST", state="RUNNING", skip=None):
        tag = f"{out_w.f['node'].f['name']}>{in_w.f['node'].f['name']}"
        window = z3.Int(f"{tag}.window")
        self.req.append(window >= 1)
        c = Rec("Connection", dict(blocking=blocking, skip=z3.Bool(f"{tag}.skip") if skip is None else skip, jitter=JIT[jitter], window=window,
                                   input_name=input_name, output_node=out_w.f["node"], input_node=in_w.f["node"], delay=z3.Real(f"{tag}.delay")), module="rex/node.py")
        w = Rec("_AsyncConnectionWrapper", dict(
            connection=c, output_node=out_w, input_node=in_w, _state=ASYNC[state], _num_buffer=50, _jit_sample=sample_model(),
            _jit_update_input_state=Closure(self.ctx.repo.find(AS + "::update_input_state")[1], [], self.ctx.repo.module(AS)),
            _tick=z3.Int(f"{tag}._tick"), _phase=z3.Real(f"{tag}._phase"), _prev_recv_sc=z3.Real(f"{tag}._prev_recv_sc"),
            _dist_state=z3.Const(f"{tag}._dist_state", Leaf),
            _record_messages=self.q(f"{tag}._record_messages", MSGREC_R, kind="list"),
            q_msgs=self.q(f"{tag}.q_msgs", (MSGREC_Q, Leaf)), q_ts_input=self.q(f"{tag}.q_ts_input", (INT, REAL)),
            q_ts_max=self.q(f"{tag}.q_ts_max", REAL), q_zip_delay=self.q(f"{tag}.q_zip_delay", REAL),
            q_zip_msgs=self.q(f"{tag}.q_zip_msgs", (Leaf, HEADER)), q_expected_select=self.q(f"{tag}.q_expected_select", (REAL, INT)),
            q_expected_ts_max=self.q(f"{tag}.q_expected_ts_max", INT), q_grouped=self.q(f"{tag}.q_grouped", SeqSchema(GROUPED_ELEM)),
            q_ts_next_step=self.q(f"{tag}.q_ts_next_step", (INT, REAL)), q_sample=self.q(f"{tag}.q_sample", REAL),
        ), module=AS)
        qs = w.f["q_sample"]
        j = z3.Int("j!qs")
        self.req.append(z3.ForAll([j], z3.Implies(z3.And(qs.lo <= j, j < qs.hi), z3.Select(qs.arrs[()], j) >= 0)))
        self.req.append(w.f["_tick"] >= 0)
        out_w.f["outputs"][in_w.f["node"].f["name"]] = w
        in_w.f["inputs"][input_name] = w
        out_w.f["node"].f["outputs"][in_w.f["node"].f["name"]] = c
        in_w.f["node"].f["inputs"][input_name] = c
        return w

    def assume_all(self):
        for r in self.req:
            self.ex.assume(r)


# ------------------------------------------------------------------------------------------ representation invariant
def wf_conn(c):
    """FIFO part of the connection invariant (DESIGN C03): receive times in q_ts_input non-decreasing and bounded by
    _prev_recv_sc, which is a fixpoint of R6 and non-negative"""
    q = c.f["q_ts_input"]
    a, b = z3.Ints("wf!a wf!b")
    recv = q.arrs[(1,)]
    prev = c.f["_prev_recv_sc"]
    return z3.And(
        q.wf(),
        z3.ForAll([a, b], z3.Implies(z3.And(q.lo <= a, a <= b, b < q.hi), z3.Select(recv, a) <= z3.Select(recv, b))),
        z3.ForAll([a], z3.Implies(z3.And(q.lo <= a, a < q.hi), z3.Select(recv, a) <= prev)),
        R6(prev) == prev, prev >= 0)


# ------------------------------------------------------------------------------------------ ghost events / summaries
class Ev:
    def __init__(self, kind, target, fn, args=(), snap=None):
        self.kind, self.target, self.fn, self.args, self.snap = kind, target, fn, tuple(args), snap

    def __repr__(self):
        return f"{self.kind}:{getattr(self.target, 'cls', self.target)}#{getattr(self.target, 'oid', '')}.{self.fn}"


def submit_summary(ex, self_obj, args, kwargs, node):
    """_submit(fn, *args): ghost event; whether the executor accepts the task is _submit's own contract (unit Submit)."""
    fn = args[0]
    name = fn.name if isinstance(fn, (BoundMethod,)) else getattr(fn, "name", str(fn))
    tgt = fn.obj if isinstance(fn, BoundMethod) else None
    ex.ev.append(Ev("submit", self_obj, name, args[1:], None))
    if tgt is not None and tgt is not self_obj and getattr(tgt, "oid", None) != self_obj.oid:
        ex.ev.append(Ev("bad-submit-target", tgt, name))
    return Opaque("Future")


def make_call_summary(name, frame_fn, wf_fn=None, root=None):
    """modular call of another handler on the same wrapper: record the call with a snapshot of the state at the
    call, check the callee's requires (wf), havoc its frame, assume its ensures (wf)."""

    def summ(ex, self_obj, args, kwargs, node):
        snap = V.clone(root() if root else self_obj, {})
        if wf_fn is not None:
            for nm, c in wf_fn(self_obj):
                ex.oblige(f"call {name}: requires {nm}", c, kind="call-requires", node=node)
        ex.ev.append(Ev("call", self_obj, name, args, snap))
        for obj, fld in frame_fn(self_obj):
            cur = obj.f[fld]
            obj.f[fld] = havoc(ex, cur, f"{name}!{fld}")
        if wf_fn is not None:
            for nm, c in wf_fn(self_obj):
                ex.assume(c)
        return None

    return summ


def havoc(ex, cur, tag):
    return ex.havoc(cur, tag)


# frames ------------------------------------------------------------------------------------
def frame_push_selection(c):
    return [(c, f) for f in ("q_expected_select", "_tick", "q_msgs", "_record_messages", "q_grouped")]


def frame_push_zip(c):
    return [(c, f) for f in ("q_zip_msgs", "q_zip_delay", "q_msgs")] + frame_push_selection(c)


def frame_push_ts_max(c):
    return [(c, f) for f in ("q_expected_ts_max", "q_ts_input", "q_ts_max")]


def frame_push_expected_nonblocking(c):
    return [(c, f) for f in ("q_ts_next_step", "q_ts_input", "q_expected_select")] + frame_push_selection(c)


def frame_push_ts_input(c):
    fr = [(c, f) for f in ("q_sample", "_dist_state", "_prev_recv_sc", "q_zip_delay", "q_ts_input")] + frame_push_zip(c)
    fr += frame_push_ts_max(c) if c.f["connection"].f["blocking"] is True else frame_push_expected_nonblocking(c)
    return fr


def frame_push_step(n):
    fr = [(n, f) for f in ("q_ts_start", "_step_state", "_record_steps", "_discarded", "q_tick")]
    if n.f["_clock"] is CLOCK["WALL_CLOCK"]:
        fr.append((n, "q_ts_end_prev"))
    fr += [(i, "q_grouped") for i in n.f["inputs"].values()]
    return fr


def frame_push_phase_shift(n):
    fr = [(n, f) for f in ("q_ts_scheduled", "q_ts_end_prev", "_phase_scheduled", "_dist_state", "q_sample", "q_ts_start")]
    fr += [(i, "q_ts_max") for i in n.f["inputs"].values() if i.f["connection"].f["blocking"] is True]
    fr += [(i, "q_ts_next_step") for i in n.f["inputs"].values() if i.f["connection"].f["blocking"] is not True]
    return fr + frame_push_step(n)


def frame_push_scheduled_ts(n):
    fr = [(n, f) for f in ("q_tick", "_tick", "q_ts_scheduled")]
    fr += [(i, "q_ts_next_step") for i in n.f["inputs"].values() if i.f["connection"].f["blocking"] is True]
    return fr + frame_push_phase_shift(n)


def wf_node_clauses(n):
    qs = n.f["q_sample"]
    j = z3.Int("j!qs")
    out = [("tick>=0", n.f["_tick"] >= 0), ("phase_scheduled>=0", n.f["_phase_scheduled"] >= 0),
           ("samples>=0", z3.ForAll([j], z3.Implies(z3.And(qs.lo <= j, j < qs.hi), z3.Select(qs.arrs[()], j) >= 0)))]
    q = n.f["q_ts_start"]
    out.append(("queued records carry their own tick, episode and start time",
                z3.ForAll([j], z3.Implies(z3.And(q.lo <= j, j < q.hi), z3.And(z3.Select(q.arrs[(3, "seq")], j) == z3.Select(q.arrs[(0,)], j),
                                                                           z3.Select(q.arrs[(3, "eps")], j) == n.f["_eps"],
                                                                           z3.Select(q.arrs[(3, "ts_start")], j) == z3.Select(q.arrs[(1,)], j))))))
    return out


def wf_conn_clauses(c):
    qs = c.f["q_sample"]
    j = z3.Int("j!qs")
    fifo = [("fifo", wf_conn(c))] if c.f["input_node"].f["_clock"] is CLOCK["SIMULATED"] else [("queues well-formed", c.f["q_ts_input"].wf())]
    return fifo + [("tick>=0", c.f["_tick"] >= 0),
            ("samples>=0", z3.ForAll([j], z3.Implies(z3.And(qs.lo <= j, j < qs.hi), z3.Select(qs.arrs[()], j) >= 0)))]


# frame check -------------------------------------------------------------------------------------
def same(a, b):
    """z3 bool (or python bool) : value a (post) equals value b (pre)"""
    if is_sym(a) and is_sym(b):
        return True if a.eq(b) else (a == b if a.sort() == b.sort() else False)
    if isinstance(a, Seq) and isinstance(b, Seq):
        parts = [same(a.lo, b.lo), same(a.hi, b.hi)] + [same(a.arrs[p], b.arrs[p]) for p in a.arrs]
        return conj(parts)
    if isinstance(a, Arr) and isinstance(b, Arr):
        return conj([same(a.a, b.a), same(a.n, b.n)])
    if isinstance(a, Rec) and isinstance(b, Rec):
        if a.cls != b.cls or set(a.f) != set(b.f):
            return False
        if not a.frozen:
            return a.oid == b.oid
        return conj([same(a.f[k], b.f[k]) for k in a.f])
    if isinstance(a, dict) and isinstance(b, dict):
        if set(a) != set(b):
            return False
        return conj([same(a[k], b[k]) for k in a])
    if isinstance(a, (list, tuple)) and isinstance(b, (list, tuple)):
        if len(a) != len(b):
            return False
        return conj([same(x, y) for x, y in zip(a, b)])
    if is_sym(a) or is_sym(b):
        try:
            x, y = num2(a, b)
            return x == y
        except Unsupported:
            return False
    if callable(a) and callable(b):
        return True
    if isinstance(a, Closure) and isinstance(b, Closure):
        return a.node is b.node
    return a is b or a == b


def conj(parts):
    sym = []
    for p in parts:
        if is_sym(p):
            sym.append(p)
        elif not p:
            return False
    return z3.And(sym) if sym else True


def frame_check(ctx, pre_objs, post_objs, allowed, label="frame"):
    """every field of the listed mutable records that is not in `allowed` is unchanged"""
    allowed = {(o.oid, f) for o, f in allowed}
    for name, post in post_objs.items():
        pre = pre_objs[name]
        changed_syntactic = []
        for fld in sorted(set(post.f) | set(pre.f)):
            if (post.oid, fld) in allowed:
                continue
            if fld not in post.f or fld not in pre.f:
                ctx.ensure(f"{label}: {name}.{fld} neither added nor removed", z3.BoolVal(False))
                continue
            a, b = post.f[fld], pre.f[fld]
            if isinstance(a, Rec) and not a.frozen:
                continue  # other mutable objects are listed separately
            if isinstance(a, dict) and any(isinstance(v, Rec) and not v.frozen for v in a.values()):
                if set(a) != set(b) or any(a[k].oid != b[k].oid for k in a):
                    ctx.ensure(f"{label}: {name}.{fld} unchanged", z3.BoolVal(False))
                continue
            s = same(a, b)
            if s is True:
                continue
            ctx.ensure(f"{label}: {name}.{fld} unchanged", toz(s))


def reachable(root, out=None, name="self"):
    """mutable records reachable from a wrapper: the wrapper, its node, its connections (and their nodes)"""
    out = out if out is not None else {}
    if any(v is root for v in out.values()):
        return out
    out[name] = root
    for k, v in root.f.items():
        if isinstance(v, Rec) and not v.frozen:
            reachable(v, out, f"{name}.{k}")
        elif isinstance(v, dict):
            for kk, vv in v.items():
                if isinstance(vv, Rec) and not vv.frozen:
                    reachable(vv, out, f"{name}.{k}[{kk}]")
    return out


class Roles:
    """loop-invariant access to the locals of the analysed function by ROLE rather than by spelling: the usual name is tried first; if the local was renamed,
    the unique local whose value AT LOOP ENTRY satisfies the role's matcher is taken (and remembered for the rest of the path)."""

    def __init__(self):
        self.map = {}

    def get(self, env, name, at_entry=None, exclude=()):
        if name in self.map and self.map[name] in env:
            return env[self.map[name]]
        if name in env:
            self.map[name] = name
            return env[name]
        cands = []
        if at_entry is not None:
            for k, v in env.items():
                if k in exclude:
                    continue
                try:
                    if at_entry(v):
                        cands.append(k)
                except Exception:
                    pass
        if len(cands) == 1:
            self.map[name] = cands[0]
            return env[cands[0]]
        raise V.Unsupported(f"loop invariant: no local named `{name}` and {len(cands)} locals fit its role {cands} (sidecar contract needs updating)")


def is_zero(v):
    return (isinstance(v, int) and not isinstance(v, bool) and v == 0) or (V.is_sym(v) and z3.is_int_value(v) and v.as_long() == 0)


def is_empty_list(v):
    return isinstance(v, list) and len(v) == 0


def is_term(t):
    return lambda v: V.is_sym(v) and z3.eq(z3.simplify(V.toz(v)), z3.simplify(V.toz(t)))
