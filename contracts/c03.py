"""C03 — recorded episodes are causal and loss-free on every connection."""
from pyvc.driver import check_property
from . import async_node, async_conn, async_misc

UNITS = [u for u in async_node.UNITS + async_conn.UNITS + async_misc.UNITS if "C03" in u.props]


def check(tier, seed):
    return check_property("C03", UNITS, tier, seed)
