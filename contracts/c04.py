"""C04 — step start times obey the documented rate, phase, delay and scheduling law."""
from pyvc.driver import check_property
from . import async_node, async_conn, async_misc, c16

# the law's `phase` is BaseNode.phase: its Bellman equation and its independence of the call history (a delay changed upstream between two episodes is what the next
# episode is scheduled with) belong to C04 as much as to C16
UNITS = [u for u in async_node.UNITS + async_conn.UNITS + async_misc.UNITS + c16.UNITS if "C04" in u.props]


def check(tier, seed):
    from pyvc import bounded
    lines, ev, err = bounded.async_episodes("C04", tier, seed)
    extra = {}
    extra["bounded"] = list(extra.get("bounded", [])) + [ev]
    for l in ev.get("known_finding_lines", []):
        print(l)
    code = check_property("C04", UNITS, tier, seed, extra=extra)
    return bounded.finish_with_bounded("C04", code, lines, err)
