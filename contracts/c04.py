"""C04 — step start times obey the documented rate, phase, delay and scheduling law."""
from pyvc.driver import check_property
from . import async_node, async_conn

UNITS = [u for u in async_node.UNITS + async_conn.UNITS if "C04" in u.props]


def check(tier, seed):
    return check_property("C04", UNITS, tier, seed)
