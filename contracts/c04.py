"""C04 — step start times obey the documented rate, phase, delay and scheduling law."""
from pyvc.driver import check_property
from . import async_node

UNITS = async_node.UNITS


def check(tier, seed):
    return check_property("C04", UNITS, tier, seed)
