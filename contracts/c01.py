"""C01 — compiled replay reproduces the recorded asynchronous execution step for step.
Chain of link contracts on real code (each proved in the unit named) + the fold lemma + a bounded end-to-end stand-in for the composition glue."""
import z3
from pyvc.driver import Unit, check_property
from pyvc.values import *
from . import async_node, async_conn, async_record, compiled, c14, c07


class FoldLemma(Unit):
    """pushing, group after group, the last W messages of each group into a W-ring keeps exactly the last W messages of the whole stream, oldest first
    (links push_selection's group and push_step's closed form to 'the window holds the most recent consumed messages')"""
    name = "lemma: window = last W of the consumed stream"
    target = None
    kind = "lemma"
    props = ("C01", "C03")

    def run(self, ctx):
        S = z3.Function("stream", INT, Leaf)         # S(i): i-th consumed message of the connection (i < 0: the initial / default entry)
        W, p, m, j = z3.Ints("W p m j")
        old = lambda t: S(p - W + t)                 # ring before the step: the last W of the first p messages
        L = z3.If(m < W, m, W)                       # push_selection hands over the last min(m, W) of the m messages consumed for this step
        g = lambda t: S(p + m - L + t)
        new = lambda t: z3.If(t + L < W, old(t + L), g(t + L - W))      # push_step's closed form of L ring pushes
        ctx.require(z3.And(W >= 1, m >= 0))
        ctx.ensure("step: ring' = the last W of the first p + m messages, oldest first", z3.Implies(z3.And(0 <= j, j < W), new(j) == S(p + m - W + j)))
        ctx.ensure("base: before any message the ring holds W initial entries (positions -W..-1 of the stream)", z3.Implies(z3.And(0 <= j, j < W, p == 0), old(j) == S(j - W)))


UNITS = [u for u in async_node.UNITS + async_conn.UNITS + async_record.UNITS + compiled.UNITS + c14.UNITS + c07.UNITS if "C01" in u.props] + [FoldLemma()]
EXTRA = dict(
    assumptions=["composition over a topological order of vertices (every link's postcondition feeds the next link's precondition) is a written argument (DESIGN 6/C01), exercised end to end by the bounded stand-in",
                 "the supergraph library returns a monomorphism (C07, assumed; instance-validated there)", "node.step is a function of its StepState (assumption on user code)",
                 "the asynchronous StepState.eps is the user's graph_state.eps: 'same episode number' holds when episode e is replayed against recorded episode e"],
    explanation="Links: (1) push_selection/push_step: the step sees seq=tick, ts=start, stored rng/state/params and the closed-form window; (2) EpisodeRecord.to_graph / Graph.stack: fields one to one, padding -1; "
                "(3) apply_window scan body + Window.push; (5) _update_inputs: slot seq/times, data[j] = buffer[window.seq[j] mod size], rng/state/params untouched; (6) ring-buffer lemma; "
                "(7) _run_generation: one step on that StepState, seq + 1, output written at its slot.")


def check(tier, seed):
    from pyvc import bounded
    n = 8 if tier == "quick" else 40
    res = bounded.run_native("c01_replay.py", ["--n", str(n), "--seed", str(seed)], timeout=900)
    lines, ev, err = bounded.report("C01", "record -> compile -> replay, step by step", res, "c01_replay.py")
    extra = dict(EXTRA)
    extra["bounded"] = [dict(ev, bound=f"{n} random 3-node systems (rates 5..40 Hz, windows 1..3, blocking / skip / buffered-jitter connections, jittery delays, FREQUENCY / PHASE, 1-2 episodes, 3 supergraph modes x prune): "
                                       "episode recorded by the real threaded runtime under the simulated clock, compiled and re-executed; seq, ts, rng, state, input windows (seq / times / payloads of filled entries) and outputs compared for every step inside the horizon")]
    code = check_property("C01", UNITS, tier, seed, extra=extra)
    if lines:
        for l in lines:
            print(l)
        return 1
    if err and code == 0:
        print(f"ERROR property=C01 bounded stand-in failed to run: {err[-300:]}")
        return 3
    return code
