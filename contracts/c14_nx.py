"""C14 / C07 — rex/utils.py::to_networkx_graph under contract for arrays of ANY length (loop invariants on both array loops).

The networkx graph is modelled by its abstract state, per node kind K and per connection (K1, K2):
    N_K[s]      vertex K_s is in G                       ATTR_K[s]   ... and was added WITH attributes (add_node), not merely as an edge endpoint
    SEQ_K / TS_K / TE_K [s]   its seq / ts_start / ts_end attributes
    E_K1_K2[s1][s2]   edge K1_s1 -> K2_s2 is in G         R_K1_K2[s1][s2]   its ts_recv attribute
add_node / add_edge follow networkx: add_edge creates missing endpoints (without attributes); adding twice overwrites attributes.
The vertex names f"{kind}_{seq}" are kept as the pair (kind, seq) - an injective representation of those strings (opts['fstring'])."""
import z3
from pyvc.driver import Unit
from pyvc.values import *
from pyvc.interp import RaiseEx, LoopSpec

UTILS = "rex/utils.py"
BASE = "rex/base.py"
A_IB, A_II, A_IR = z3.ArraySort(INT, BOOL), z3.ArraySort(INT, INT), z3.ArraySort(INT, REAL)
A_IIB, A_IIR = z3.ArraySort(INT, A_IB), z3.ArraySort(INT, A_IR)


class SymName:
    def __init__(self, kind, seq):
        self.kind, self.seq = kind, toz(seq)

    def __repr__(self):
        return f"<{self.kind}_{self.seq}>"


def _fstring(ex, parts):
    if len(parts) == 3 and isinstance(parts[0], str) and parts[1] == "_" and (is_sym(parts[2]) or isinstance(parts[2], int)):
        return SymName(parts[0], parts[2])
    return None


def empty_graph(kinds, conns):
    f = {}
    for k in kinds:
        f[f"N_{k}"], f[f"ATTR_{k}"] = z3.K(INT, z3.BoolVal(False)), z3.K(INT, z3.BoolVal(False))
        f[f"SEQ_{k}"], f[f"TS_{k}"], f[f"TE_{k}"] = z3.K(INT, z3.IntVal(0)), z3.K(INT, z3.RealVal(0)), z3.K(INT, z3.RealVal(0))
    for (a, b) in conns:
        f[f"E_{a}_{b}"] = z3.K(INT, z3.K(INT, z3.BoolVal(False)))
        f[f"R_{a}_{b}"] = z3.K(INT, z3.K(INT, z3.RealVal(0)))
    f["bad"] = []
    return Rec("DiGraph", f, module=None)


def install_graph_model(ex, kinds, conns):
    def add_node(ex_, G):
        def f(ex__, name, **attrs):
            if not isinstance(name, SymName):
                raise Unsupported("add_node with a name that is not f'{kind}_{seq}'")
            k, s = name.kind, name.seq
            G.f[f"N_{k}"] = z3.Store(G.f[f"N_{k}"], s, True)
            G.f[f"ATTR_{k}"] = z3.Store(G.f[f"ATTR_{k}"], s, True)
            for fld, key in (("SEQ", "seq"), ("TS", "ts_start"), ("TE", "ts_end")):
                if key not in attrs:
                    G.f["bad"].append(f"add_node without {key}")
                    continue
                G.f[f"{fld}_{k}"] = z3.Store(G.f[f"{fld}_{k}"], s, toz(attrs[key]))
            if attrs.get("kind") != k:
                G.f["bad"].append(f"vertex of {k} labelled kind={attrs.get('kind')!r}")
        return f

    def add_edge(ex_, G):
        def f(ex__, u, v, **attrs):
            if not (isinstance(u, SymName) and isinstance(v, SymName)):
                raise Unsupported("add_edge with names that are not f'{kind}_{seq}'")
            key = f"E_{u.kind}_{v.kind}"
            if key not in G.f:
                G.f["bad"].append(f"edge between {u.kind} and {v.kind}: no such connection")
                return
            row = z3.Select(G.f[key], u.seq)
            G.f[key] = z3.Store(G.f[key], u.seq, z3.Store(row, v.seq, True))
            if "ts_recv" in attrs:
                rk = f"R_{u.kind}_{v.kind}"
                G.f[rk] = z3.Store(G.f[rk], u.seq, z3.Store(z3.Select(G.f[rk], u.seq), v.seq, toz(attrs["ts_recv"])))
            for w in (u, v):       # networkx creates missing endpoints
                G.f[f"N_{w.kind}"] = z3.Store(G.f[f"N_{w.kind}"], w.seq, True)
        return f
    ex.lib.rec_methods[("DiGraph", "add_node")] = add_node
    ex.lib.rec_methods[("DiGraph", "add_edge")] = add_edge
    ex.lib.ns["networkx"] = NS("networkx", {"DiGraph": lambda ex_: empty_graph(kinds, conns)})


def _occ(arr, s):
    i = z3.Int("i!occ")
    return z3.Exists([i], z3.And(0 <= i, i < arr.n, z3.Select(arr.a, i) == s))


def _occ2(so, si, s1, s2):
    i = z3.Int("i!occ2")
    return z3.Exists([i], z3.And(0 <= i, i < so.n, i < si.n, z3.Select(so.a, i) == s1, z3.Select(si.a, i) == s2))


def vertex_facts(G, G0, n, v, k):
    """what holds of kind n's part of G after the first k rows of its vertex arrays (relative to the state G0 before the loop)"""
    seq, ts, te = v.f["seq"], v.f["ts_start"], v.f["ts_end"]
    i, s, s1, s2 = z3.Ints("i!vf s!vf s1!vf s2!vf")
    N, A, SQ, TS, TE = (G.f[f"{x}_{n}"] for x in ("N", "ATTR", "SEQ", "TS", "TE"))
    E = G.f.get(f"E_{n}_{n}")
    N0, A0, E0 = G0.f[f"N_{n}"], G0.f[f"ATTR_{n}"], G0.f.get(f"E_{n}_{n}")
    sq = z3.Select(seq.a, i)
    out = [
        z3.ForAll([i], z3.Implies(z3.And(0 <= i, i < k, sq != -1), z3.And(z3.Select(N, sq), z3.Select(A, sq), z3.Select(SQ, sq) == sq, z3.Select(TS, sq) == z3.Select(ts.a, i), z3.Select(TE, sq) == z3.Select(te.a, i)))),
        z3.ForAll([s], z3.Implies(z3.And(z3.Select(A, s), z3.Not(z3.Select(A0, s))), z3.And(s != -1, _occ(seq, s)))),
        z3.ForAll([s], z3.Implies(z3.And(z3.Select(N, s), z3.Not(z3.Select(N0, s))), z3.And(s != -1, z3.Or(_occ(seq, s), z3.And(s + 1 > 0, _occ(seq, s + 1)))))),
        z3.ForAll([s], z3.Implies(z3.Select(N0, s), z3.Select(N, s))), z3.ForAll([s], z3.Implies(z3.Select(A0, s), z3.Select(A, s))),
    ]
    if E is not None:
        out += [z3.ForAll([i], z3.Implies(z3.And(0 <= i, i < k, sq > 0), z3.Select(z3.Select(E, sq - 1), sq))),
                z3.ForAll([s1, s2], z3.Implies(z3.And(z3.Select(z3.Select(E, s1), s2), z3.Not(z3.Select(z3.Select(E0, s1), s2))), z3.And(s2 == s1 + 1, s2 > 0, _occ(seq, s2))))]
    return out


def edge_facts(G, G0, n1, n2, e, k):
    so, si, rc = e.f["seq_out"], e.f["seq_in"], e.f["ts_recv"]
    i, s, s1, s2 = z3.Ints("i!ef s!ef s1!ef s2!ef")
    E, R, E0 = G.f[f"E_{n1}_{n2}"], G.f[f"R_{n1}_{n2}"], G0.f[f"E_{n1}_{n2}"]
    a, b = z3.Select(so.a, i), z3.Select(si.a, i)
    out = [
        z3.ForAll([i], z3.Implies(z3.And(0 <= i, i < k, a != -1, b != -1), z3.And(z3.Select(z3.Select(E, a), b), z3.Select(z3.Select(R, a), b) == z3.Select(rc.a, i),
                                                                                 z3.Select(G.f[f"N_{n1}"], a), z3.Select(G.f[f"N_{n2}"], b)))),
        z3.ForAll([s1, s2], z3.Implies(z3.And(z3.Select(z3.Select(E, s1), s2), z3.Not(z3.Select(z3.Select(E0, s1), s2))), z3.And(s1 != -1, s2 != -1, _occ2(so, si, s1, s2)))),
        z3.ForAll([s1, s2], z3.Implies(z3.Select(z3.Select(E0, s1), s2), z3.Select(z3.Select(E, s1), s2))),
    ]
    for nk, col, other in ((n1, so, si), (n2, si, so)):
        N, N0 = G.f[f"N_{nk}"], G0.f[f"N_{nk}"]
        j = z3.Int("j!ef")
        out.append(z3.ForAll([s], z3.Implies(z3.And(z3.Select(N, s), z3.Not(z3.Select(N0, s))),
                                              z3.And(s != -1, z3.Exists([j], z3.And(0 <= j, j < so.n, j < si.n, z3.Select(col.a, j) == s, z3.Select(other.a, j) != -1))))))
        out.append(z3.ForAll([s], z3.Implies(z3.Select(N0, s), z3.Select(N, s))))
    return out


def frame(G, G0, touched):
    return [G.f[k] == G0.f[k] for k in G.f if k != "bad" and k not in touched]


class ToNetworkx(Unit):
    name = "to_networkx_graph"
    target = UTILS + "::to_networkx_graph"
    props = ("C14", "C07")

    def configs(self):
        yield "two kinds, one connection, node objects given", dict(kinds=["a", "b"], conns=[("a", "b")], nodes=True)
        yield "two kinds, connections both ways, node objects given", dict(kinds=["a", "b"], conns=[("a", "b"), ("b", "a")], nodes=True)
        yield "default: no node objects", dict(kinds=["a", "b"], conns=[("a", "b")], nodes=False)

    def opts(self, cfg):
        return {"fstring": _fstring}

    def _all_keys(self, cfg):
        ks = []
        for k in cfg["kinds"]:
            ks += [f"G.{x}_{k}" for x in ("N", "ATTR", "SEQ", "TS", "TE")]
        for (a, b) in set(cfg["conns"]) | {(k, k) for k in cfg["kinds"]}:
            ks += [f"G.E_{a}_{b}", f"G.R_{a}_{b}"]
        return ks

    def loops(self, cfg):
        def vinv(ex, k):
            env, pre = ex.frame.env, ex.loop_pre["env"]
            n, v, G, G0 = env["n"], env["v"], env["G"], pre["G"]
            touched = {f"{x}_{n}" for x in ("N", "ATTR", "SEQ", "TS", "TE")} | {f"E_{n}_{n}"}
            return z3.And(vertex_facts(G, G0, n, v, k) + frame(G, G0, touched) + [z3.BoolVal(not G.f["bad"])])

        def einv(ex, k):
            env, pre = ex.frame.env, ex.loop_pre["env"]
            (n1, n2), e, G, G0 = (env["n1"], env["n2"]), env["e"], env["G"], pre["G"]
            touched = {f"E_{n1}_{n2}", f"R_{n1}_{n2}", f"N_{n1}", f"N_{n2}"}
            return z3.And(edge_facts(G, G0, n1, n2, e, k) + frame(G, G0, touched) + [z3.BoolVal(not G.f["bad"])])
        keys = self._all_keys(cfg)
        return {("to_networkx_graph", 1): LoopSpec(vinv, modifies=keys), ("to_networkx_graph", 2): LoopSpec(einv, modifies=keys)}   # numbered among the loops over SYMBOLIC iterables, in order of first execution

    def run(self, ctx):
        ex, cfg = ctx.ex, ctx.cfg
        kinds, conns = cfg["kinds"], cfg["conns"]
        install_graph_model(ex, kinds, set(conns) | {(k, k) for k in kinds})
        oc = NS("supergraph.open_colors", {"cscheme_fn": lambda ex_, colors, **k: ({n: "edge-colour" for n in colors}, {n: "face-colour" for n in colors})})
        if "supergraph" in ex.lib.ns:
            ex.lib.ns["supergraph"].entries["open_colors"] = oc
        else:
            ex.lib.ns["supergraph"] = NS("supergraph", {"open_colors": oc, "EDGE_DATA": {}})
        verts, edges = {}, {}
        i, j = z3.Ints("i!pre j!pre")
        for k in kinds:
            L = z3.Int(f"len_{k}")
            ctx.require(L >= 0)
            verts[k] = Rec("Vertex", dict(seq=Arr.fresh(f"{k}.seq", INT, L), ts_start=Arr.fresh(f"{k}.ts_start", REAL, L), ts_end=Arr.fresh(f"{k}.ts_end", REAL, L)), module=BASE, frozen=True)
            sq = verts[k].f["seq"]
            # data invariant of vertex arrays: an executed step appears once (rows of different executed steps carry different sequence numbers)
            ctx.require(z3.ForAll([i, j], z3.Implies(z3.And(0 <= i, i < j, j < L, z3.Select(sq.a, i) != -1, z3.Select(sq.a, j) != -1), z3.Select(sq.a, i) != z3.Select(sq.a, j))))
        for (a, b) in conns:
            M = z3.Int(f"len_{a}{b}")
            ctx.require(M >= 0)
            edges[(a, b)] = Rec("Edge", dict(seq_out=Arr.fresh(f"{a}{b}.seq_out", INT, M), seq_in=Arr.fresh(f"{a}{b}.seq_in", INT, M), ts_recv=Arr.fresh(f"{a}{b}.ts_recv", REAL, M)), module=BASE, frozen=True)
            so = edges[(a, b)].f["seq_out"]
            # data invariant of edge arrays: a message appears once
            ctx.require(z3.ForAll([i, j], z3.Implies(z3.And(0 <= i, i < j, j < M, z3.Select(so.a, i) != -1, z3.Select(so.a, j) != -1), z3.Select(so.a, i) != z3.Select(so.a, j))))
        graph = Rec("Graph", dict(vertices=verts, edges=edges), module=BASE, frozen=True)
        kwargs = {}
        if cfg["nodes"]:
            kwargs["nodes"] = {k: Rec("BaseNode", dict(name=k, order=(None if n_ else 2), color=("red" if n_ else None)), module=None) for n_, k in enumerate(kinds)}
        try:
            G = ctx.call(args=[graph], kwargs=kwargs)
        except RaiseEx as e:
            ctx.ensure(f"C14 the conversion returns a graph (raised {e.exc})", z3.BoolVal(False))
            return
        ok = isinstance(G, Rec) and G.cls == "DiGraph"
        ctx.ensure("returns the networkx graph", z3.BoolVal(ok))
        if not ok:
            return
        ctx.ensure("every vertex is labelled with its own kind and carries seq / ts_start / ts_end; edges only along the graph's connections (and between consecutive steps of a node)", z3.BoolVal(not G.f["bad"]))
        E0 = empty_graph(kinds, set(conns) | {(k, k) for k in kinds})
        s, s1, s2, i = z3.Ints("s!post s1!post s2!post i!post")
        for k in kinds:
            v = verts[k]
            seq = v.f["seq"]
            sq = z3.Select(seq.a, i)
            ctx.ensure(f"C14 kind {k}: every row with seq != -1 gives the vertex {k}_seq with exactly that row's seq / ts_start / ts_end",
                       z3.ForAll([i], z3.Implies(z3.And(0 <= i, i < seq.n, sq != -1), z3.And(z3.Select(G.f[f"N_{k}"], sq), z3.Select(G.f[f"ATTR_{k}"], sq), z3.Select(G.f[f"SEQ_{k}"], sq) == sq,
                                                                                            z3.Select(G.f[f"TS_{k}"], sq) == z3.Select(v.f["ts_start"].a, i), z3.Select(G.f[f"TE_{k}"], sq) == z3.Select(v.f["ts_end"].a, i)))))
            ctx.ensure(f"C14 kind {k}: padded rows (seq == -1) never create a vertex: every vertex with attributes comes from a row of the vertex arrays with that seq != -1",
                       z3.ForAll([s], z3.Implies(z3.Select(G.f[f"ATTR_{k}"], s), z3.And(s != -1, _occ(seq, s)))))
            ins = [(a, b) for (a, b) in conns if b == k]
            outs = [(a, b) for (a, b) in conns if a == k]
            ctx.ensure(f"C14 kind {k}: every vertex of G is an executed step, the predecessor of one (stateful edge), or an endpoint of a real message (both ends != -1) - never -1",
                       z3.ForAll([s], z3.Implies(z3.Select(G.f[f"N_{k}"], s), z3.And(s != -1, z3.Or(
                           [_occ(seq, s), z3.And(s + 1 > 0, _occ(seq, s + 1))]
                           + [z3.Exists([i], z3.And(0 <= i, i < edges[c].f["seq_out"].n, z3.Select(edges[c].f["seq_in"].a, i) == s, z3.Select(edges[c].f["seq_out"].a, i) != -1)) for c in ins]
                           + [z3.Exists([i], z3.And(0 <= i, i < edges[c].f["seq_out"].n, z3.Select(edges[c].f["seq_out"].a, i) == s, z3.Select(edges[c].f["seq_in"].a, i) != -1)) for c in outs])))))
            ctx.ensure(f"C07 kind {k}: consecutive steps are chained (k_(s-1) -> k_s for every executed s > 0), and nothing else connects two steps of {k}",
                       z3.And(z3.ForAll([i], z3.Implies(z3.And(0 <= i, i < seq.n, sq > 0), z3.Select(z3.Select(G.f[f"E_{k}_{k}"], sq - 1), sq))),
                              z3.ForAll([s1, s2], z3.Implies(z3.Select(z3.Select(G.f[f"E_{k}_{k}"], s1), s2), z3.And(s2 == s1 + 1, s2 > 0, _occ(seq, s2))))))
        for (a, b) in conns:
            e = edges[(a, b)]
            so, si, rc = e.f["seq_out"], e.f["seq_in"], e.f["ts_recv"]
            x, y = z3.Select(so.a, i), z3.Select(si.a, i)
            ctx.ensure(f"C14 connection {a}->{b}: every row with both ends != -1 gives the edge {a}_seq_out -> {b}_seq_in carrying that row's receive time",
                       z3.ForAll([i], z3.Implies(z3.And(0 <= i, i < so.n, x != -1, y != -1), z3.And(z3.Select(z3.Select(G.f[f"E_{a}_{b}"], x), y), z3.Select(z3.Select(G.f[f"R_{a}_{b}"], x), y) == z3.Select(rc.a, i)))))
            ctx.ensure(f"C14 connection {a}->{b}: rows with a -1 end (padding, never sent / never consumed) never create an edge: every edge comes from a row with exactly these two ends, both != -1",
                       z3.ForAll([s1, s2], z3.Implies(z3.Select(z3.Select(G.f[f"E_{a}_{b}"], s1), s2), z3.And(s1 != -1, s2 != -1, _occ2(so, si, s1, s2)))))


def _replay_nx(self, label, clause, probes, model):
    # the conversion on a small concrete two-node graph (with and without node objects), through the bounded script's oracle
    return {"kind": "bounded_case", "script": "c14_convert.py",
            "case": {"kinds": ["a", "b"], "eps": [{"lens": {"a": 3, "b": 2}, "edges": {"a>b": [[0, 0, 0.1], [1, 1, 0.2], [2, -1, 0.3]]}}, {"lens": {"a": 1, "b": 4}, "edges": {"a>b": [[0, 2, 0.1]]}}]}}


ToNetworkx.replay = _replay_nx
