"""Contracts on the threaded runtime's get_record functions (C13: the record holds exactly the executed steps / delivered messages, in order)."""
import z3
from pyvc.driver import Unit
from pyvc.values import *
from pyvc import values as V
from pyvc.interp import RaiseEx
from . import aw
from .async_node import mk_node_world
from .async_conn import mk_conn_world

BASE = "rex/base.py"
STEP_FIELDS = ["eps", "seq", "ts_start", "ts_end", "delay", "rng", "inputs", "state", "output", "ts_scheduled", "ts_max", "ts_end_prev", "phase", "phase_scheduled", "phase_inputs",
               "phase_last", "sent", "phase_overwrite"]
FLAGS = ["params", "rng", "inputs", "state", "output"]


def leaf(tag):
    return z3.Const(tag, Leaf)


def rows(col):
    """a stacked column as a python list of rows (the array model keeps a concrete-length stack as a tuple), or None"""
    if isinstance(col, (tuple, list)):
        return list(col)
    if isinstance(col, Arr) and z3.is_int_value(z3.simplify(toz(col.n))):
        return [z3.Select(col.a, i) for i in range(z3.simplify(toz(col.n)).as_long())]
    return None


class NodeGetRecord(Unit):
    """get_record stacks exactly the recorded steps, in order, field by field; asks every input for its messages up to the last recorded step;
    drops exactly the fields that are switched off (by the node's setting or by the argument) from the RETURNED record only"""
    name = "_AsyncNodeWrapper.get_record"
    target = aw.AS + "::_AsyncNodeWrapper.get_record"
    props = ("C13", "C01")

    def configs(self):
        yield "k=1,all", dict(k=1, off_setting=None, off_arg=None)
        yield "k=3,all", dict(k=3, off_setting=None, off_arg=None)
        yield "k=3,last output pending", dict(k=3, off_setting=None, off_arg=None, pending=True)
        for f in FLAGS:
            yield f"k=2,setting {f} off", dict(k=2, off_setting=f, off_arg=None)
            yield f"k=2,argument {f} off", dict(k=2, off_setting=None, off_arg=f)
        yield "k=2,second call (cached)", dict(k=2, off_setting=None, off_arg="state", cached=True)
        # the step record overflowed (max_records reached, later steps discarded): every RETAINED step keeps its messages - a compiled replay needs the window of the last one too
        yield "k=3,step record overflowed", dict(k=3, off_setting=None, off_arg=None, discarded=True)

    def run(self, ctx):
        ex, cfg = ctx.ex, ctx.cfg
        w, n, ins, outs = mk_node_world(ctx, dict(fanin=(False, True), state="STOPPED"))
        k = cfg["k"]
        n.f["record_setting"] = {f: (f != cfg["off_setting"]) for f in FLAGS}
        n.f["_discarded"] = 0
        if cfg.get("discarded"):
            n.f["_discarded"] = z3.Int("discarded")
            ctx.require(n.f["_discarded"] >= 1)
            n.f["_max_records"] = k
            n.f["max_records"] = k
        n.f["log"] = lambda ex_, *a, **kw: None
        recs = []
        for i in range(k):
            f = {fld: leaf(f"step{i}.{fld}") for fld in STEP_FIELDS}
            f["seq"] = z3.Int(f"step{i}.seq")
            if cfg.get("pending") and i == k - 1:
                f["output"] = None
            recs.append(Rec("AsyncStepRecord", f, module=BASE, frozen=True))
        n.f["_record_steps"] = list(recs)
        n.f["_record"] = Rec("NodeRecord", dict(info=leaf("info"), clock=leaf("clock"), real_time_factor=leaf("rtf"), ts_start=leaf("ts0"), params=leaf("params"), inputs=None, steps=None), module=BASE, frozen=True)
        asked = []
        for i in ins:
            i.f["get_record"] = (lambda ii: (lambda ex_, last_seq_in: (asked.append((ii, last_seq_in)), z3.Function("input_record", Leaf, z3.IntSort(), Leaf)(leaf(f"conn{ii.oid}"), toz(last_seq_in)))[1]))(i)
        kwargs = {f: (f != cfg["off_arg"]) for f in FLAGS}
        if cfg.get("cached"):
            first = ctx.call(self_obj=n, kwargs={f: True for f in FLAGS})
        ret = ctx.call(self_obj=n, kwargs=kwargs)
        off = {cfg["off_setting"], cfg["off_arg"]} - {None}
        steps = ret.f["steps"]
        ok = isinstance(steps, Rec)
        ctx.ensure("returns a NodeRecord with stacked steps", z3.BoolVal(ok and ret.cls == "NodeRecord"))
        if not ok:
            return
        kk = k - 1 if cfg.get("pending") else k     # a step whose output is still pending: the output column has one row less
        cl = []
        for fld in STEP_FIELDS:
            col = steps.f[fld]
            if fld in off and col is None:
                continue        # dropped on request (whatever IS contained must be faithful: checked below when the column is still there)
            rr = rows(col)
            want = kk if fld == "output" else k
            if rr is None or len(rr) != want:
                cl.append(z3.BoolVal(False)); continue
            for i in range(want):
                cl.append(toz(rr[i]) == recs[i].f[fld])
        ctx.ensure("C13 the record holds exactly the executed steps, in order: column f has one row per recorded step and row i is step i's value of f (a switched-off column may be absent, never wrong)", z3.And(*cl))
        ctx.ensure("C13 params are kept unless switched off; info, clock, rtf and start time are kept",
                   z3.And(z3.BoolVal((ret.f["params"] is None) if "params" in off else ret.f["params"] is not None and z3.eq(ret.f["params"], leaf("params"))),
                          z3.BoolVal(all(z3.eq(ret.f[a], leaf(b)) for a, b in (("info", "info"), ("clock", "clock"), ("real_time_factor", "rtf"), ("ts_start", "ts0"))))))
        last = recs[-1].f["seq"]
        ncalls = 1
        ctx.ensure("C13 every input is asked exactly once (first call only) for the messages delivered up to the last recorded step, and stored under its sender's name",
                   z3.And(z3.BoolVal(len(asked) == len(ins) and [a[0].oid for a in asked] == [i.oid for i in ins]), *[toz(a[1]) == last for a in asked],
                          z3.BoolVal(isinstance(ret.f["inputs"], dict) and set(ret.f["inputs"]) == {i.f["connection"].f["output_node"].f["name"] for i in ins})))
        cache = n.f["_record"]
        ctx.ensure("C13 switching a field off affects the returned copy only: the cached record keeps every column (a later call can still ask for it)",
                   z3.BoolVal(isinstance(cache.f["steps"], Rec) and all(rows(cache.f["steps"].f[fld]) is not None for fld in STEP_FIELDS) and cache.f["params"] is not None))
        ctx.ensure("C13 reading the record does not touch the recorded steps", z3.BoolVal(len(n.f["_record_steps"]) == k and all(a is b for a, b in zip(n.f["_record_steps"], recs))))


class NodeGetRecordNone(Unit):
    name = "_AsyncNodeWrapper.get_record (nothing recorded)"
    target = aw.AS + "::_AsyncNodeWrapper.get_record"
    props = ("C13",)

    def run(self, ctx):
        w, n, ins, outs = mk_node_world(ctx, dict(fanin=(), state="STOPPED"))
        n.f["record_setting"] = {f: True for f in FLAGS}
        n.f["_discarded"] = 0
        n.f["_record"] = None
        try:
            ctx.call(self_obj=n)
            ctx.ensure("a node that never started an episode has no record: RuntimeError", z3.BoolVal(False))
        except RaiseEx as e:
            ctx.ensure("a node that never started an episode has no record: RuntimeError", z3.BoolVal(e.exc == "RuntimeError"))


class ConnGetRecord(Unit):
    """the input record holds exactly the delivered messages that belong to executed steps (seq_in <= last recorded step), in delivery order"""
    name = "_AsyncConnectionWrapper.get_record"
    target = aw.AS + "::_AsyncConnectionWrapper.get_record"
    props = ("C13",)

    def configs(self):
        for m in (0, 1, 3):
            yield f"m={m}", dict(m=m)

    def run(self, ctx):
        ex, cfg = ctx.ex, ctx.cfg
        w, c, src, dst = mk_conn_world(ctx, dict(state="STOPPED"))
        m = cfg["m"]
        msgs = [Rec("MessageRecord", dict(seq_out=z3.Int(f"m{i}.seq_out"), seq_in=z3.Int(f"m{i}.seq_in"), ts_sent=z3.Real(f"m{i}.ts_sent"), ts_recv=z3.Real(f"m{i}.ts_recv"), delay=z3.Real(f"m{i}.delay")), module=BASE, frozen=True) for i in range(m)]
        c.f["_record_messages"] = list(msgs)
        c.f["_record"] = Rec("InputRecord", dict(info=leaf("iinfo"), messages=None), module=BASE, frozen=True)
        last = z3.Int("last_seq_in")
        try:
            ret = ctx.call(self_obj=c, args=[last])
        except RaiseEx as e:
            # jax.tree_util.tree_map(f) without a tree: nothing delivered for executed steps
            keep_none = z3.And(*[mm.f["seq_in"] > last for mm in msgs]) if msgs else z3.BoolVal(True)
            ctx.ensure("raises only when no delivered message belongs to an executed step", keep_none)
            return
        mr = ret.f["messages"]
        MF = ("seq_out", "seq_in", "ts_sent", "ts_recv", "delay")
        ok = isinstance(mr, Rec) and all(rows(mr.f[f]) is not None for f in MF)
        ctx.ensure("returns an InputRecord with stacked messages", z3.BoolVal(ok and z3.eq(ret.f["info"], leaf("iinfo"))))
        if not ok:
            return
        # expected: the subsequence of msgs with seq_in <= last, in order (the filter forks per message, so every path has concrete-length columns)
        import itertools
        keep = [mm.f["seq_in"] <= last for mm in msgs]
        cols = {f: rows(mr.f[f]) for f in MF}
        L = len(cols["seq_out"])
        alts = []
        for S in itertools.combinations(range(m), L):
            alts.append(z3.And(*[keep[i] if i in S else z3.Not(keep[i]) for i in range(m)],
                               *[toz(cols[f][p]) == msgs[i].f[f] for p, i in enumerate(S) for f in MF], z3.BoolVal(all(len(cols[f]) == L for f in MF))))
        ctx.ensure("C13 exactly the messages delivered to executed steps (seq_in <= last recorded step), in delivery order, each row carrying that message's own header", z3.Or(*alts) if alts else z3.BoolVal(False))
        ctx.ensure("C13 reading the record does not touch the delivered-message log", z3.BoolVal(len(c.f["_record_messages"]) == m and all(a is b for a, b in zip(c.f["_record_messages"], msgs))))



AS = "rex/asynchronous.py"


class NodeRecordSettings(Unit):
    """_AsyncNodeWrapper.set_record_settings: a given flag (or record limit) replaces the stored one, None keeps it; nothing else is touched"""
    name = "_AsyncNodeWrapper.set_record_settings"
    target = AS + "::_AsyncNodeWrapper.set_record_settings"
    props = ("C13",)

    def configs(self):
        yield "all given", dict(given=FLAGS + ["max_records"])
        yield "none given", dict(given=[])
        yield "inputs and max_records only", dict(given=["inputs", "max_records"])

    def run(self, ctx):
        ex, cfg = ctx.ex, ctx.cfg
        old = {k: z3.Bool(f"old.{k}") for k in FLAGS}
        setting = dict(old)
        w = Rec("_AsyncNodeWrapper", dict(_record_setting=setting, _max_records=z3.Int("old.max_records"), other=leaf("other")), module=AS)
        kw = {k: (z3.Bool(f"new.{k}") if k != "max_records" else z3.Int("new.max_records")) for k in cfg["given"]}
        ctx.call(self_obj=w, kwargs=kw)
        ctx.ensure("C13 every given switch replaces the stored one, every omitted one (None) is kept",
                   z3.And(*[toz(w.f["_record_setting"][k]) == (kw[k] if k in kw else old[k]) for k in FLAGS], toz(w.f["_max_records"]) == (kw["max_records"] if "max_records" in kw else z3.Int("old.max_records"))))
        ctx.ensure("frame: the same settings dict, exactly the five switches, nothing else on the wrapper", z3.BoolVal(w.f["_record_setting"] is setting and set(setting) == set(FLAGS) and set(w.f) == {"_record_setting", "_max_records", "other"}))


class GraphRecordApi(Unit):
    """AsyncGraph.set_record_settings hands every node its own value (a plain value goes to all nodes, a dict entry to the node it names, nodes without an entry get None = keep);
    AsyncGraph.get_record collects exactly one record per node, under the node's name, from that node's get_record"""
    name = "AsyncGraph.set_record_settings / get_record"
    target = AS + "::AsyncGraph.set_record_settings"
    props = ("C13",)

    def configs(self):
        yield "plain values", dict(mode="plain")
        yield "per-node dicts (partial)", dict(mode="dict")
        yield "nothing given", dict(mode="none")

    def run(self, ctx):
        ex, cfg = ctx.ex, ctx.cfg
        got = {}

        def mk(name):
            return Rec("_AsyncNodeWrapper", dict(name=name, set_record_settings=lambda ex_, **k: got.__setitem__(name, k), get_record=lambda ex_: leaf(f"record_of_{name}")), module=None)
        nodes = {n: mk(n) for n in ("a", "b", "c")}
        g = Rec("AsyncGraph", dict(_async_nodes=nodes), module=AS)
        keys = FLAGS + ["max_records"]
        if cfg["mode"] == "plain":
            kw = {k: (z3.Bool(f"v.{k}") if k != "max_records" else z3.Int("v.max_records")) for k in keys}
            want = {n: dict(kw) for n in nodes}
        elif cfg["mode"] == "dict":
            kw = {k: {"a": (z3.Bool(f"a.{k}") if k != "max_records" else z3.Int("a.max_records"))} for k in keys}
            kw["state"] = {"b": z3.Bool("b.state"), "c": z3.Bool("c.state")}
            want = {n: {k: kw[k].get(n) for k in keys} for n in nodes}
        else:
            kw = {}
            want = {n: {k: None for k in keys} for n in nodes}
        ctx.call(self_obj=g, kwargs=kw)
        same = lambda x, y: (x is None and y is None) or (x is not None and y is not None and z3.eq(toz(x), toz(y)))
        ctx.ensure("C13 every node is configured exactly once, with its own value for every switch (None = keep) - a plain value reaches every node, a dict entry only the node it names",
                   z3.BoolVal(set(got) == set(nodes) and all(set(got[n]) == set(keys) and all(same(got[n][k], want[n][k]) for k in keys) for n in got)))
        rec = ex.call(ex.getattr(g, "get_record"), [], {})
        ok = isinstance(rec, Rec) and rec.cls == "EpisodeRecord" and isinstance(rec.f.get("nodes"), dict)
        ctx.ensure("C13 the episode record holds exactly one record per node, under the node's name, and it is that node's own record",
                   z3.BoolVal(ok and list(rec.f["nodes"]) == list(nodes) and all(is_sym(rec.f["nodes"][n]) and z3.eq(rec.f["nodes"][n], leaf(f"record_of_{n}")) for n in nodes)))


UNITS = [NodeGetRecord(), NodeGetRecordNone(), ConnGetRecord(), NodeRecordSettings(), GraphRecordApi()]
