"""C17 — parameter transforms are invertible and compose in order (rex/base.py Denormalize, Chain, Exponential, Identity, Shared, Extend)."""
import ast
import z3
from pyvc.driver import Unit, check_property
from pyvc.values import *
from pyvc.interp import LoopSpec, Frame
from pyvc import smt
from . import aw

BASE = "rex/base.py"
APPLY = z3.Function("member_apply", Leaf, Leaf, Leaf)   # t.apply(x) of an arbitrary member transform t
INVF = z3.Function("member_inv", Leaf, Leaf, Leaf)


def tree(prefix, sort=REAL):
    """a nested parameter pytree with a None leaf"""
    return {"a": z3.Const(f"{prefix}.a", sort), "b": {"c": z3.Const(f"{prefix}.b.c", sort), "d": None}}


def leaves(t):
    return [t["a"], t["b"]["c"]]


def same_shape(t):
    return isinstance(t, dict) and set(t) == {"a", "b"} and isinstance(t["b"], dict) and set(t["b"]) == {"c", "d"} and t["b"]["d"] is None


class DenormInit(Unit):
    name = "Denormalize.init"
    target = BASE + "::Denormalize.init"
    props = ("C17",)

    def configs(self):
        yield "default", dict(sort=REAL)
        yield "integer-typed bounds", dict(sort=INT)        # e.g. a horizon in steps: the midpoint of [0, 5] is 2.5, not 2

    def run(self, ctx):
        from pyvc.interp import RaiseEx
        mn, mx = tree("min", ctx.cfg["sort"]), tree("max", ctx.cfg["sort"])
        for a, b in zip(leaves(mn), leaves(mx)):
            ctx.require(a < b)
        cref = ctx.ex.module_global(ctx.repo.module(BASE), "Denormalize")
        try:
            ret = ctx.ex.call(ctx.ex.getattr(cref, "init"), [mn, mx], {})
        except RaiseEx as e:
            ctx.ensure("init accepts bounds with min < max", z3.BoolVal(False))
            return
        ok = isinstance(ret, Rec) and same_shape(ret.f["scale"]) and same_shape(ret.f["offset"])
        ctx.ensure("returns a Denormalize with the bounds' tree structure (None leaves skipped)", z3.BoolVal(ok))
        if ok:
            for s, o, a, b in zip(leaves(ret.f["scale"]), leaves(ret.f["offset"]), leaves(mn), leaves(mx)):
                R_ = lambda t: z3.ToReal(t) if t.sort() == INT else t
                o, s = R_(toz(o)), R_(toz(s))
                ctx.ensure("C17 offset = (min + max) / 2 and scale = (max - min) / 2 > 0 exactly, leafwise (so that -1 maps to min and +1 to max, whatever the bounds' number type)",
                           z3.And(o == (R_(a) + R_(b)) / 2, s == (R_(b) - R_(a)) / 2, s > 0))


DenormInit.replay = lambda self, label, clause, probes, model: {"kind": "pure", "which": "denormalize_bounds"}


class DenormAlgebra(Unit):
    """normalize / denormalize on the real method bodies, with scale/offset as produced by init"""
    name = "Denormalize.apply/inv"
    target = BASE + "::Denormalize.denormalize"
    props = ("C17",)

    def run(self, ctx):
        ex = ctx.ex
        mn, mx = tree("min"), tree("max")
        for a, b in zip(leaves(mn), leaves(mx)):
            ctx.require(a < b)
        mk = lambda f: {"a": f(mn["a"], mx["a"]), "b": {"c": f(mn["b"]["c"], mx["b"]["c"]), "d": None}}
        T = Rec("Denormalize", dict(scale=mk(lambda a, b: (b - a) / 2), offset=mk(lambda a, b: (a + b) / 2)), module=BASE, frozen=True)
        x, x2 = tree("x"), tree("x2")
        y = ex.call(ex.getattr(T, "apply"), [x], {})
        y2 = ex.call(ex.getattr(T, "apply"), [x2], {})
        ctx.ensure("apply keeps the tree structure", z3.BoolVal(same_shape(y)))
        if not same_shape(y):
            return
        back = ex.call(ex.getattr(T, "inv"), [y], {})
        lo = ex.call(ex.getattr(T, "apply"), [{"a": -1.0, "b": {"c": -1.0, "d": None}}], {})
        hi = ex.call(ex.getattr(T, "apply"), [{"a": 1.0, "b": {"c": 1.0, "d": None}}], {})
        fwd = ex.call(ex.getattr(T, "apply"), [ex.call(ex.getattr(T, "inv"), [x], {})], {})
        for i in range(2):
            ctx.ensure("C17 inv(apply(x)) = x, leafwise", leaves(back)[i] == leaves(x)[i])
            ctx.ensure("C17 apply(inv(y)) = y, leafwise", leaves(fwd)[i] == leaves(x)[i])
            ctx.ensure("C17 apply maps -1 to min and +1 to max", z3.And(toz(leaves(lo)[i]) == leaves(mn)[i], toz(leaves(hi)[i]) == leaves(mx)[i]))
            ctx.ensure("C17 apply is strictly monotone for min < max", z3.Implies(leaves(x)[i] < leaves(x2)[i], leaves(y)[i] < leaves(y2)[i]))
            ctx.ensure("apply(x) = x * scale + offset", leaves(y)[i] == leaves(x)[i] * leaves(T.f["scale"])[i] + leaves(T.f["offset"])[i])


def member_attr(ex, o, attr):
    if attr == "apply":
        return lambda ex_, x: APPLY(o, x)
    if attr == "inv":
        return lambda ex_, x: INVF(o, x)
    return None


A = z3.Function("chain_apply_prefix", INT, Leaf, Leaf)    # A(k, x): the first k members applied to x
B = z3.Function("chain_inv_prefix", INT, Leaf, Leaf)      # B(k, y): the last k members inverted, last first


class ChainOrder(Unit):
    """Chain.apply / Chain.inv over a chain of ANY length (loop invariants against the fold specs A, B)"""
    props = ("C17",)

    def __init__(self, which):
        self.which = which
        self.name = f"Chain.{which}"
        self.target = f"{BASE}::Chain.{which}"

    def opts(self, cfg):
        return {"leaf_attr": member_attr}

    def run(self, ctx):
        ex = ctx.ex
        T = Seq.fresh("transforms", Leaf, kind="list")
        ctx.require(T.wf())
        n = T.length()
        x = z3.Const("x", Leaf)
        k = z3.Int("k!d")
        z = z3.Const("z!d", Leaf)
        ctx.require(z3.ForAll([z], A(0, z) == z))
        ctx.require(z3.ForAll([k, z], z3.Implies(z3.And(0 <= k, k < n), A(k + 1, z) == APPLY(T.at(k), A(k, z)))))
        ctx.require(z3.ForAll([z], B(0, z) == z))
        ctx.require(z3.ForAll([k, z], z3.Implies(z3.And(0 <= k, k < n), B(k + 1, z) == INVF(T.at(n - 1 - k), B(k, z)))))
        chain = Rec("Chain", dict(transforms=T), module=BASE, frozen=True)
        spec = A if self.which == "apply" else B
        roles = aw.Roles()      # the running value is whatever local starts out as the argument (the parameter itself excluded)
        ex.loops[(self.which, 1)] = LoopSpec(lambda ex_, kk: toz(roles.get(ex_.frame.env, "_intermediate", aw.is_term(x), exclude=("params", "self"))) == spec(kk, x))
        ret = ctx.call(self_obj=chain, args=[x])
        if self.which == "apply":
            ctx.ensure("C17 a chain applies its members first to last: apply(x) = t_n(...t_1(x))", toz(ret) == A(n, x))
        else:
            ctx.ensure("C17 a chain inverts its members last to first: inv(y) = t_1^-1(...t_n^-1(y))", toz(ret) == B(n, x))


class ChainInit(Unit):
    """chains built by the real Chain.init - flat and with a nested chain in the first, middle and last position - apply their members first to last
    and invert them last to first (members are opaque transforms, so only the ORDER is observable)"""
    name = "Chain.init (order, nested chains)"
    target = f"{BASE}::Chain.init"
    props = ("C17",)

    def opts(self, cfg):
        return {"leaf_attr": member_attr}

    def configs(self):
        yield "flat (t0, t1, t2)", dict(shape=[0, 1, 2])
        yield "nested first ((t0, t1), t2)", dict(shape=[[0, 1], 2])
        yield "nested middle (t0, (t1,), t2)", dict(shape=[0, [1], 2])
        yield "nested last (t0, (t1, t2))", dict(shape=[0, [1, 2]])
        yield "two nested ((t0, t1), (t2, t3))", dict(shape=[[0, 1], [2, 3]])

    def run(self, ctx):
        ex, cfg = ctx.ex, ctx.cfg
        cref = ex.module_global(ctx.repo.module(BASE), "Chain")
        init = ex.getattr(cref, "init")
        T = lambda i: z3.Const(f"t{i}", Leaf)

        def build(shape):
            members, flat = [], []
            for it in shape:
                if isinstance(it, list):
                    sub, subflat = build(it)
                    members.append(ex.call(init, sub, {}))
                    flat += subflat
                else:
                    members.append(T(it))
                    flat.append(it)
            return members, flat
        members, flat = build(cfg["shape"])
        chain = ex.call(init, members, {})
        x = z3.Const("x", Leaf)
        want = x
        for i in flat:
            want = APPLY(T(i), want)
        got = ex.call(ex.getattr(chain, "apply"), [x], {})
        ctx.ensure("C17 a chain (nested chains included) applies its members first to last", toz(got) == want)
        y = z3.Const("y", Leaf)
        wanti = y
        for i in reversed(flat):
            wanti = INVF(T(i), wanti)
        goti = ex.call(ex.getattr(chain, "inv"), [y], {})
        ctx.ensure("C17 a chain (nested chains included) inverts its members last to first", toz(goti) == wanti)


class ChainLemma(Unit):
    name = "lemma: Chain inv(apply(x)) = x"
    target = None
    kind = "lemma"
    props = ("C17",)

    def run(self, ctx):
        n, k = z3.Ints("n k")
        x, z, t = z3.Const("x", Leaf), z3.Const("z!d", Leaf), z3.Const("t!d", Leaf)
        Tm = z3.Function("member", INT, Leaf)
        kk = z3.Int("k!d")
        ctx.require(n >= 0)
        ctx.require(z3.ForAll([z], A(0, z) == z))
        ctx.require(z3.ForAll([kk, z], z3.Implies(z3.And(0 <= kk, kk < n), A(kk + 1, z) == APPLY(Tm(kk), A(kk, z)))))
        ctx.require(z3.ForAll([z], B(0, z) == z))
        ctx.require(z3.ForAll([kk, z], z3.Implies(z3.And(0 <= kk, kk < n), B(kk + 1, z) == INVF(Tm(n - 1 - kk), B(kk, z)))))
        ctx.require(z3.ForAll([t, z], INVF(t, APPLY(t, z)) == z))     # every member is invertible on its domain
        ctx.ensure("base: B(0, A(n, x)) = A(n, x)", B(0, A(n, x)) == A(n, x))
        ctx.ensure("step: B(k, A(n, x)) = A(n-k, x) => B(k+1, A(n, x)) = A(n-k-1, x)",
                   z3.Implies(z3.And(0 <= k, k < n, B(k, A(n, x)) == A(n - k, x)), B(k + 1, A(n, x)) == A(n - k - 1, x)))
        ctx.ensure("conclusion (k = n): inv(apply(x)) = x follows from the induction", z3.Implies(B(n, A(n, x)) == A(n - n, x), B(n, A(n, x)) == x))


class ExpIdentity(Unit):
    props = ("C17",)

    def __init__(self, cls):
        self.cls = cls
        self.name = f"{cls}.apply/inv"
        self.target = f"{BASE}::{cls}.apply"

    def run(self, ctx):
        ex = ctx.ex
        T = Rec(self.cls, {}, module=BASE, frozen=True)
        x = tree("x")
        y = ex.call(ex.getattr(T, "apply"), [x], {})
        ctx.ensure("apply keeps the tree structure", z3.BoolVal(same_shape(y)))
        if not same_shape(y):
            return
        back = ex.call(ex.getattr(T, "inv"), [y], {})
        for i in range(2):
            ctx.ensure(f"C17 {self.cls}: inv(apply(x)) = x, leafwise", toz(leaves(back)[i]) == leaves(x)[i])
            if self.cls == "Exponential":
                ctx.ensure("Exponential.apply is exp, leafwise (positive)", z3.And(toz(leaves(y)[i]) == smt.EXP(leaves(x)[i]), toz(leaves(y)[i]) > 0))
            else:
                ctx.ensure("Identity.apply returns its argument", toz(leaves(y)[i]) == leaves(x)[i])


def mk_lambda(ctx, text):
    node = ast.parse(text, mode="eval").body
    return Closure(node, [], ctx.repo.module(BASE))


class SharedRoundTrip(Unit):
    name = "Shared.apply/inv"
    target = BASE + "::Shared.apply"
    props = ("C17",)

    def run(self, ctx):
        ex = ctx.ex
        T = Rec("Shared", dict(where=mk_lambda(ctx, "lambda p: p['a']"), replace_fn=mk_lambda(ctx, "lambda p: p['b']['c']"), inverse_fn=mk_lambda(ctx, "lambda _tree: None")), module=BASE, frozen=True)
        x = {"a": None, "b": {"c": z3.Real("x.b.c"), "d": None}}      # the domain of the transform: the shared leaf is absent (the inverse's value)
        y = ex.call(ex.getattr(T, "apply"), [x], {})
        ctx.ensure("C17 Shared.apply copies the replacement into the `where` leaf and leaves the rest", z3.And(z3.BoolVal(isinstance(y, dict) and set(y) == {"a", "b"} and y["b"] is x["b"]), toz(y["a"]) == x["b"]["c"]) if isinstance(y, dict) and y.get("a") is not None else z3.BoolVal(False))
        back = ex.call(ex.getattr(T, "inv"), [y], {})
        ctx.ensure("C17 Shared: inv(apply(x)) = x on trees whose shared leaf equals the inverse's value", z3.BoolVal(isinstance(back, dict) and back.get("a", 0) is None and back.get("b") is x["b"]))


class ExtendFill(Unit):
    name = "Extend.extend"
    target = BASE + "::Extend.extend"
    props = ("C17",)

    def summaries(self, cfg):
        def tree_extend(ex, o, a, k, n):
            ex.assumptions_used.add("rex.jax_utils.tree_extend(template, tree) broadcasts `tree` as a prefix of `template` (jax flatten_axes): a None prefix yields None at every leaf below it")
            template, t = a

            def go(tp, tr):
                if isinstance(tp, dict):
                    if isinstance(tr, dict):
                        return {kk: go(tp[kk], tr[kk]) for kk in tp}
                    return {kk: go(tp[kk], tr) for kk in tp}
                return tr
            return go(template, t)
        return {"tree_extend": tree_extend}

    def run(self, ctx):
        ex = ctx.ex
        base = {"a": {"b": z3.Real("base.a.b"), "c": z3.Real("base.a.c")}, "d": z3.Real("base.d"), "e": z3.Real("base.e")}
        part = {"a": None, "d": z3.Real("given.d"), "e": None}
        T = Rec("Extend", dict(base_params=base, mask=None), module=BASE, frozen=True)
        y = ctx.call(self_obj=T, args=[part])
        ok = isinstance(y, dict) and set(y) == {"a", "d", "e"} and isinstance(y["a"], dict) and set(y["a"]) == {"b", "c"}
        ctx.ensure("extend returns a tree with the base tree's structure", z3.BoolVal(ok))
        if ok:
            ctx.ensure("C17 supplied leaves are left untouched", toz(y["d"]) == part["d"])
            ctx.ensure("C17 exactly the missing leaves are filled from the base tree", z3.And(toz(y["a"]["b"]) == base["a"]["b"], toz(y["a"]["c"]) == base["a"]["c"], toz(y["e"]) == base["e"]))


DenormAlgebra.replay = lambda self, label, clause, probes, model: {"kind": "pure", "which": "denormalize", "probes": probes}


UNITS = [DenormInit(), DenormAlgebra(), ChainOrder("apply"), ChainOrder("inv"), ChainLemma(), ChainInit(), ExpIdentity("Exponential"), ExpIdentity("Identity"), SharedRoundTrip(), ExtendFill()]
EXTRA = dict(assumptions=["floats as reals: inv(apply(x)) = x holds exactly (the statement allows floating-point rounding)",
                          "every Chain member is invertible on its domain (hypothesis of the chain lemma); induction over the chain length is the trusted meta-step",
                          "Extend is analysed on one representative nested tree (structure enumerated, values symbolic); tree_extend's prefix broadcast is an assumed contract"])


def check(tier, seed):
    return check_property("C17", UNITS, tier, seed, extra=EXTRA)
ExpIdentity.replay = lambda self, label, clause, probes, model: {"kind": "pure", "which": "exponential", "probes": probes}
