"""C11 — interpolated delays sample the sender's signal at step time minus delay (rex/base.py TrainableDist.apply_delay, linear variants)."""
import z3
from pyvc.driver import Unit, check_property
from pyvc.values import *
from pyvc import smt
from . import aw
from .compiled import BASE
from .c10 import mk_dist


def mk_numeric_input(tag, n, dd):
    return Rec("InputState", dict(seq=Arr.fresh(f"{tag}.seq", INT, n), ts_sent=Arr.fresh(f"{tag}.ts_sent", REAL, n), ts_recv=Arr.fresh(f"{tag}.ts_recv", REAL, n),
                                  data=Arr.fresh(f"{tag}.data", REAL, n), delay_dist=dd), module=BASE, frozen=True)


class ApplyDelayLinear(Unit):
    props = ("C11",)

    def __init__(self, variant):
        self.variant = variant
        self.name = f"TrainableDist.apply_delay ({variant})"
        self.target = BASE + "::TrainableDist.apply_delay"

    def summaries(self, cfg):
        return {("TrainableDist", "window"): lambda ex, o, a, k, n: z3.Int("Wd")}

    def run(self, ctx):
        ex = ctx.ex
        D, mn, mx, alpha = mk_dist(self.variant)
        ctx.require(z3.And(0 <= mn, mn < mx, 0 <= alpha, alpha <= 1))
        Wd, C = z3.Int("Wd"), z3.Int("C")
        ctx.require(z3.And(Wd >= 1, C - Wd >= 1))
        inp = mk_numeric_input("in", C, D)
        ts_start = z3.Real("ts_start")
        d = mn + alpha * (mx - mn)
        seq, sent, recv0, data = inp.f["seq"].a, inp.f["ts_sent"].a, inp.f["ts_recv"].a, inp.f["data"].a
        ret = ctx.call(self_obj=D, args=[z3.Real("rate_out"), inp, ts_start])
        W = C - Wd
        g = [x for x in ex.ghost.get("interp", []) if x["fp"].a.eq(data)]
        ctx.ensure("the payload is interpolated exactly once, over the whole extended window", z3.BoolVal(len(g) == 1))
        if len(g) != 1:
            return
        I = g[0]
        k = z3.Int("k!c11")
        recv = lambda t: z3.If(z3.Select(seq, t) < 0, z3.Select(recv0, t), z3.Select(sent, t) + d)
        knots = recv if self.variant == "linear" else (lambda t: z3.If(z3.Select(seq, t) < 0, z3.RealVal("-1e9"), z3.Select(sent, t) + d))
        ctx.ensure("C11 the interpolation knots are the arrival times ts_sent + d (dummy entries keep their receive time"
                   + ("" if self.variant == "linear" else "; linear_real_only parks them at -1e9 so they are never interpolated with real messages") + "), the values are the payloads",
                   z3.And(I["xp"].n == C, z3.ForAll([k], z3.Implies(z3.And(0 <= k, k < C), z3.Select(I["xp"].a, k) == knots(k)))))
        q = lambda j: z3.Select(I["x"].a, j)
        j = z3.Int("j!c11")
        ctx.ensure("C11 the newest entry is the signal evaluated exactly at the step's start time (i.e. the sender's signal at ts_start - d)", z3.And(I["x"].n == W, q(W - 1) == ts_start))
        imax, t = z3.Int("imax"), z3.Int("t!c11")
        first_late = z3.Or(z3.And(imax == C, z3.ForAll([t], z3.Implies(z3.And(0 <= t, t < C), recv(t) <= ts_start))),
                           z3.And(0 <= imax, imax < C, recv(imax) > ts_start, z3.ForAll([t], z3.Implies(z3.And(0 <= t, t < imax), recv(t) <= ts_start))))
        raw = z3.If(imax - W < 0, imax - W + C, imax - W)
        s0 = z3.If(raw < 0, 0, z3.If(raw > C - W, C - W, raw))
        ctx.ensure("C11 older entries are evaluated at ts_start minus the arrival spacing of the corresponding messages (one sender period apart for periodic sends): "
                   "query_j = arrival(s + j) + ts_start - arrival(s + W - 1), s = the zoh slice start",
                   z3.substitute(z3.And(first_late, z3.ForAll([j], z3.Implies(z3.And(0 <= j, j < W), q(j) == knots(s0 + j) + ts_start - knots(s0 + W - 1)))), (imax, ex.ghost["argwhere"][-1]))
                   if ex.ghost.get("argwhere") else z3.BoolVal(False))
        ctx.ensure("result has exactly `window` entries and carries the interpolated payloads", z3.And(ret.f["data"].n == W, z3.ForAll([j], z3.Implies(z3.And(0 <= j, j < W), z3.Select(ret.f["data"].a, j) == I["val"](j)))))


class InterpLemmas(Unit):
    """consequences of the interpolation contract used by the statement: values lie between neighbouring messages, coincide with the
    zero-order-hold value at a knot, are continuous in the delay and have the finite-difference slope inside a segment"""
    name = "lemma: piecewise-linear interpolation"
    target = None
    kind = "lemma"
    props = ("C11",)

    def run(self, ctx):
        x0, x1, f0, f1, q, v, q2, v2 = z3.Reals("x0 x1 f0 f1 q v q2 v2")
        seg = lambda qq, vv: z3.And(x0 < x1, x0 <= qq, qq <= x1, vv * (x1 - x0) == f0 * (x1 - qq) + f1 * (qq - x0))
        mn = z3.If(f0 <= f1, f0, f1)
        mx = z3.If(f0 <= f1, f1, f0)
        ctx.ensure("C11 every interpolated value lies between its neighbouring messages", z3.Implies(seg(q, v), z3.And(mn <= v, v <= mx)))
        ctx.ensure("C11 at a knot the value is that message's payload (coincides with zero-order hold when the delayed arrival coincides with a message)",
                   z3.Implies(seg(q, v), z3.And(z3.Implies(q == x0, v == f0), z3.Implies(q == x1, v == f1))))
        ctx.ensure("C11 inside a segment the value changes linearly with the query time: finite-difference slope (f1 - f0)/(x1 - x0); so d/d(delay) = -slope and the value is continuous in the delay",
                   z3.Implies(z3.And(seg(q, v), seg(q2, v2)), (v2 - v) * (x1 - x0) == (f1 - f0) * (q2 - q)))
        # continuity across a knot: the two adjacent segments agree at the shared knot
        x2, f2, va, vb = z3.Reals("x2 f2 va vb")
        ctx.ensure("C11 adjacent segments agree at their shared knot (continuity in the delay)",
                   z3.Implies(z3.And(seg(x1, va), x1 < x2, vb * (x2 - x1) == f1 * (x2 - x1) + f2 * (x1 - x1)), va == vb))


from .c10 import DistAlgebra          # the window arithmetic (extension = ceil(rate (max - min))) sizes the buffer the interpolation looks back into
from .compiled import UpdateInputsDelay
UNITS = [ApplyDelayLinear("linear"), ApplyDelayLinear("linear_real_only"), InterpLemmas(), DistAlgebra(), UpdateInputsDelay()]
EXTRA = dict(assumptions=["jnp.interp's contract (piecewise linear through the knots, clamped outside, knots non-decreasing) is assumed; the derivative statement is the slope of the proved linear form - that jax.grad computes it is JAX's contract",
                          "integer leaves (sequence numbers) are cast back after interpolation (truncation): not modelled numerically"])


def check(tier, seed):
    from pyvc import bounded
    n = 16 if tier == "quick" else 120
    res = bounded.run_native("c11_interp.py", ["--n", str(n), "--seed", str(seed)])
    lines, ev, err = bounded.report("C11", "linear interpolation on scalar / vector / matrix payloads", res, "c11_interp.py")
    extra = dict(EXTRA)
    extra["bounded"] = [dict(ev, bound=f"{n} random cases (both linear variants, windows 1..3, rates 4..16 Hz, delays across [min, max], payload shapes (), (1,), (3,), (2,2), float32): "
                                       "the real apply_delay against a float64 piecewise-linear reference, steady state (all window entries real)")]
    extra["assumptions"] = list(EXTRA["assumptions"]) + ["PyVC analyses a single scalar payload leaf; multi-element payloads (the vmapped path) are covered by the bounded stand-in only",
                                                          "float32 effects of the -1e9 sentinel of linear_real_only while the window still holds dummy entries are not covered (machine arithmetic)"]
    code = check_property("C11", UNITS, tier, seed, extra=extra)
    if lines:
        for l in lines:
            print(l)
        return 1
    if err and code == 0:
        print(f"ERROR property=C11 bounded stand-in failed to run: {err[-300:]}")
        return 3
    return code
