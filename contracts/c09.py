"""C09 — compiled execution is a pure function, independent of the driving API."""
from pyvc.driver import check_property
from . import compiled, graph_api

UNITS = [u for u in compiled.UNITS + graph_api.UNITS if "C09" in u.props]
EXTRA = dict(assumptions=["jax.jit / jax.vmap preserve the semantics of the traced functions (JAX's contract)",
                          "run_supervisor is analysed for step >= 1, i.e. after run_until_supervisor / reset() (the documented call order)"])


def check(tier, seed):
    return check_property("C09", UNITS, tier, seed, extra=EXTRA)
