"""C09 — compiled execution is a pure function, independent of the driving API."""
from pyvc.driver import check_property
from . import compiled, graph_api

UNITS = [u for u in compiled.UNITS + graph_api.UNITS if "C09" in u.props]
EXTRA = dict(assumptions=["jax.jit / jax.vmap preserve the semantics of the traced functions (JAX's contract)",
                          "run_supervisor is analysed for step >= 1, i.e. after run_until_supervisor / reset() (the documented call order)"])


def check(tier, seed):
    from pyvc import bounded
    lines, ev, err = bounded.compiled_api("C09", tier, seed)
    extra = dict(EXTRA)
    extra["bounded"] = list(extra.get("bounded", [])) + [ev]
    for l in ev.get("known_finding_lines", []):
        print(l)
    code = check_property("C09", UNITS, tier, seed, extra=extra)
    return bounded.finish_with_bounded("C09", code, lines, err)
