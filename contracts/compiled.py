"""Contracts on the compiled runtime: rex/partition_runner.py (update_output, _update_inputs, _run_node, _run_generation),
rex/base.py (InputState.push, Window.push, GraphState.replace_*) and the ring-buffer lemma."""
import z3
from pyvc.driver import Unit
from pyvc.values import *
from pyvc import values as V
from pyvc.interp import RaiseEx, LoopSpec
from pyvc import smt
from . import aw

PR = "rex/partition_runner.py"
BASE = "rex/base.py"


def mk_window(tag, n):
    return Rec("Window", dict(seq=Arr.fresh(f"{tag}.seq", INT, n), ts_sent=Arr.fresh(f"{tag}.ts_sent", REAL, n), ts_recv=Arr.fresh(f"{tag}.ts_recv", REAL, n)), module=BASE, frozen=True)


def mk_input_state(tag, n, dd=None):
    return Rec("InputState", dict(seq=Arr.fresh(f"{tag}.seq", INT, n), ts_sent=Arr.fresh(f"{tag}.ts_sent", REAL, n), ts_recv=Arr.fresh(f"{tag}.ts_recv", REAL, n),
                                  data=Arr.fresh(f"{tag}.data", Leaf, n), delay_dist=dd if dd is not None else z3.Const(f"{tag}.delay_dist", Leaf)), module=BASE, frozen=True)


# =========================================================================================== InputState.push / Window.push
class RingPush(Unit):
    """push = shift by one and append (size > 1) / overwrite (size 1), per leaf; delay_dist kept"""
    props = ("C01", "C03", "C07")

    def __init__(self, cls):
        self.cls = cls
        self.name = f"{cls}.push"
        self.target = f"{BASE}::{cls}.push"

    def run(self, ctx):
        n = z3.Int("n")
        ctx.require(n >= 1)
        leaves = ["seq", "ts_sent", "ts_recv"] + (["data"] if self.cls == "InputState" else [])
        obj = mk_input_state("w", n) if self.cls == "InputState" else mk_window("w", n)
        new = dict(seq=z3.Int("x.seq"), ts_sent=z3.Real("x.ts_sent"), ts_recv=z3.Real("x.ts_recv"), data=z3.Const("x.data", Leaf))
        ret = ctx.call(self_obj=obj, args=[new[l] for l in leaves])
        ok = isinstance(ret, Rec) and ret.cls == self.cls
        ctx.ensure(f"returns a {self.cls}", z3.BoolVal(ok))
        if not ok:
            return
        j = z3.Int("j!rp")
        for l in leaves:
            o, r = obj.f[l], ret.f[l]
            ctx.ensure(f"{l}: same length, newest entry last, everything else moved one slot towards the front (oldest first)",
                       z3.And(r.n == n, z3.Select(r.a, n - 1) == new[l], z3.ForAll([j], z3.Implies(z3.And(0 <= j, j < n - 1), z3.Select(r.a, j) == z3.Select(o.a, j + 1)))))
        if self.cls == "InputState":
            ctx.ensure("delay_dist kept", ret.f["delay_dist"] == obj.f["delay_dist"])


# =========================================================================================== update_output / ring buffer lemma
class UpdateOutput(Unit):
    name = "update_output"
    target = PR + "::update_output"
    props = ("C08", "C01")

    def run(self, ctx):
        size = z3.Int("size")
        ctx.require(size >= 1)
        buf = Arr.fresh("buf", Leaf, size)
        out, seq = z3.Const("out", Leaf), z3.Int("seq")
        ret = ctx.call(args=[[buf], [out], seq])   # pytree with one leaf; tree_map is leafwise (assumed), so one leaf stands for all
        ok = isinstance(ret, list) and len(ret) == 1 and isinstance(ret[0], Arr)
        ctx.ensure("returns a buffer of the same structure", z3.BoolVal(ok))
        if not ok:
            return
        nb = ret[0]
        q, m, j = z3.Ints("q!uo m!uo j!uo")
        ctx.ensure("C08 the output is written at slot seq mod size and every other slot is unchanged",
                   z3.And(nb.n == size, z3.Exists([q, m], z3.And(seq == q * size + m, 0 <= m, m < size, z3.Select(nb.a, m) == out,
                                                              z3.ForAll([j], z3.Implies(z3.And(0 <= j, j < size, j != m), z3.Select(nb.a, j) == z3.Select(buf.a, j)))))))


class RingBufferLemma(Unit):
    """Lemma RB over the two contracts above: writes arrive in sequence order; Inv(w): every z in (w-S, w] has buf[z mod S] = out(z) (default for z < 0).
    A read of sequence number r <= w returns the scheduled payload iff w - r < S."""
    name = "lemma: ring buffer read"
    target = None
    kind = "lemma"
    props = ("C08", "C01")

    def run(self, ctx):
        S, w, r, z, y = z3.Ints("S w r z y")
        out = z3.Function("out", INT, Leaf)          # payload emitted at sequence number z (z < 0: default output)
        buf = z3.Array("buf", INT, Leaf)
        mod = lambda a: PYMOD(a, S)
        ctx.require(S >= 1)
        inv = lambda b, ww: z3.ForAll([z], z3.Implies(z3.And(ww - S < z, z <= ww), z3.Select(b, mod(z)) == out(z)))
        residue = z3.ForAll([z, y], z3.Implies(z3.And(mod(z) == mod(y), z - y < S, y - z < S), z == y))
        # proved for arbitrary (free) z0, y0 with explicit quotients -- its universal closure `residue` is then used as a hypothesis below
        z0, y0 = z3.Ints("z0 y0")
        dq = PYDIV(z0, S) - PYDIV(y0, S)
        ctx.ensure("lemma: a multiple of S strictly between -S and S is 0", z3.Implies(z3.And(dq * S < S, dq * S > -S), dq == 0))
        ctx.ensure("residue lemma: |z - y| < S and z = y (mod S) imply z = y",
                   z3.Implies(z3.Implies(z3.And(dq * S < S, dq * S > -S), dq == 0), z3.Implies(z3.And(mod(z0) == mod(y0), z0 - y0 < S, y0 - z0 < S), z0 == y0)))
        # base: buffer initialised with the default output everywhere, nothing written yet (w = -1)
        ctx.ensure("base: the initial buffer (default output in every slot) satisfies Inv(-1)",
                   z3.Implies(z3.ForAll([z], z3.Implies(z < 0, out(z) == out(-1))), z3.Implies(z3.ForAll([z], z3.Select(buf, z) == out(-1)), inv(buf, z3.IntVal(-1)))))
        # step: update_output's contract writes slot (w+1) mod S
        nb = z3.Store(buf, mod(w + 1), out(w + 1))
        ctx.ensure("step: writing out(w+1) at slot (w+1) mod S turns Inv(w) into Inv(w+1)", z3.Implies(z3.And(residue, inv(buf, w)), inv(nb, w + 1)))
        ctx.ensure("read: with Inv(w), reading slot r mod S returns out(r) whenever w - S < r <= w (the payload is not overwritten before its last scheduled reader iff size > w - r)",
                   z3.Implies(z3.And(inv(buf, w), w - S < r, r <= w), z3.Select(buf, mod(r)) == out(r)))
        S2 = z3.Int("S2")
        ctx.ensure("monotone in the size: a reader admissible for size S is admissible for any S2 >= S (extra padding / larger user sizes)", z3.Implies(z3.And(S2 >= S, w - r < S), w - r < S2))


# =========================================================================================== make_update_inputs._update_inputs
def mk_compiled_node(ctx, input_names, out_names):
    """a node with inputs from the producers in out_names (input names may differ from producer names)"""
    dd_cls = lambda: Rec("DelayDistribution", {}, module=BASE, frozen=True)   # static distribution: window 0, equivalent() True, apply_delay identity (real source)
    node = Rec("BaseNode", dict(name="n", rate=z3.Real("n.rate"), inputs={}, outputs={}), module=None)
    for inn, outn in zip(input_names, out_names):
        prod = Rec("BaseNode", dict(name=outn, rate=z3.Real(f"{outn}.rate")), module=None)
        node.f["inputs"][inn] = Rec("Connection", dict(output_node=prod, input_node=node, input_name=inn, delay_dist=dd_cls()), module=None)
    return node


class UpdateInputs(Unit):
    name = "_update_inputs"
    target = PR + "::make_update_inputs"
    props = ("C01", "C08", "C09", "C13")

    def configs(self):
        yield "1 input (shadow name)", dict(ins=["shadow"], outs=["prod"])
        yield "2 inputs", dict(ins=["a", "b_in"], outs=["a", "b"])
        yield "no inputs", dict(ins=[], outs=[])

    def run(self, ctx):
        ex, cfg = ctx.ex, ctx.cfg
        node = mk_compiled_node(ctx, cfg["ins"], cfg["outs"])
        fn = ctx.call(args=[node])   # the real factory returns the real closure
        ok = isinstance(fn, Closure)
        ctx.ensure("factory returns the update function", z3.BoolVal(ok))
        if not ok:
            return
        wins, bufs, sizes, prev = {}, {}, {}, {}
        for inn, outn in zip(cfg["ins"], cfg["outs"]):
            wn = z3.Int(f"{outn}.win")
            ctx.require(wn >= 1)
            wins[outn] = mk_window(f"t.{outn}", wn)
            sizes[outn] = z3.Int(f"{outn}.bufsize")
            ctx.require(sizes[outn] >= 1)
            bufs[outn] = [Arr.fresh(f"buffer.{outn}", Leaf, sizes[outn])]
            prev[inn] = mk_input_state(f"prev.{inn}", wn, dd=Rec("DelayDistribution", {}, module=BASE, frozen=True))
        bufs["n"] = [Arr.fresh("buffer.n", Leaf, z3.Int("n.bufsize"))]
        t = Rec("SlotVertex", dict(seq=z3.Int("t.seq"), ts_start=z3.Real("t.ts_start"), ts_end=z3.Real("t.ts_end"), windows=wins, run=z3.Bool("t.run"), kind="n", generation=0), module=BASE, frozen=True)
        gs = Rec("GraphState", dict(step=z3.Int("gs.step"), eps=z3.Int("gs.eps"), rng={"n": z3.Const("rng", Leaf)}, seq={"n": z3.Int("old.seq")}, ts={"n": z3.Real("old.ts")},
                                    params={"n": z3.Const("params", Leaf)}, state={"n": z3.Const("state", Leaf)}, inputs={"n": prev}, timings_eps=None, buffer=bufs, aux={}), module=BASE, frozen=True)
        ss = ex.call(fn, [gs, t], {})
        ok = isinstance(ss, Rec) and ss.cls == "StepState"
        ctx.ensure("returns a StepState", z3.BoolVal(ok))
        if not ok:
            return
        ctx.ensure("C01 the step sees the slot's own sequence number and start time, the graph state's episode; rng / state / params untouched",
                   z3.And(ss.f["seq"] == t.f["seq"], ss.f["ts"] == t.f["ts_start"], ss.f["eps"] == gs.f["eps"], ss.f["rng"] == z3.Const("rng", Leaf),
                          ss.f["state"] == z3.Const("state", Leaf), ss.f["params"] == z3.Const("params", Leaf)), props=("C01", "C09", "C13"))
        ctx.ensure("inputs keyed by the node's input names", z3.BoolVal(set(ss.f["inputs"].keys()) == set(cfg["ins"])))
        j = z3.Int("j!ui")
        for inn, outn in zip(cfg["ins"], cfg["outs"]):
            i = ss.f["inputs"].get(inn)
            if not isinstance(i, Rec):
                ctx.ensure(f"input {inn} present", z3.BoolVal(False))
                continue
            wv, size, b = wins[outn], sizes[outn], bufs[outn][0]
            dat = i.f["data"][0] if isinstance(i.f["data"], list) and len(i.f["data"]) == 1 and isinstance(i.f["data"][0], Arr) else None
            if dat is None:
                ctx.ensure(f"input {inn}: data has the buffer's pytree structure", z3.BoolVal(False))
                continue
            # C01: "only the sequence numbers of not-yet-filled window entries may differ (any negative value means 'default output')" - so the reported numbers are pinned where the
            # schedule names a message (>= 0) and only have to stay negative where it names none
            seq_ok = seq_as_scheduled(i.f["seq"], wv.f["seq"])
            ctx.ensure(f"C01/C07 input {inn}: sequence numbers (of filled entries; unfilled ones stay negative), send and receive times are the scheduled window of producer {outn}",
                       z3.And(seq_ok, aw.same(i.f["ts_sent"], wv.f["ts_sent"]), aw.same(i.f["ts_recv"], wv.f["ts_recv"])), props=("C01", "C08"))
            ctx.ensure(f"C08 input {inn}: entry j is read from slot window.seq[j] mod size of producer {outn}'s output buffer",
                       z3.And(dat.n == wv.f["seq"].n, z3.ForAll([j], z3.Implies(z3.And(0 <= j, j < wv.f["seq"].n), z3.Select(dat.a, j) == z3.Select(b.a, PYMOD(z3.Select(wv.f["seq"].a, j), size))))), props=("C08", "C01"))
            ctx.ensure(f"input {inn}: the previous delay distribution is kept", z3.BoolVal(i.f["delay_dist"] is prev[inn].f["delay_dist"]), props=("C10", "C01"))


def seq_as_scheduled(iseq, wseq):
    """reported sequence numbers vs the schedule's: equal where the schedule names a message (>= 0), negative where it names none (C01: 'any negative value means default output')"""
    if not (isinstance(iseq, Arr) and isinstance(wseq, Arr)):
        return z3.BoolVal(False)
    j = z3.Int("j!sq")
    return z3.And(iseq.n == wseq.n, z3.ForAll([j], z3.Implies(z3.And(0 <= j, j < wseq.n), z3.If(z3.Select(wseq.a, j) >= 0, z3.Select(iseq.a, j) == z3.Select(wseq.a, j), z3.Select(iseq.a, j) < 0))))


class UpdateInputsDelay(Unit):
    """the delay of a (trainable) connection is applied with the PRODUCER's rate (the rate the window extension was sized with), at the slot's start time,
    on the freshly assembled window - and what apply_delay returns is what the step sees"""
    name = "_update_inputs (apply_delay call)"
    target = PR + "::make_update_inputs"
    props = ("C10", "C11", "C01")

    def run(self, ctx):
        ex = ctx.ex
        calls = []
        DELAYED = Rec("InputState", dict(seq=Opaque("delayed.seq"), ts_sent=Opaque("s"), ts_recv=Opaque("r"), data=Opaque("d"), delay_dist=Opaque("dd")), module=BASE, frozen=True)

        def mkdd(tag):
            return Rec("TrainableDist", dict(alpha=z3.Real(f"{tag}.alpha"), min=z3.Real(f"{tag}.min"), max=z3.Real(f"{tag}.max"), interp="zoh",
                                             equivalent=lambda ex_, other: True,
                                             apply_delay=lambda ex_, rate_out, inp, ts_start: (calls.append((rate_out, inp, ts_start)), DELAYED)[1]), module=None, frozen=True)
        node = Rec("BaseNode", dict(name="n", rate=z3.Real("n.rate"), inputs={}, outputs={}), module=None)
        prod = Rec("BaseNode", dict(name="prod", rate=z3.Real("prod.rate")), module=None)
        conn_dd, prev_dd = mkdd("conn"), mkdd("prev")
        node.f["inputs"]["shadow"] = Rec("Connection", dict(output_node=prod, input_node=node, input_name="shadow", delay_dist=conn_dd), module=None)
        fn = ctx.call(args=[node])
        wn = z3.Int("prod.win")
        ctx.require(wn >= 1)
        wv = mk_window("t.prod", wn)
        size = z3.Int("prod.bufsize")
        ctx.require(size >= 1)
        prev = {"shadow": mk_input_state("prev.shadow", wn, dd=prev_dd)}
        t = Rec("SlotVertex", dict(seq=z3.Int("t.seq"), ts_start=z3.Real("t.ts_start"), ts_end=z3.Real("t.ts_end"), windows={"prod": wv}, run=z3.Bool("t.run"), kind="n", generation=0), module=BASE, frozen=True)
        gs = Rec("GraphState", dict(step=z3.Int("gs.step"), eps=z3.Int("gs.eps"), rng={"n": z3.Const("rng", Leaf)}, seq={"n": z3.Int("old.seq")}, ts={"n": z3.Real("old.ts")},
                                    params={"n": z3.Const("params", Leaf)}, state={"n": z3.Const("state", Leaf)}, inputs={"n": prev}, timings_eps=None,
                                    buffer={"prod": [Arr.fresh("buffer.prod", Leaf, size)], "n": [Arr.fresh("buffer.n", Leaf, z3.Int("n.bufsize"))]}, aux={}), module=BASE, frozen=True)
        ss = ex.call(fn, [gs, t], {})
        ok = isinstance(ss, Rec) and len(calls) == 1
        ctx.ensure("apply_delay is called exactly once per input", z3.BoolVal(ok))
        if not ok:
            return
        rate_out, inp, ts0 = calls[0]
        ctx.ensure("C10/C11 the delay is applied with the PRODUCER's rate (what the window extension was sized with) and the slot's own start time",
                   z3.And(toz(rate_out) == prod.f["rate"], toz(ts0) == t.f["ts_start"]))
        ctx.ensure("C10 ... on the freshly assembled (undelayed) window of that producer, carrying the graph state's own (possibly re-parametrised) delay distribution",
                   z3.And(seq_as_scheduled(inp.f["seq"], wv.f["seq"]), toz(aw.same(inp.f["ts_sent"], wv.f["ts_sent"])), toz(aw.same(inp.f["ts_recv"], wv.f["ts_recv"])), z3.BoolVal(inp.f["delay_dist"] is prev_dd)))
        ctx.ensure("C10 ... and the step sees exactly what apply_delay returns", z3.BoolVal(ss.f["inputs"].get("shadow") is DELAYED))


UNITS = [RingPush("InputState"), RingPush("Window"), UpdateOutput(), RingBufferLemma(), UpdateInputs(), UpdateInputsDelay()]


# =========================================================================================== _run_node / _run_generation (C06, C13, C01)
class StepCounter:
    def __init__(self):
        self.calls = []

    def make(self, kind):
        def step(ex, ss):
            self.calls.append((kind, ss))
            k = len(self.calls)
            new = Rec("StepState", dict(rng=z3.Const(f"c_rng{k}", Leaf), state=z3.Const(f"c_state{k}", Leaf), params=z3.Const(f"c_params{k}", Leaf),
                                         inputs=ss.f["inputs"], eps=ss.f["eps"], seq=z3.Int(f"c_seq{k}"), ts=z3.Real(f"c_ts{k}")), module=BASE, frozen=True)
            return new, [z3.Const(f"c_out{k}", Leaf)]
        return step


def mk_steps_record(tag, rows, rs):
    f = dict(eps=Arr.fresh(f"{tag}.eps", INT, rows), seq=Arr.fresh(f"{tag}.seq", INT, rows), ts_start=Arr.fresh(f"{tag}.ts_start", REAL, rows),
             ts_end=Arr.fresh(f"{tag}.ts_end", REAL, rows), delay=Arr.fresh(f"{tag}.delay", REAL, rows),
             rng=Arr.fresh(f"{tag}.rng", Leaf, rows) if rs["rng"] else None, inputs=None,
             state=Arr.fresh(f"{tag}.state", Leaf, rows) if rs["state"] else None, output=[Arr.fresh(f"{tag}.output", Leaf, rows)] if rs["output"] else None)
    return Rec("StepRecord", f, module=BASE, frozen=True)


class CompiledWorld:
    """nodes a (2 slots, generations 0 and 1) -> sup (supervisor, last generation); a has no inputs, sup reads a."""

    def __init__(self, ctx, record, rs, extra=None, pfx="", consumer=False):
        """extra: name of one more input-less node (one slot `<extra>_0` in generation 0), e.g. a node whose name extends another node's name"""
        ex = ctx.ex
        self.ctr = StepCounter()
        dd = lambda: Rec("DelayDistribution", {}, module=BASE, frozen=True)
        a = Rec("BaseNode", dict(name="a", rate=z3.Real("a.rate"), inputs={}, outputs={}, step=self.ctr.make("a")), module=None)
        sup = Rec("BaseNode", dict(name="sup", rate=z3.Real("sup.rate"), inputs={}, outputs={}, step=self.ctr.make("sup")), module=None)
        sup.f["inputs"]["a_in"] = Rec("Connection", dict(output_node=a, input_node=sup, input_name="a_in", delay_dist=dd()), module=None)
        self.nodes = {"a": a, "sup": sup}
        self.win = z3.Int("win")
        ctx.require(self.win >= 1)

        def slot(name, kind, gen):
            wins = {"a": mk_window(f"T.{name}.a", self.win)} if kind == "sup" else {}
            return Rec("SlotVertex", dict(seq=z3.Int(f"T.{name}.seq"), ts_start=z3.Real(f"T.{name}.ts_start"), ts_end=z3.Real(f"T.{name}.ts_end"), windows=wins,
                                          run=z3.Bool(f"T.{name}.run"), kind=kind, generation=gen), module=BASE, frozen=True)
        self.slots = {f"{pfx}a_0": slot("a_0", "a", 0), f"{pfx}a_1": slot("a_1", "a", 1), f"{pfx}sup_0": slot("sup_0", "sup", 2)}      # the supergraph library names slots s<kind>_<i>
        if extra:
            self.nodes[extra] = Rec("BaseNode", dict(name=extra, rate=z3.Real(f"{extra}.rate"), inputs={}, outputs={}, step=self.ctr.make(extra)), module=None)
            self.slots[f"{pfx}{extra}_0"] = slot(f"{extra}_0", extra, 0)
        if consumer:      # node b reads a and sits in the SAME generation as a's first slot
            b = Rec("BaseNode", dict(name="b", rate=z3.Real("b.rate"), inputs={}, outputs={}, step=self.ctr.make("b")), module=None)
            b.f["inputs"]["a_in"] = Rec("Connection", dict(output_node=a, input_node=b, input_name="a_in", delay_dist=dd()), module=None)
            self.nodes["b"] = b
            sb = slot("b_0", "b", 0)
            sb.f["windows"]["a"] = mk_window("T.b_0.a", self.win)
            self.slots[f"{pfx}b_0"] = sb
        self.timings = Rec("Timings", dict(slots=self.slots), module=BASE, frozen=True)
        self.sizeA, self.sizeS = z3.Int("a.bufsize"), z3.Int("sup.bufsize")
        ctx.require(self.sizeA >= 1)
        ctx.require(self.sizeS >= 1)
        self.buf = {"a": [Arr.fresh("buffer.a", Leaf, self.sizeA)], "sup": [Arr.fresh("buffer.sup", Leaf, self.sizeS)]}
        self.rows = z3.Int("record.rows")
        ctx.require(self.rows >= 1)
        aux = {}
        self.record = None
        if record:
            self.steps = {k: mk_steps_record(f"rec.{k}", self.rows, rs) for k in ("a", "sup")}
            nrec = {k: Rec("NodeRecord", dict(info=None, clock=None, real_time_factor=0, ts_start=0.0, params=None, inputs=None, steps=self.steps[k]), module=BASE, frozen=True) for k in ("a", "sup")}
            self.record = Rec("EpisodeRecord", dict(nodes=nrec), module=BASE, frozen=True)
            aux = {"record": self.record}
        prevA = {}
        prevS = {"a_in": mk_input_state("prev.sup.a_in", self.win, dd=dd())}
        self.gs = Rec("GraphState", dict(step=z3.Int("gs.step"), eps=z3.Int("gs.eps"),
                                         rng={"a": z3.Const("a.rng", Leaf), "sup": z3.Const("sup.rng", Leaf)}, seq={"a": z3.Int("a.seq"), "sup": z3.Int("sup.seq")},
                                         ts={"a": z3.Real("a.ts"), "sup": z3.Real("sup.ts")}, params={"a": z3.Const("a.params", Leaf), "sup": z3.Const("sup.params", Leaf)},
                                         state={"a": z3.Const("a.state", Leaf), "sup": z3.Const("sup.state", Leaf)}, inputs={"a": prevA, "sup": prevS},
                                         timings_eps=None, buffer=self.buf, aux=aux), module=BASE, frozen=True)
        if consumer:
            self.buf["b"] = [Arr.fresh("buffer.b", Leaf, self.sizeA)]
            for fld, mkv in (("rng", lambda: z3.Const("b.rng", Leaf)), ("seq", lambda: z3.Int("b.seq")), ("ts", lambda: z3.Real("b.ts")),
                             ("params", lambda: z3.Const("b.params", Leaf)), ("state", lambda: z3.Const("b.state", Leaf)),
                             ("inputs", lambda: {"a_in": mk_input_state("prev.b.a_in", self.win, dd=dd())})):
                self.gs.f[fld]["b"] = mkv()
        if extra:
            self.buf[extra] = [Arr.fresh(f"buffer.{extra}", Leaf, self.sizeA)]
            for fld, mk in (("rng", lambda: z3.Const(f"{extra}.rng", Leaf)), ("seq", lambda: z3.Int(f"{extra}.seq")), ("ts", lambda: z3.Real(f"{extra}.ts")),
                            ("params", lambda: z3.Const(f"{extra}.params", Leaf)), ("state", lambda: z3.Const(f"{extra}.state", Leaf)), ("inputs", lambda: {})):
                self.gs.f[fld][extra] = mk()


class RunGeneration(Unit):
    name = "_run_generation"
    target = PR + "::make_run_partition_excl_supervisor"
    props = ("C01", "C06", "C08", "C09", "C13")

    def configs(self):
        for rec, rsn, rs in ((False, "-", aw_rs(False)), (True, "all", aw_rs(True)), (True, "none", aw_rs(False)), (True, "mix", dict(rng=True, state=False, output=True, inputs=False, params=False))):
            yield f"record={int(rec)}:{rsn}", dict(record=rec, rs=rs, timing="a_0")
        # uniform supergraphs: jax.lax.scan calls the same function once per generation with the stacked timings of ALL slots of a kind under the key
        # of the kind's first slot - i.e. key a_0 with the timing values (run mask, seq, ...) of a later slot
        yield "uniform-scan: key of the first slot, timings of a later slot", dict(record=True, rs=aw_rs(True), timing="a_1")
        # tracing-time failure of the masked execution: lax.cond cannot unify the step's result with the no-op result (e.g. a payload dtype that differs from the declared default output)
        yield "lax.cond cannot unify its branches (TypeError)", dict(record=False, rs=aw_rs(False), timing="a_0", cond_raises="TypeError")

    def opts(self, cfg):
        return {"cond_raises": cfg["cond_raises"]} if cfg.get("cond_raises") else {}

    def run(self, ctx):
        ex, cfg = ctx.ex, ctx.cfg
        W = CompiledWorld(ctx, cfg["record"], cfg["rs"])
        run_S = ctx.call(args=[W.nodes, W.timings, None, "sup_0"])
        ok = isinstance(run_S, Closure) and "_run_generation" in run_S.env_chain[0]
        ctx.ensure("factory returns the partition runner", z3.BoolVal(ok))
        if not ok:
            return
        run_gen = run_S.env_chain[0]["_run_generation"]
        t = W.slots[cfg["timing"]]
        seq, pred = t.f["seq"], t.f["run"]
        ctx.require(z3.And(0 <= seq, seq < W.rows))     # Graph.init_record sizes the record by the number of scheduled steps; masked slots carry seq 0
        try:
            ret = ex.call(run_gen, [W.gs, {"a_0": t}], {})
        except RaiseEx as e:
            ctx.ensure("C06 the only error of a generation is the propagated tracing failure of the masked step: no graph state is produced in which a step ran outside its run mask",
                       z3.BoolVal(bool(cfg.get("cond_raises")) and e.exc == cfg.get("cond_raises")), props=("C06",))
            return
        ok = isinstance(ret, tuple) and len(ret) == 2 and isinstance(ret[0], Rec)
        ctx.ensure("returns (graph_state, graph_state)", z3.BoolVal(ok and ret[0] is ret[1]))
        if not ok:
            return
        gs2 = ret[0]
        ncalls = len(W.ctr.calls)
        ctx.ensure("C06 the step function of the slot's node runs exactly once if the slot is scheduled (run mask true) and zero times if it is masked",
                   z3.If(pred, z3.BoolVal(ncalls == 1 and W.ctr.calls[0][0] == "a"), z3.BoolVal(ncalls == 0)), props=("C06",))
        if ncalls == 1:
            ss = W.ctr.calls[0][1]
            ctx.ensure("C06/C01 it runs with the slot's own sequence number, start time and episode, on the node's current rng / state / params",
                       z3.And(ss.f["seq"] == seq, ss.f["ts"] == t.f["ts_start"], ss.f["eps"] == W.gs.f["eps"], ss.f["rng"] == z3.Const("a.rng", Leaf),
                              ss.f["state"] == z3.Const("a.state", Leaf), ss.f["params"] == z3.Const("a.params", Leaf)), props=("C06", "C01", "C13"))
            ctx.ensure("C01 new step state = the step's result with seq + 1",
                       z3.And(gs2.f["seq"]["a"] == z3.Int("c_seq1") + 1, gs2.f["state"]["a"] == z3.Const("c_state1", Leaf), gs2.f["rng"]["a"] == z3.Const("c_rng1", Leaf),
                              gs2.f["ts"]["a"] == z3.Real("c_ts1"), gs2.f["params"]["a"] == z3.Const("c_params1", Leaf)), props=("C01", "C09", "C13"))
            out = z3.Const("c_out1", Leaf)
        else:
            ctx.ensure("masked slot: the node's step state is unchanged",
                       z3.And(gs2.f["seq"]["a"] == z3.Int("a.seq"), gs2.f["state"]["a"] == z3.Const("a.state", Leaf), gs2.f["rng"]["a"] == z3.Const("a.rng", Leaf), gs2.f["ts"]["a"] == z3.Real("a.ts")), props=("C09", "C13", "C06"))
            out = None
        ctx.ensure("other nodes' step states untouched", z3.And(gs2.f["seq"]["sup"] == z3.Int("sup.seq"), gs2.f["state"]["sup"] == z3.Const("sup.state", Leaf), aw.same(gs2.f["inputs"]["sup"], W.gs.f["inputs"]["sup"])), props=("C09", "C13"))
        # ---- output ring buffer
        b0, b1 = W.buf["a"][0], gs2.f["buffer"]["a"][0]
        j = z3.Int("j!rg")
        m = PYMOD(seq, W.sizeA)
        if ncalls == 1:
            ctx.ensure("C08 the output is written at slot seq mod size; all other slots unchanged",
                       z3.And(b1.n == W.sizeA, z3.Select(b1.a, m) == out, z3.ForAll([j], z3.Implies(z3.And(0 <= j, j < W.sizeA, j != m), z3.Select(b1.a, j) == z3.Select(b0.a, j)))), props=("C08", "C01"))
        else:
            ctx.ensure("C08 masked slot: the output buffer keeps its contents", z3.And(b1.n == W.sizeA, z3.ForAll([j], z3.Implies(z3.And(0 <= j, j < W.sizeA), z3.Select(b1.a, j) == z3.Select(b0.a, j)))), props=("C08", "C13"))
        ctx.ensure("other buffers untouched", aw.same(gs2.f["buffer"]["sup"], W.buf["sup"]), props=("C08",))
        # ---- record
        if cfg["record"]:
            r0 = W.steps["a"]
            r1 = gs2.f["aux"]["record"].f["nodes"]["a"].f["steps"]
            rs = cfg["rs"]
            fields = [("eps", None), ("seq", None), ("ts_start", None), ("ts_end", None), ("delay", None)] + [(k, None) for k in ("rng", "state") if rs[k]]
            for fld, _ in fields:
                a0, a1 = r0.f[fld], r1.f[fld]
                ctx.ensure(f"C13 record.{fld}: rows other than the slot's sequence number are untouched (never-executed rows keep -1)",
                           z3.And(a1.n == W.rows, z3.ForAll([j], z3.Implies(z3.And(0 <= j, j < W.rows, j != seq), z3.Select(a1.a, j) == z3.Select(a0.a, j)))), props=("C13",))
                ctx.ensure(f"C13 record.{fld}: a masked slot leaves its row unchanged", z3.Implies(z3.Not(pred), z3.Select(a1.a, seq) == z3.Select(a0.a, seq)), props=("C13",))
            if rs["output"]:
                a0, a1 = r0.f["output"][0], r1.f["output"][0]
                ctx.ensure("C13 record.output: other rows untouched; masked slot leaves its row unchanged",
                           z3.And(z3.ForAll([j], z3.Implies(z3.And(0 <= j, j < W.rows, j != seq), z3.Select(a1.a, j) == z3.Select(a0.a, j))), z3.Implies(z3.Not(pred), z3.Select(a1.a, seq) == z3.Select(a0.a, seq))), props=("C13",))
            if ncalls == 1:
                ss = W.ctr.calls[0][1]
                want = [z3.Select(r1.f["eps"].a, seq) == W.gs.f["eps"], z3.Select(r1.f["seq"].a, seq) == seq, z3.Select(r1.f["ts_start"].a, seq) == t.f["ts_start"],
                        z3.Select(r1.f["ts_end"].a, seq) == t.f["ts_end"], z3.Select(r1.f["delay"].a, seq) == t.f["ts_end"] - t.f["ts_start"]]
                if rs["rng"]:
                    want.append(z3.Select(r1.f["rng"].a, seq) == z3.Const("a.rng", Leaf))
                if rs["state"]:
                    want.append(z3.Select(r1.f["state"].a, seq) == z3.Const("a.state", Leaf))
                if rs["output"]:
                    want.append(z3.Select(r1.f["output"][0].a, seq) == out)
                ctx.ensure("C13 the row of an executed step holds exactly what the step used and produced (episode, seq, times, rng and state before the step, output)", z3.And(want), props=("C13",))
            ctx.ensure("other nodes' records untouched", aw.same(gs2.f["aux"]["record"].f["nodes"]["sup"], W.record.f["nodes"]["sup"]), props=("C13",))
        else:
            ctx.ensure("no record requested => none created", z3.BoolVal("record" not in gs2.f["aux"]), props=("C13",))

    def replay(self, label, clause, probes, model):
        if "cannot unify" in label:
            # the same situation on the real pipeline: a node whose payload dtype differs from its declared default output, in a multi-rate jittery graph with masked slots
            return {"kind": "bounded_case", "script": "c09_compiled_api.py",
                    "case": dict(rates=[20.0, 5.0, 2.0], win=[2, 1, 2, 1], ts_max=1.5, eps=2, key=11, jitter=True, mode="MCS", prune=False, skip=False, names="plain", start_step=0, start_eps=0, n=2,
                                 jit=True, given_params=False, mismatch=True)}
        return None


def aw_rs(v):
    return dict(params=v, rng=v, inputs=False, state=v, output=v)


class SameGenerationReads(Unit):
    """reads of a generation happen before that generation's writes: a consumer that shares a generation with its producer sees the producer's ring as it was
    when the generation started (the buffer sizes are computed for exactly this order), whatever the order of the two slots in the generation"""
    name = "_run_generation (reads before the generation's writes)"
    target = PR + "::make_run_partition_excl_supervisor"
    props = ("C08", "C01")

    def configs(self):
        yield "producer slot first", dict(order=("a_0", "b_0"))
        yield "consumer slot first", dict(order=("b_0", "a_0"))

    def run(self, ctx):
        ex, cfg = ctx.ex, ctx.cfg
        W = CompiledWorld(ctx, False, aw_rs(False), consumer=True)
        run_S = ctx.call(args=[W.nodes, W.timings, None, "sup_0"])
        ok = isinstance(run_S, Closure) and "_run_generation" in run_S.env_chain[0]
        ctx.ensure("factory returns the partition runner", z3.BoolVal(ok))
        if not ok:
            return
        run_gen = run_S.env_chain[0]["_run_generation"]
        gen = {k: W.slots[k] for k in cfg["order"]}
        for t in gen.values():
            ctx.require(0 <= t.f["seq"])
        buf_a0 = W.buf["a"][0]
        ret = ex.call(run_gen, [W.gs, gen], {})
        calls_b = [c for c in W.ctr.calls if c[0] == "b"]
        tb = W.slots["b_0"]
        if not calls_b:
            ctx.ensure("b runs iff its slot is scheduled", z3.Not(tb.f["run"]))
            return
        ss = calls_b[0][1]
        i = ss.f["inputs"].get("a_in")
        dat = i.f["data"][0] if isinstance(i, Rec) and isinstance(i.f["data"], list) and isinstance(i.f["data"][0], Arr) else None
        ctx.ensure("b's input window has the buffer's structure", z3.BoolVal(dat is not None))
        if dat is None:
            return
        wv = tb.f["windows"]["a"]
        j = z3.Int("j!sg")
        ctx.ensure("C08 a consumer in the same generation as its producer reads the producer's ring as it was at the START of the generation "
                   "(entry j from slot window.seq[j] mod size of the pre-generation buffer): the generation's own outputs are written afterwards",
                   z3.ForAll([j], z3.Implies(z3.And(0 <= j, j < wv.f["seq"].n), z3.Select(dat.a, j) == z3.Select(buf_a0.a, PYMOD(z3.Select(wv.f["seq"].a, j), W.sizeA)))))


class SkipSlots(Unit):
    """`skip` removes exactly the slots of the named kinds (zero executions for those nodes) and no slot of any other node, whatever the nodes are called"""
    name = "make_run_partition_excl_supervisor (skip list)"
    target = PR + "::make_run_partition_excl_supervisor"
    props = ("C06",)

    def configs(self):
        yield "skip=[a], other node a_x", dict(skip=["a"], extra="a_x")
        yield "skip=[a_x], other node a", dict(skip=["a_x"], extra="a_x")
        yield "skip=None", dict(skip=None, extra="a_x")
        yield "skip=[]", dict(skip=[], extra="a_x")

    def run(self, ctx):
        ex, cfg = ctx.ex, ctx.cfg
        W = CompiledWorld(ctx, False, aw_rs(False), extra=cfg["extra"], pfx="s")
        run_S = ctx.call(args=[W.nodes, W.timings, None, "ssup_0"], kwargs=dict(skip=None if cfg["skip"] is None else list(cfg["skip"])))
        ok = isinstance(run_S, Closure) and "_run_generation" in run_S.env_chain[0]
        ctx.ensure("factory returns the partition runner", z3.BoolVal(ok))
        if not ok:
            return
        run_gen = run_S.env_chain[0]["_run_generation"]
        gen0 = {k: v for k, v in W.slots.items() if v.f["generation"] == 0}
        for t in gen0.values():
            ctx.require(0 <= t.f["seq"])
        ret = ex.call(run_gen, [W.gs, gen0], {})
        skipped = set(cfg["skip"] or [])
        cl = []
        for name, t in gen0.items():
            kind = t.f["kind"]
            n = len([c for c in W.ctr.calls if c[0] == kind])
            if kind in skipped:
                cl.append(z3.BoolVal(n == 0))
            else:
                cl.append(z3.If(t.f["run"], z3.BoolVal(n == 1), z3.BoolVal(n == 0)))
        ctx.ensure("C06 a scheduled slot of a node that is NOT in `skip` runs its step exactly once (also when its name extends a skipped node's name); slots of skipped nodes run zero times",
                   z3.And(*cl))


class RecordInert(Unit):
    """C13 non-interference (2-safety): the same generation run with and without a record yields the same step states and buffers"""
    name = "record non-interference: _run_generation"
    target = PR + "::make_run_partition_excl_supervisor"
    props = ("C13",)

    def one(self, ctx, record):
        ex = ctx.ex
        W = CompiledWorld(ctx, record, aw_rs(True))
        run_S = ctx.call(args=[W.nodes, W.timings, None, "sup_0"])
        run_gen = run_S.env_chain[0]["_run_generation"]
        t = W.slots["a_0"]
        ex.assume(z3.And(0 <= t.f["seq"], t.f["seq"] < W.rows))
        ret = ex.call(run_gen, [W.gs, {"a_0": t}], {})
        return W, ret[0]

    def run(self, ctx):
        try:
            Wa, ga = self.one(ctx, False)
            Wb, gb = self.one(ctx, True)
            # the k-th call of node.step in run B gets the same argument as in run A (obligation) and therefore returns the same result (names c_*k coincide)
            ctx.ensure("same number of step executions with and without recording", z3.BoolVal(len(Wa.ctr.calls) == len(Wb.ctr.calls)))
            for (ka, sa), (kb, sb) in zip(Wa.ctr.calls, Wb.ctr.calls):
                ctx.ensure("the step receives the same step state with and without recording", z3.And(z3.BoolVal(ka == kb), toz(aw.same(sa, sb))))
            for fld in ("rng", "seq", "ts", "params", "state", "inputs", "buffer", "step", "eps"):
                ctx.ensure(f"C13 graph_state.{fld} is identical with and without recording", toz(aw.same(ga.f[fld], gb.f[fld])))
        finally:
            ctx.ex.obligations[:] = [o for o in ctx.ex.obligations if o.kind == "ensures"]


UNITS += [RunGeneration(), RecordInert(), SkipSlots(), SameGenerationReads()]


# =========================================================================================== _run_S (generation order, C07 / C09 / C13)
class NdShape:
    def __init__(self, dims):
        self.dims = dims

    def pyvc_getattr(self, ex, attr):
        if attr == "shape":
            return self.dims
        raise Unsupported(attr)


class _Stk:
    """contract-level value: jnp.stack of a concrete list of leaves (leading axis = list index)"""
    def __init__(self, items):
        self.items = items

    def pyvc_getattr(self, ex, attr):
        if attr == "shape":
            return (len(self.items),)
        raise V.Unsupported(f"stacked attribute {attr}")


def _stk_leaves(x):
    if isinstance(x, _Stk):
        return [x]
    if isinstance(x, dict):
        return [l for v in x.values() for l in _stk_leaves(v)]
    if isinstance(x, (list, tuple)):
        return [l for v in x for l in _stk_leaves(v)]
    if isinstance(x, Rec):
        return [l for v in x.f.values() for l in _stk_leaves(v)]
    return []


class RunS(Unit):
    """one partition: the step counter is clipped, the episode timings are sliced at that step, generations run in index order, each on the
    previous one's result, the supervisor's inputs are updated last, step + 1"""
    name = "_run_S"
    target = PR + "::make_run_partition_excl_supervisor"
    props = ("C07", "C09", "C13", "C01", "C08")      # C08: the ring-buffer lemma needs every generation's writes to happen in generation order, before the later generations' reads

    def configs(self):
        yield "no record", dict(record=False)
        yield "record", dict(record=True)
        # uniform generations ({a, b}, {a, b}, {sup}): the generations are folded by jax.lax.scan over the stacked timings of each kind's slots
        yield "uniform generations (scan)", dict(record=False, uniform=True)
        # 11 generations: slot names s<kind>_<i> sort differently as text (.._1, .._10, .._2) than by generation
        yield "uniform generations (scan), 11 slots per kind", dict(record=False, uniform=True, gens=11)

    def opts(self, cfg):
        def scan(ex, f, init, xs, length):
            tm = ex.lib.ns["jax.tree_util"].entries["tree_map"]
            n = {len(v.items) for v in _stk_leaves(xs)}
            if len(n) != 1:
                raise V.Unsupported("scan over stacks of different lengths")
            carry = init
            for i in range(n.pop()):
                carry, _ = ex.call(f, [carry, tm(ex, (lambda ii: lambda ex_, s: s.items[ii])(i), xs)], {})
            return carry, None
        return {"scan": scan}

    def run(self, ctx):
        ex, cfg = ctx.ex, ctx.cfg
        E, P = z3.Int("max_eps"), z3.Int("max_step")
        ctx.require(z3.And(E >= 1, P >= 1))
        mk = lambda n: Rec("BaseNode", dict(name=n, rate=z3.Real(f"{n}.rate"), inputs={}, outputs={}), module=None)
        nodes = {"a": mk("a"), "b": mk("b"), "sup": mk("sup")}
        layout = {"a_0": ("a", 0), "b_0": ("b", 0), "a_1": ("a", 1), "sup_0": ("sup", 2)}    # non-uniform generations: {a, b}, {a}, {sup}
        if cfg.get("uniform"):
            G = cfg.get("gens", 2)
            layout = {}
            for g in range(G):
                layout.update({f"a_{g}": ("a", g), f"b_{g}": ("b", g)} if g % 2 == 0 else {f"b_{g}": ("b", g), f"a_{g}": ("a", g)})
            layout["sup_0"] = ("sup", G)
            ex.lib.ns["jax.numpy"].entries["stack"] = lambda ex_, args, axis=0: _Stk(list(args))
        fslots = {s: Rec("SlotVertex", dict(seq=None, ts_start=None, ts_end=None, windows={}, run=NdShape((E, P)), kind=k, generation=g), module=BASE, frozen=True) for s, (k, g) in layout.items()}
        timings = Rec("Timings", dict(slots=fslots), module=BASE, frozen=True)
        eslots = {s: Rec("SlotVertex", dict(seq=Arr.fresh(f"te.{s}.seq", INT, P), ts_start=Arr.fresh(f"te.{s}.ts_start", REAL, P), ts_end=Arr.fresh(f"te.{s}.ts_end", REAL, P), windows={},
                                            run=Arr.fresh(f"te.{s}.run", BOOL, P), kind=k, generation=g), module=BASE, frozen=True) for s, (k, g) in layout.items()}
        rows = z3.Int("record.rows")
        ctx.require(rows >= 1)
        aux = {}
        if cfg["record"]:
            steps = {k: mk_steps_record(f"rec.{k}", rows, aw_rs(True)) for k in nodes}
            aux = {"record": Rec("EpisodeRecord", dict(nodes={k: Rec("NodeRecord", dict(info=None, clock=None, real_time_factor=0, ts_start=0.0, params=None, inputs=None, steps=steps[k]), module=BASE, frozen=True) for k in nodes}), module=BASE, frozen=True)}
        step = z3.Int("gs.step")
        mkgs = lambda tag, st: Rec("GraphState", dict(step=st, eps=z3.Int("gs.eps"), rng={k: z3.Const(f"{tag}.{k}.rng", Leaf) for k in nodes}, seq={k: z3.Int(f"{tag}.{k}.seq") for k in nodes},
                                                      ts={k: z3.Real(f"{tag}.{k}.ts") for k in nodes}, params={k: z3.Const(f"{tag}.{k}.params", Leaf) for k in nodes},
                                                      state={k: z3.Const(f"{tag}.{k}.state", Leaf) for k in nodes}, inputs={k: {} for k in nodes},
                                                      timings_eps=Rec("Timings", dict(slots=eslots), module=BASE, frozen=True), buffer={k: [Arr.fresh(f"{tag}.buf.{k}", Leaf, z3.Int(f"size.{k}"))] for k in nodes}, aux=aux), module=BASE, frozen=True)
        gs0 = mkgs("g0", step)
        cl = z3.If(step < 0, 0, z3.If(step > P - 1, P - 1, step))
        seqsup = z3.Select(eslots["sup_0"].f["seq"].a, cl)
        ctx.require(z3.And(0 <= seqsup, seqsup < rows, cl < rows))     # Graph.init_record sizes the supervisor's record by its number of steps
        gen_calls, upd_calls = [], []

        def run_generation(ex_, o, a, k, n):
            gs_in, tg = a
            gen_calls.append((gs_in, dict(tg)))
            out = mkgs(f"g{len(gen_calls)}", gs_in.f["step"])
            return out, out

        def update_inputs(ex_, o, a, k, n):
            gs_in, t = a
            upd_calls.append((gs_in, t))
            return Rec("StepState", dict(rng=z3.Const("sup.new.rng", Leaf), state=z3.Const("sup.new.state", Leaf), params=z3.Const("sup.new.params", Leaf), inputs={"x": z3.Const("sup.new.inputs", Leaf)},
                                         eps=gs_in.f["eps"], seq=t.f["seq"], ts=t.f["ts_start"]), module=BASE, frozen=True)
        ex.summaries["_run_generation"] = run_generation
        ex.summaries["_update_inputs"] = update_inputs
        run_S = ctx.call(args=[nodes, timings, None, "sup_0"])
        out = ex.call(run_S, [gs0], {})
        if cfg.get("uniform"):
            # scan: generation g is handed, under the key of each kind's FIRST slot, the timings of that kind's g-th slot
            G = cfg.get("gens", 2)
            ok = len(gen_calls) == G and all(set(tg) == {"a_0", "b_0"} for _, tg in gen_calls)
            ctx.ensure("C07 uniform generations: one scan iteration per generation, in order, keyed by each kind's first slot", z3.BoolVal(ok))
            if not ok or len(upd_calls) != 1:
                ctx.ensure("the supervisor's inputs are updated exactly once", z3.BoolVal(len(upd_calls) == 1))
                return
            ctx.ensure("C07/C09 each generation runs on the previous generation's result (state is threaded)", z3.BoolVal(gen_calls[1][0].f["state"]["a"].eq(z3.Const("g1.a.state", Leaf))))
            for g, (gs_in, tg) in enumerate(gen_calls):
                for kind in ("a", "b"):
                    t, es = tg[f"{kind}_0"], eslots[f"{kind}_{g}"]
                    ctx.ensure(f"C07/C06 scan iteration {g} hands kind {kind} the timings of its slot in generation {g} (seq, times, run mask of the clipped current step)",
                               z3.And(toz(t.f["seq"]) == z3.Select(es.f["seq"].a, cl), toz(t.f["ts_start"]) == z3.Select(es.f["ts_start"].a, cl), toz(t.f["ts_end"]) == z3.Select(es.f["ts_end"].a, cl),
                                      toz(t.f["run"]) == z3.Select(es.f["run"].a, cl), z3.BoolVal(t.f["kind"] == kind)))
            ug, ut = upd_calls[0]
            ctx.ensure("C07 the supervisor's inputs are updated last, from the state after the last generation, with the supervisor slot's timings of this step",
                       z3.And(z3.BoolVal(ug.f["state"]["a"].eq(z3.Const(f"g{G}.a.state", Leaf))), toz(ut.f["seq"]) == seqsup))
            ctx.ensure("C09 step counter: clipped into [0, max_step - 1], then + 1", toz(out.f["step"]) == cl + 1)
            return
        ctx.ensure("C07 generations are executed in index order, one call per generation (supervisor generation excluded)",
                   z3.BoolVal(len(gen_calls) == 2 and set(gen_calls[0][1]) == {"a_0", "b_0"} and set(gen_calls[1][1]) == {"a_1"}))
        if len(gen_calls) != 2 or len(upd_calls) != 1:
            ctx.ensure("the supervisor's inputs are updated exactly once", z3.BoolVal(len(upd_calls) == 1))
            return
        ctx.ensure("C07/C09 each generation runs on the previous generation's result (state is threaded)", z3.BoolVal(gen_calls[1][0] is not gen_calls[0][0] and gen_calls[1][0].f["state"]["a"].eq(z3.Const("g1.a.state", Leaf))))
        for (gs_in, tg) in gen_calls:
            for sname, t in tg.items():
                es = eslots[sname]
                ctx.ensure(f"C07/C01 slot {sname} is handed the episode's timings of the (clipped) current step: its own seq, start / end time and run mask",
                           z3.And(toz(t.f["seq"]) == z3.Select(es.f["seq"].a, cl), toz(t.f["ts_start"]) == z3.Select(es.f["ts_start"].a, cl), toz(t.f["ts_end"]) == z3.Select(es.f["ts_end"].a, cl),
                                  toz(t.f["run"]) == z3.Select(es.f["run"].a, cl), z3.BoolVal(t.f["kind"] == es.f["kind"])))
        ug, ut = upd_calls[0]
        ctx.ensure("C07 the supervisor's inputs are updated last, from the state after the last generation, with the supervisor slot's timings of this step",
                   z3.And(z3.BoolVal(ug.f["state"]["a"].eq(z3.Const("g2.a.state", Leaf))), toz(ut.f["seq"]) == seqsup))
        ctx.ensure("C09 step counter: clipped into [0, max_step - 1], then + 1", toz(out.f["step"]) == cl + 1)
        ctx.ensure("C09 the supervisor's step state is replaced by the freshly prepared one; other nodes keep the last generation's result",
                   z3.And(toz(out.f["state"]["sup"]) == z3.Const("sup.new.state", Leaf), toz(out.f["seq"]["sup"]) == seqsup, toz(out.f["state"]["a"]) == z3.Const("g2.a.state", Leaf), toz(out.f["state"]["b"]) == z3.Const("g2.b.state", Leaf)))
        if cfg["record"]:
            r0 = aux["record"].f["nodes"]["sup"].f["steps"]
            r1 = out.f["aux"]["record"].f["nodes"]["sup"].f["steps"]
            j = z3.Int("j!rS")
            gstep = cl     # row index used by the code: graph_state.step (already clipped)
            ctx.ensure("C13 the supervisor's record row of this step holds the prepared step state (seq, start time, rng, state before its step); other rows untouched; output column left for run_supervisor",
                       z3.And(z3.Select(r1.f["seq"].a, gstep) == seqsup, z3.Select(r1.f["rng"].a, gstep) == z3.Const("sup.new.rng", Leaf), z3.Select(r1.f["state"].a, gstep) == z3.Const("sup.new.state", Leaf),
                              z3.ForAll([j], z3.Implies(z3.And(0 <= j, j < rows, j != gstep), z3.Select(r1.f["seq"].a, j) == z3.Select(r0.f["seq"].a, j))),
                              toz(aw.same(r1.f["output"], r0.f["output"]))))


UNITS.append(RunS())
