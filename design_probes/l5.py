import time
from z3 import *
def T(name, s, add, goal_neg, to=30000):
    t0=time.time(); s.set(timeout=to); s.add(add); s.add(goal_neg); r=s.check(); print(f"{name}: {r} {time.time()-t0:.2f}s"); return r
# (1) selection loop (LATEST): invariant VCs + stability
ts = Array('ts', IntSort(), RealSort()); n=Int('n'); k=Int('k'); num=Int('num'); t=Real('t'); skip=Bool('skip')
j=Int('j')
def brk(a, i): return Or(a[i] > t, And(skip, a[i]==t))
inv = lambda k,num: And(0<=k, k<=n, num==k, ForAll([j], Implies(And(0<=j,j<k), Not(brk(ts,j)))))
# preservation: inv(k) & k<n & not brk(k) -> inv(k+1,num+1)
T("sel inv preserve", Solver(), [n>=0, inv(k,num), k<n, Not(brk(ts,k))], Not(inv(k+1,num+1)))
# exit -> post: num = first break index or n
post = lambda num: And(0<=num, num<=n, ForAll([j], Implies(And(0<=j,j<num), Not(brk(ts,j)))), Or(num==n, brk(ts,num)))
T("sel exit(break)", Solver(), [n>=0, inv(k,num), k<n, brk(ts,k)], Not(post(num)))
T("sel exit(end)", Solver(), [n>=0, inv(k,num), k==n], Not(post(num)))
# stability: ts2 extends ts (n2>=n), monotone both, exists future in ts -> post results equal
ts2=Array('ts2',IntSort(),RealSort()); n2=Int('n2'); num2=Int('num2'); a,b=Ints('a b')
post2 = And(0<=num2, num2<=n2, ForAll([j], Implies(And(0<=j,j<num2), Not(brk(ts2,j)))), Or(num2==n2, brk(ts2,num2)))
mono = lambda arr,nn: ForAll([a,b], Implies(And(0<=a,a<=b,b<nn), arr[a]<=arr[b]))
f=Int('f')
T("sel stability", Solver(), [n>=0,n2>=n, ForAll([j], Implies(And(0<=j,j<n), ts2[j]==ts[j])), mono(ts,n), mono(ts2,n2), 0<=f,f<n, ts[f]>t, post(num), post2], num!=num2)
# without the future guard -> should be sat (counterexample)
s=Solver(); s.set(timeout=30000); s.add([n>=0,n2>=n, ForAll([j], Implies(And(0<=j,j<n), ts2[j]==ts[j])), mono(ts,n), mono(ts2,n2), post(num), post2, num!=num2]); print("sel stability w/o guard:", s.check())
# (3) Chan merge identity (NRA): moments via sums
na,nb,S1a,S2a,S1b,S2b = Reals('na nb S1a S2a S1b S2b')
ma, va = S1a/na, S2a/na-(S1a/na)**2; mb, vb = S1b/nb, S2b/nb-(S1b/nb)**2
delta = mb-ma; tot=na+nb
new_mean = ma + delta*nb/tot; M2 = va*na + vb*nb + delta*delta*na*nb/tot; new_var=M2/tot
T("chan mean", Solver(), [na>0,nb>0], new_mean != (S1a+S1b)/tot)
T("chan var", Solver(), [na>0,nb>0], new_var != (S2a+S2b)/tot - ((S1a+S1b)/tot)**2, to=60000)
# (6) denormalize roundtrip / monotone
x,mn,mx_ = Reals('x mn mx'); off=(mn+mx_)/2; sc=(mx_-mn)/2
T("denorm inv", Solver(), [mn<mx_], ((x*sc+off)-off)/sc != x)
x2=Real('x2'); T("denorm mono", Solver(), [mn<mx_, x<x2], x*sc+off >= x2*sc+off)
T("denorm ends", Solver(), [mn<mx_], Or((-1)*sc+off != mn, 1*sc+off != mx_))
# squash range
th,lo,hi=Reals('th lo hi'); T("unsquash range", Solver(), [lo<=hi, -1<=th, th<=1], Or(0.5*(th+1)*(hi-lo)+lo<lo, 0.5*(th+1)*(hi-lo)+lo>hi))
