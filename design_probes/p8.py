import sys, os; sys.path.insert(0,'/repo')
from types import SimpleNamespace as NS
from collections import deque
import rex.asynchronous as ra
from rex.constants import Async, Clock, Jitter, Scheduling
n = object.__new__(ra._AsyncNodeWrapper)
ev=[]
conn = NS(connection=NS(blocking=True), q_ts_max=deque(), q_grouped=deque(), q_ts_next_step=deque(), _submit=lambda fn,*a,**k: ev.append(fn))
n.inputs={"x": conn}; n.outputs={}
n.node=NS(advance=False, scheduling=Scheduling.FREQUENCY, rate=10.0, name="n", log=lambda *a,**k: None)
n.log=lambda *a,**k: None
n._phase_scheduled=0.0; n._clock=Clock.SIMULATED; n._eps=0; n._state=Async.RUNNING; n._real_time_factor=0
n.q_sample=deque([0.001]*10); n.q_ts_start=deque(); n.q_ts_scheduled=deque(); n.q_ts_end_prev=deque([0.0])
n._submit=lambda fn,*a,**k: ev.append(fn)
n.throttle=lambda ts: None
# step 0: scheduled 0.1, blocking arrival late at 0.19 ; step 1: scheduled 0.2, arrival on time 0.195
n.q_ts_scheduled.extend([(0,0.1),(1,0.2)])
conn.q_ts_max.extend([0.19, 0.195])
n.push_phase_shift(); n.push_phase_shift()
starts=[x[1] for x in n.q_ts_start]
print("starts", starts, "gap", starts[1]-starts[0], "1/rate", 0.1, "phase_scheduled", n._phase_scheduled)
