import sys, os; sys.path.insert(0,'/repo'); sys.path.insert(0,'/repo/tests/unit')
import jax, jax.numpy as jnp, numpy as np, distrax
from distrax import Deterministic
from test_utils import Node
from rex.base import NodeInfo
# C16 shadow name round trip
a = Node(name="a", rate=10, delay_dist=Deterministic(0.01))
b = Node(name="b", rate=10, delay_dist=Deterministic(0.01))
b.connect(a, name="shadow", delay_dist=Deterministic(0.02))
info_b = b.info
a2 = Node.from_info(a.info); b2 = Node.from_info(info_b)
b2.connect_from_info(info_b.inputs, {"a": a2, "b": b2})
print("orig input names", list(b.inputs.keys()), [c.info.name for c in b.inputs.values()])
print("rebuilt input names", list(b2.inputs.keys()), [c.info.name for c in b2.inputs.values()])
print("phase equal", b.phase, b2.phase)
# C18 num_elites = 0
from rex.cem import CEMSolver, cem_update_mean_stdev, gaussian_samples
sol = CEMSolver.init(u_min={"x": jnp.array(-1.0)}, u_max={"x": jnp.array(1.0)}, num_samples=5, elite_portion=0.1)
st = sol.init_state({"x": jnp.array(0.0)})
samples = {"x": jnp.array([0.1,0.2,0.3,0.4,0.5])}; losses = jnp.array([5.,4.,3.,2.,1.])
ns = cem_update_mean_stdev(sol, st, samples, losses)
print("num_elites=int(5*0.1)=0 ->", ns.mean, ns.stdev, ns.bestsofar, ns.bestsofar_loss)
# all-NaN
sol = CEMSolver.init(u_min={"x": jnp.array(-1.0)}, u_max={"x": jnp.array(1.0)}, num_samples=5, elite_portion=0.4)
st = sol.init_state({"x": jnp.array(0.0)})
ns = cem_update_mean_stdev(sol, st, samples, jnp.array([jnp.nan, 3., jnp.nan, 2., jnp.nan]))
print("nan mix ->", ns.bestsofar, ns.bestsofar_loss, ns.mean)
