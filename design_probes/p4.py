import sys, os; sys.path.insert(0,'/repo')
from types import SimpleNamespace as NS
from collections import deque
import rex.asynchronous as ra
from rex.constants import Async, Clock, Jitter
from rex import base
# stub connection wrapper without running __init__
c = object.__new__(ra._AsyncConnectionWrapper)
c._state = Async.RUNNING
c.input_node = NS(eps=0, _clock=Clock.SIMULATED, now=lambda: 0.0, throttle=lambda ts: None, _submit=lambda fn,*a,**k: events.append(("node", fn.__name__)))
c.connection = NS(blocking=False, skip=False, jitter=Jitter.LATEST, window=1, output_node=NS(rate=10.0, name="a", phase=0.0), input_node=NS(name="b", log_level=50, rate=10., phase=0.0))
events=[]
c.log = lambda *a, **k: None
c.q_sample = deque([0.0, 0.0]); c._prev_recv_sc = 0.0
c.q_zip_delay=deque(); c.q_zip_msgs=deque(); c.q_ts_input=deque(); c.q_ts_next_step=deque(); c.q_expected_select=deque(); c.q_msgs=deque(); c.q_grouped=deque(); c._record_messages=[]; c._tick=0
c._phase = 0.0
c.push_ts_input(0.1000004, base.Header(eps=0, seq=0, ts=0.1000004))
print("q_ts_input", list(c.q_ts_input), "delay", list(c.q_zip_delay))
# prefix independence for nonblocking selection
def sel(q, ts_step, skip=False, jitter=Jitter.LATEST):
    c.connection.skip=skip; c.connection.jitter=jitter
    c.q_ts_input=deque(q); c.q_ts_next_step=deque([(0, ts_step)]); c.q_expected_select=deque(); c.q_msgs=deque()
    c.push_expected_nonblocking()
    return list(c.q_expected_select)
print(sel([(0,0.5)],1.0), sel([(0,0.5),(1,0.9)],1.0), sel([(0,0.5),(1,0.9),(2,1.2)],1.0), sel([(0,0.5),(1,1.0),(2,1.2)],1.0, skip=True))
