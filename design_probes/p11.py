import sys, os; sys.path.insert(0,'/repo'); sys.path.insert(0,'/repo/tests/unit')
import jax, numpy as np
from distrax import Deterministic
from rex.artificial import generate_graphs
from test_utils import Node
a = Node(name="a", rate=10, delay_dist=Deterministic(0.01))
b = Node(name="b", rate=10, delay_dist=Deterministic(0.01))
b.connect(a, name="shadow", delay_dist=Deterministic(0.01))
a.connect(b, skip=True, delay_dist=Deterministic(0.01))
nodes={"a":a,"b":b}
g = generate_graphs(nodes, 0.5, num_episodes=1)
print("edges", list(g.edges.keys()))
print("filter_edges=True :", list(g.filter(nodes, filter_edges=True).edges.keys()))
print("filter_edges=False:", list(g.filter(nodes, filter_edges=False).edges.keys()))
