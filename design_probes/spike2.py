"""Throw-away spike 2: the JAX-array path (InputState.push, update_output) through the same executor.
Run: python3-vt spike2.py   (needs spike.py next to it)"""
import ast, z3, time
from spike import Exec, State, Rec, BUILTINS, func_ast, toz, is_sym, clone, discharge

class Arr:   # 1-leading-axis array: (z3 array, length)
    def __init__(s, a, n): s.a = a; s.n = n
class Fn:    # closure
    def __init__(s, node, env, self_rec=None): s.node = node; s.env = env; s.self_rec = self_rec

def norm(i, n):  # python/jax negative index normalisation
    i = toz(i); return z3.If(i < 0, i + n, i)

class Ex(Exec):
    def expr(self, n, st):
        if isinstance(n, ast.Lambda):
            yield st, Fn(n, dict(st.env)); return
        if isinstance(n, ast.Subscript):
            for s, o in self.expr(n.value, st):
                if isinstance(o, tuple) and o and o[0] == 'shape':
                    (s2, i), = list(self.expr(n.slice, s)); assert i == 0; yield s2, o[1].n; return
                if isinstance(o, tuple) and o and o[0] == 'at':
                    (s2, i), = list(self.expr(n.slice, s)); yield s2, ('at_idx', o[1], i); return
                if isinstance(o, list):
                    (s2, i), = list(self.expr(n.slice, s)); yield s2, o[i]; return
            yield from super().expr(n, st); return
        yield from super().expr(n, st)
    def getattr(self, o, attr, st):
        if isinstance(o, Arr):
            if attr == 'shape': return ('shape', o)
            if attr == 'at': return ('at', o)
        if isinstance(o, tuple) and o and o[0] == 'at_idx' and attr == 'set': return ('at_set', o[1], o[2])
        return super().getattr(o, attr, st)
    def apply(self, f, args, kw, s, n):
        if isinstance(f, tuple) and f[0] == 'at_set':
            _, arr, i = f; (v,) = args
            idx = norm(i, arr.n)
            s.obl.append(('at-set-in-range@%d' % n.lineno, list(s.pc), z3.And(idx >= 0, idx < arr.n)))
            yield s, Arr(z3.Store(arr.a, idx, toz(v) if not isinstance(v, Arr) else v.a), arr.n); return
        if isinstance(f, Fn):
            yield from self.call_fn(f, args, s); return
        if isinstance(f, tuple) and f[0] == 'method' and (f[1].cls, f[2]) not in self.models:
            # same-class method without a contract: inline from source (DESIGN 3.3)
            _, o, name = f
            fn = func_ast(self.src_path, f'{o.cls}.{name}')
            yield from self.call_fn(Fn(fn, {}, self_rec=o), [o] + args, s); return
        yield from super().apply(f, args, kw, s, n)
    def call_fn(self, f, args, s):
        node = f.node; params = [a.arg for a in node.args.args]
        saved = s.env; s.env = dict(f.env); s.env.update(zip(params, args))
        if isinstance(node, ast.Lambda):
            for s2, v in self.expr(node.body, s):
                s2.env = saved; yield s2, v
        else:
            for s2, r in self.block(node.body, s):
                s2.env = saved; yield s2, (r[1] if r else None)

# ---- library models (assumed contracts; each would be listed in trusted_base) ----
def m_roll(ex, s, a, shift, axis=0):
    assert shift == -1 and axis == 0
    j = z3.Int('__r'); new = z3.Array('roll!%d' % s.fresh, z3.IntSort(), a.a.sort().range()); s.fresh += 1
    s.pc.append(z3.ForAll([j], z3.Implies(z3.And(0 <= j, j < a.n), z3.Select(new, j) == z3.Select(a.a, z3.If(j + 1 < a.n, j + 1, 0)))))
    yield s, Arr(new, a.n)
def m_jarray(ex, s, x): yield s, x
def m_tree_map(ex, s, f, *trees):
    out = []
    for leaves in zip(*trees):
        (s, v), = list(ex.apply(f, list(leaves), {}, s, None)); out.append(v)
    yield s, out
JNP = {'roll': m_roll, 'array': m_jarray}
JAX = {'tree_util': {'tree_map': m_tree_map}}

def sym_arr(name, sort, n): return Arr(z3.Array(name, z3.IntSort(), sort), n)

def demo_input_state_push():
    fn = func_ast('/repo/rex/base.py', 'InputState.push')
    n = z3.Int('n'); Leaf = z3.DeclareSort('Leaf')
    res = []
    st = State(); st.pc.append(n >= 1)
    inp = Rec('InputState', seq=sym_arr('seq', z3.IntSort(), n), ts_sent=sym_arr('ts_sent', z3.RealSort(), n), ts_recv=sym_arr('ts_recv', z3.RealSort(), n),
              data=sym_arr('data', Leaf, n), delay_dist=z3.Const('dd', Leaf))
    new_vals = dict(seq=z3.Int('x_seq'), ts_sent=z3.Real('x_sent'), ts_recv=z3.Real('x_recv'), data=z3.Const('x_data', Leaf))
    st.env = dict(self=inp, **new_vals)
    pre = clone(inp, {})
    def m_InputState(ex, s, *a, **k):
        yield s, Rec('InputState', seq=a[0], ts_sent=a[1], ts_recv=a[2], data=a[3], **k)
    models = dict(BUILTINS, jnp=JNP, jax=JAX, InputState=m_InputState)
    ex = Ex(models); ex.src_path = '/repo/rex/base.py'
    for s, r in ex.run(fn, st):
        out = r[1]; j = z3.Int('__p')
        for fld in ['seq', 'ts_sent', 'ts_recv', 'data']:
            o, a = out.f[fld], pre.f[fld]
            post = z3.And(o.n == n, z3.Select(o.a, n - 1) == new_vals[fld],
                          z3.ForAll([j], z3.Implies(z3.And(0 <= j, j < n - 1), z3.Select(o.a, j) == z3.Select(a.a, j + 1))))
            s.obl.append((f'ensures shift-append on {fld}', list(s.pc), post))
        s.obl.append(('ensures delay_dist kept', list(s.pc), out.f['delay_dist'] == pre.f['delay_dist']))
        res.append((s, r))
    tot, bad = discharge('push', res)
    print(f"[InputState.push] paths={len(res)} obligations={tot} failed={[(b[0], b[1]) for b in bad]}")

def demo_update_output():
    fn = func_ast('/repo/rex/partition_runner.py', 'update_output')
    size = z3.Int('size'); Leaf = z3.DeclareSort('Leaf2')
    st = State(); st.pc.append(size >= 1)
    buf = sym_arr('buf', Leaf, size); out = z3.Const('out', Leaf); seq = z3.Int('seq')
    st.env = dict(buffer=[buf], output=[out], seq=seq)   # pytree with one leaf (tree_map is leafwise: assumed)
    def m_get_buffer_size(ex, s, b): yield s, b[0].n     # callee under its own (trivial) contract
    pymod = z3.Function('pymod', z3.IntSort(), z3.IntSort(), z3.IntSort())
    class Ex3(Ex):
        def binop(self, op, a, b):
            if isinstance(op, ast.Mod):
                return pymod(toz(a), toz(b))
            return super().binop(op, a, b)
    q = z3.Int('q')
    st.pc += [seq == q * size + pymod(seq, size), pymod(seq, size) >= 0, pymod(seq, size) < size]   # Python % (floor) witness
    models = dict(BUILTINS, jnp=JNP, jax=JAX, get_buffer_size=m_get_buffer_size)
    ex = Ex3(models); ex.src_path = '/repo/rex/partition_runner.py'
    res = []
    for s, r in ex.run(fn, st):
        nb = r[1][0]; j = z3.Int('__u'); m = pymod(seq, size)
        post = z3.And(nb.n == size, z3.Select(nb.a, m) == out, z3.ForAll([j], z3.Implies(z3.And(0 <= j, j < size, j != m), z3.Select(nb.a, j) == z3.Select(buf.a, j))))
        s.obl.append(('ensures write slot seq mod size, others unchanged', list(s.pc), post)); res.append((s, r))
    tot, bad = discharge('update_output', res)
    print(f"[update_output] paths={len(res)} obligations={tot} failed={[(b[0], b[1]) for b in bad]}")

if __name__ == '__main__':
    t0 = time.time(); demo_input_state_push(); demo_update_output(); print('wall %.1fs' % (time.time() - t0))
