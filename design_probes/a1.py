import ast, sys, collections
targets = {
 '/repo/rex/asynchronous.py': ['_AsyncNodeWrapper._reset','_AsyncNodeWrapper._start','_AsyncNodeWrapper._async_step','_AsyncNodeWrapper.async_step','_AsyncNodeWrapper.push_scheduled_ts','_AsyncNodeWrapper.push_phase_shift','_AsyncNodeWrapper.push_step','_AsyncConnectionWrapper.reset','_AsyncConnectionWrapper.push_expected_nonblocking','_AsyncConnectionWrapper.push_expected_blocking','_AsyncConnectionWrapper.push_ts_max','_AsyncConnectionWrapper.push_ts_input','_AsyncConnectionWrapper.push_input','_AsyncConnectionWrapper.push_zip','_AsyncConnectionWrapper.push_selection','_Synchronizer._async_step','AsyncGraph.run_supervisor','AsyncGraph.run','AsyncGraph.step','AsyncGraph.reset','_AsyncConnectionWrapper.get_record','_AsyncNodeWrapper.get_record'],
 '/repo/rex/node.py': ['Connection.__init__','Connection.set_delay','Connection.info','Connection.phase','BaseNode.__init__','BaseNode.set_delay','BaseNode.from_info','BaseNode.connect_from_info','BaseNode.info','BaseNode.phase','BaseNode.phase_output','BaseNode.connect','BaseNode.init_delays','BaseNode.init_inputs'],
 '/repo/rex/partition_runner.py': ['update_output','get_buffer_size','make_update_state','make_update_inputs','make_run_partition_excl_supervisor'],
 '/repo/rex/graph.py': ['Graph.run','Graph.step','Graph.reset','Graph.rollout','Graph.run_supervisor','Graph.init'],
 '/repo/rex/base.py': ['Window._shift','Window.push','InputState._shift','InputState.push','Graph.stack','Graph.filter','Graph.__len__','Graph.__getitem__','EpisodeRecord.filter','EpisodeRecord.to_graph','ExperimentRecord.to_graph','ExperimentRecord._padded_stack','StaticDist.sample','StaticDist.quantile','TrainableDist.sample','TrainableDist.window','TrainableDist.apply_delay','TrainableDist.get_alpha','TrainableDist._get_alpha','TrainableDist.create','GraphState.replace_eps','GraphState.replace_step','Chain.apply','Chain.inv','Denormalize.init','Denormalize.normalize','Denormalize.denormalize','Exponential.apply','Exponential.inv','Extend.extend','Extend.filter','Shared.apply','Shared.inv','Timings.get_buffer_sizes','Timings.get_output_buffer','WindowedGraph.to_graph'],
 '/repo/rex/utils.py': ['apply_window','to_networkx_graph','to_connected_graph','to_timings','mixture_distribution_quantiles'],
 '/repo/rex/artificial.py': ['_generate_graphs'],
 '/repo/rex/cem.py': ['gaussian_samples','cem_update_mean_stdev','cem_step','cem'],
 '/repo/rex/evo.py': ['evo_step'],
 '/repo/rex/rl.py': ['Environment.step','Environment.reset','Environment.init','AutoResetWrapper.step','AutoResetWrapper.reset','LogWrapper.step','LogWrapper.reset','SquashState.scale','SquashState.unsquash','ClipActionWrapper.step','SquashActionWrapper.step','NormalizeVec.normalize','NormalizeVec.denormalize','NormalizeVecObservationWrapper.step','NormalizeVecObservationWrapper.reset','NormalizeVecReward.step'],
 '/repo/rex/ppo.py': ['Policy.apply_actor','Policy.get_action','PPOResult.policy','PPOResult.obs_scaling','PPOResult.act_scaling'],
 '/repo/rex/actor_critic.py': ['Actor.__call__'],
 '/repo/rex/gmm_estimator.py': ['GMMEstimator._rescale','GMMEstimator.get_dist'],
}
def find(tree, qual):
    parts = qual.split('.')
    node = tree
    for p in parts:
        for c in ast.iter_child_nodes(node):
            if isinstance(c,(ast.FunctionDef,ast.ClassDef)) and c.name==p:
                node=c; break
        else: return None
    return node
hist = collections.Counter(); calls=collections.Counter(); tot=0
for f, quals in targets.items():
    tree = ast.parse(open(f).read())
    for q in quals:
        n = find(tree,q)
        if n is None: print("MISSING",f,q); continue
        loc = n.end_lineno-n.lineno+1; tot+=loc
        for x in ast.walk(n):
            hist[type(x).__name__]+=1
            if isinstance(x, ast.Call):
                calls[ast.unparse(x.func)]+=1
print("functions", sum(len(v) for v in targets.values()), "loc", tot)
print([k for k,v in hist.most_common() if k in ('While','For','Try','With','ListComp','DictComp','GeneratorExp','Lambda','FunctionDef','Raise','Assert','JoinedStr','Starred','Global','Nonlocal','Yield','Await','NamedExpr','SetComp','Slice','IfExp')], {k:hist[k] for k in ('While','For','Try','With','ListComp','DictComp','GeneratorExp','Lambda','FunctionDef','Raise','Assert','Slice','IfExp','Starred','NamedExpr')})
print(len(calls)); print(sorted(calls.items(), key=lambda x:-x[1])[:150])
