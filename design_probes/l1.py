from z3 import *
def mx(*a):
    r=a[0]
    for x in a[1:]: r=If(x>r,x,r)
    return r
s0,s1,ps0,pi0,pi1,ep0,d0,p = Reals('s0 s1 ps0 pi0 pi1 ep0 d0 p')
pl0 = ep0 - s0
st0 = s0 + mx(pi0,pl0,ps0)
ps1 = ps0 + mx(0,pl0-ps0)
ep1 = st0 + d0
pl1 = ep1 - s1
st1 = s1 + mx(pi1,pl1,ps1)
S=Solver()
S.add(p>0, s1-s0 >= p-1e-6, ps0>=0, d0>=0)
# literal
S.push(); S.add(st1-st0 < p-1e-6); print("literal:", S.check()); print(S.model() if S.check()==sat else ''); S.pop()
# conditional: step k not bound by blocking arrival
S.push(); S.add(pi0 <= mx(pl0,ps0)); S.add(st1-st0 < p-1e-6); print("conditional:", S.check()); S.pop()
# never before schedule, no overlap
S.push(); S.add(Or(st0 < s0, st0 < ep0)); print("sched/overlap:", S.check()); S.pop()
