import time
from z3 import *
# Ring-buffer lemma with symbolic size S: mod by a variable -> axiomatise pymod via quotient witness
S_, w, s, r = Ints('S w s r')
buf = Array('buf', IntSort(), IntSort()); out = Function('out', IntSort(), IntSort()); dflt = Int('dflt')
pymod = Function('pymod', IntSort(), IntSort(), IntSort()); q = Function('q', IntSort(), IntSort(), IntSort())
a,b = Ints('a b')
modax = ForAll([a,b], Implies(b>0, And(a == q(a,b)*b + pymod(a,b), 0<=pymod(a,b), pymod(a,b)<b)), patterns=[pymod(a,b)])
def Inv(buf, w):
    x=Int('x')
    return ForAll([x], Implies(And(w-S_ < x, x <= w), buf[pymod(x,S_)] == If(x>=0, out(x), dflt)), patterns=[pymod(x,S_)])
t0=time.time()
sol=Solver(); sol.set(timeout=60000)
sol.add(modax, S_>=1, w>=-1, Inv(buf,w))
buf2 = Store(buf, pymod(w+1,S_), out(w+1))
x=Int('xx')
sol.add(w+1-S_ < x, x <= w+1, buf2[pymod(x,S_)] != If(x>=0,out(x),dflt))
print("RB step:", sol.check(), round(time.time()-t0,2))
