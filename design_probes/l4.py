import time
from z3 import *
S_,x,y,q1,q2,m = Ints('S x y q1 q2 m')
t0=time.time()
sol=Solver(); sol.set(timeout=30000)
sol.add(S_>=1, x==q1*S_+m, y==q2*S_+m, x-y<S_, y-x<S_, x!=y)
print("distinct residues lemma (z3):", sol.check(), round(time.time()-t0,2))
# RB step using lemma as hypothesis instance (uninterpreted mod with range + injectivity-on-window axiom)
pm = Function('pm', IntSort(), IntSort())   # pm(x) = x mod S for the fixed S
w = Int('w'); buf = Array('buf', IntSort(), IntSort()); out = Function('out', IntSort(), IntSort()); dflt=Int('dflt')
a,b=Ints('a b')
inj = ForAll([a,b], Implies(And(a-b<S_, b-a<S_, pm(a)==pm(b)), a==b), patterns=[MultiPattern(pm(a),pm(b))])
rng = ForAll([a], And(0<=pm(a), pm(a)<S_), patterns=[pm(a)])
def Inv(buf,w):
    z=Int('z'); return ForAll([z], Implies(And(w-S_<z, z<=w), buf[pm(z)]==If(z>=0,out(z),dflt)), patterns=[pm(z)])
sol=Solver(); sol.set(timeout=30000); t0=time.time()
sol.add(S_>=1, w>=-1, inj, rng, Inv(buf,w))
buf2=Store(buf, pm(w+1), out(w+1)); xx=Int('xx')
sol.add(w+1-S_<xx, xx<=w+1, buf2[pm(xx)] != If(xx>=0,out(xx),dflt))
print("RB step with residue lemma:", sol.check(), round(time.time()-t0,2))
# read lemma: if w - r < S and r <= w then buf[pm(r)] is out(r)/dflt  (direct instance of Inv)
sol=Solver(); r=Int('r'); sol.add(S_>=1, Inv(buf,w), r<=w, w-r<S_, buf[pm(r)] != If(r>=0,out(r),dflt)); print("RB read:", sol.check())
