import sys, os; sys.path.insert(0,'/repo'); sys.path.insert(0,'/repo/tests/unit')
import jax, jax.numpy as jnp, numpy as np
from distrax import Deterministic, Normal
from rex.artificial import generate_graphs
from rex.graph import Graph
from flax import struct
from test_utils import Node, Output, State
class SeqNode(Node):
    def init_output(self, rng=None, graph_state=None): return Output(jnp.array([-100.0]))
    def init_state(self, rng=None, graph_state=None): return State(jnp.array([0.0]))
    def step(self, ss):
        new_rng, r = jax.random.split(ss.rng)
        acc = ss.state.a + sum(jnp.sum(i.data.a) for i in ss.inputs.values()) + jax.random.uniform(r)
        return ss.replace(rng=new_rng, state=State(acc)), Output(acc + ss.seq)
a = SeqNode(name="a", rate=10, delay_dist=Normal(0.03,0.01)); b = SeqNode(name="b", rate=7, delay_dist=Deterministic(0.005)); c = SeqNode(name="c", rate=4, delay_dist=Deterministic(0.01))
b.connect(a, window=2, delay_dist=Deterministic(0.01)); c.connect(b, window=1, delay_dist=Deterministic(0.0)); c.connect(a, window=3, delay_dist=Deterministic(0.02)); a.connect(c, window=1, skip=True, delay_dist=Deterministic(0.0))
nodes={"a":a,"b":b,"c":c}
g = generate_graphs(nodes, 2.0, num_episodes=2, rng=jax.random.PRNGKey(5))
graph = Graph(nodes=nodes, supervisor=c, graphs_raw=g, progress_bar=False)
gs0 = graph.init(jax.random.PRNGKey(1), starting_eps=1)
plain = graph.rollout(gs0, carry_only=True)
rec0 = graph.init_record(gs0, params=True, rng=True, inputs=True, state=True, output=True)
rec = graph.rollout(rec0, carry_only=True)
strip = lambda gs: gs.replace(aux={}, timings_eps=None)
eq = jax.tree_util.tree_all(jax.tree_util.tree_map(lambda x,y: bool(jnp.array_equal(x,y, equal_nan=True)), strip(plain), strip(rec)))
print("record on/off same final state:", eq)
# API path equivalence C09: run^n vs reset+step^n(+alignment)
n=4
g1 = gs0
for _ in range(n): g1 = graph.run(g1)
g1 = graph.run_until_supervisor(g1)
g2, ss = graph.reset(gs0)
for _ in range(n): g2, ss = graph.step(g2)
print("run^n;RUS == reset;step^n:", jax.tree_util.tree_all(jax.tree_util.tree_map(lambda x,y: bool(jnp.array_equal(x,y, equal_nan=True)), strip(g1), strip(g2))))
r = rec.aux["record"].nodes
for k in r: print(k, "seq", np.array(r[k].steps.seq), "state[0:3]", np.array(r[k].steps.state.a)[:3,0])
# state before step k+1 == state after step k  : check via output relation out_k = acc_k + k  where acc_k = state_{k+1}
for k in r:
    st = np.array(r[k].steps.state.a)[:,0]; out = np.array(r[k].steps.output.a)[:,0]; seq=np.array(r[k].steps.seq)
    m = (seq>=0); idx=np.where(m)[0]
    ok = all(abs(out[i]-seq[i]-st[i+1])<=1e-5*max(1,abs(st[i+1])) for i in idx[:-1] if seq[i+1]>=0)
    print(k, "state threading consistent:", ok)
