import sys, os; sys.path.insert(0,'/repo'); sys.path.insert(0,'/repo/tests/unit')
import jax, jax.numpy as jnp, distrax, numpy as np
from distrax import Deterministic, Normal
from rex.artificial import generate_graphs
from test_utils import Node
a = Node(name="a", rate=20, delay_dist=Deterministic(0.005))
b = Node(name="b", rate=10, delay_dist=Deterministic(0.005))
b.connect(a, window=1, blocking=False, delay_dist=Normal(0.08, 0.06))
nodes = {"a": a, "b": b}
g = generate_graphs(nodes, 2.0, num_episodes=1, rng=jax.random.PRNGKey(1))
e = jax.tree_util.tree_map(lambda x: np.array(x[0]), g.edges[("a","b")])
vb = jax.tree_util.tree_map(lambda x: np.array(x[0]), g.vertices["b"])
va = jax.tree_util.tree_map(lambda x: np.array(x[0]), g.vertices["a"])
bad = 0
for so, si, tr in zip(e.seq_out, e.seq_in, e.ts_recv):
    if so < 0 or si < 0: continue
    valid = vb.seq >= 0
    first = np.argmax((vb.ts_start >= tr) & valid) if ((vb.ts_start >= tr) & valid).any() else -1
    sent = va.ts_end[so]
    if first != si or tr < sent:
        bad += 1
        if bad < 6: print("seq_out", so, "sent", sent, "recv", tr, "assigned", si, "first", first, "ts_start[assigned]", vb.ts_start[si])
print("bad", bad, "of", (e.seq_out>=0).sum())
print("ts_recv monotone:", np.all(np.diff(e.ts_recv[e.seq_out>=0])>=0))
