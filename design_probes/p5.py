import sys, os; sys.path.insert(0,'/repo'); sys.path.insert(0,'/repo/tests/unit')
import jax, jax.numpy as jnp, numpy as np, distrax
from distrax import Deterministic, Normal
from rex.artificial import generate_graphs
from rex.base import TrainableDist, StepState
from rex.graph import Graph
from test_utils import Node, Output
class SeqNode(Node):
    def init_output(self, rng=None, graph_state=None): return Output(jnp.array([-100.0]))
    def step(self, ss): return ss, Output(jnp.array([1.0])*ss.seq)
def build(dd, sender_dd, skip=False):
    a = SeqNode(name="a", rate=10, delay_dist=sender_dd)
    b = SeqNode(name="b", rate=7, delay_dist=Deterministic(0.005))
    b.connect(a, window=2, blocking=False, delay_dist=dd, skip=skip)
    a.connect(b, window=1, blocking=False, skip=True, delay_dist=Deterministic(0.0))
    return {"a": a, "b": b}
def run(dd, sender_dd, skip=False, seed=3):
    nodes = build(dd, sender_dd, skip)
    g = generate_graphs(nodes, 3.0, num_episodes=1, rng=jax.random.PRNGKey(seed))
    graph = Graph(nodes=nodes, supervisor=nodes["b"], graphs_raw=g, progress_bar=False)
    gs = graph.init()
    gs = graph.init_record(gs, inputs=True, output=True)
    gs = graph.rollout(gs, carry_only=True)
    r = gs.aux["record"].nodes["b"].steps
    return np.array(r.seq), np.array(r.ts_start), np.array(r.inputs["a"].seq), np.array(r.inputs["a"].data.a)[...,0]
for sender_dd, tag in [(Deterministic(0.01),"det-sender"), (Normal(0.05,0.03),"jitter-sender")]:
  for d in [0.0, 0.03, 0.07, 0.1]:
    s1,t1,q1,x1 = run(TrainableDist.create(d, 0.0, 0.1), sender_dd)
    s2,t2,q2,x2 = run(Deterministic(d), sender_dd)
    n = min((s1>=0).sum(), (s2>=0).sum())
    bad = [(int(s1[k]), float(t1[k]), q1[k].tolist(), q2[k].tolist()) for k in range(n) if not np.array_equal(x1[k], x2[k])]
    print(tag, "d",d, "steps", n, "mismatch", len(bad), bad[:3], "ts equal", np.allclose(t1[:n],t2[:n]))
