import sys, os; sys.path.insert(0,'/repo'); sys.path.insert(0,'/repo/tests/unit')
import jax, jax.numpy as jnp, numpy as np
from rex.cem import CEMSolver, cem_update_mean_stdev
samples = {"x": jnp.array([0.1,0.2,0.3,0.4,0.5])}
sol = CEMSolver.init(u_min={"x": jnp.array(-1.0)}, u_max={"x": jnp.array(1.0)}, num_samples=5, elite_portion=0.6)
st = sol.init_state({"x": jnp.array(0.0)})
ns = cem_update_mean_stdev(sol, st, samples, jnp.array([jnp.nan, 3., jnp.nan, 2., jnp.nan]))
print("nan mix (3 elites, 2 finite) ->", ns.bestsofar, ns.bestsofar_loss, ns.mean)
ns2 = cem_update_mean_stdev(sol, ns, samples, jnp.array([jnp.nan]*5))
print("all nan after finite ->", ns2.bestsofar, ns2.bestsofar_loss)
ns3 = cem_update_mean_stdev(sol, st, samples, jnp.array([jnp.nan]*5))
print("all nan from init ->", ns3.bestsofar, ns3.bestsofar_loss)
# C20 state-dependent std
import rex.ppo as ppo
from rex.actor_critic import Actor
for sis in [True, False]:
    actor = Actor(num_output_units=2, num_hidden_units=8, num_hidden_layers=2, hidden_activation="tanh", output_activation="gaussian", state_independent_std=sis)
    obs = jnp.array([0.5,0.5,0.1]); params = actor.init(jax.random.PRNGKey(0), obs)
    pi = actor.apply(params, obs)
    pol = ppo.Policy(act_scaling=None, obs_scaling=None, model={"actor": params["params"]}, hidden_activation="tanh", output_activation="gaussian", state_independent_std=sis)
    a = pol.get_action(obs)
    print("state_independent_std", sis, "actor mean", np.array(pi.mean()), "policy", np.array(a))
