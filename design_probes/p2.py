import sys, os; sys.path.insert(0,'/repo'); sys.path.insert(0,'/repo/tests/unit')
import jax, jax.numpy as jnp, distrax, collections, threading, time
from distrax import Deterministic
import rex.constants as const
from rex.asynchronous import AsyncGraph
from test_utils import Node, Output
COUNT = collections.Counter()
class CNode(Node):
    def step(self, ss):
        COUNT[(self.name, int(ss.seq))] += 1
        return ss, Output(jnp.array([1.0]))
node1 = CNode(name="node1", rate=10, delay_dist=Deterministic(0.01))
node2 = CNode(name="node2", rate=11, delay_dist=Deterministic(0.01))
nodes = {n.name: n for n in [node1, node2]}
node1.connect(node2, window=1, delay_dist=Deterministic(0.01), blocking=False)
node2.connect(node1, window=1, delay_dist=Deterministic(0.01), blocking=False, skip=True)
graph = AsyncGraph(nodes=nodes, supervisor=node1, clock=const.Clock.SIMULATED, real_time_factor=const.RealTimeFactor.FAST_AS_POSSIBLE)
graph.set_record_settings(params=True, rng=True, state=True, inputs=True, output=True)
gs = graph.init()
graph.warmup(gs, jit_step=False)
for _ in range(5):
    gs = graph.run(gs)
def stopper():
    graph.stop()
t = threading.Thread(target=stopper, daemon=True); t.start(); t.join(20)
print("stop returned:", not t.is_alive())
print(sorted(COUNT.items())[:12])
if not t.is_alive():
    rec = graph.get_record()
    for n, r in rec.nodes.items():
        print(n, r.steps.seq, r.steps.ts_start)
os._exit(0)
